"""Static-analysis machinery for discretisedfield properties C01-C20 (stdlib only)."""
