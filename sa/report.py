"""Verdict bookkeeping, known findings, evidence files."""
import json
import os
import time

from .model import AnalysisError

VERIF = os.path.dirname(os.path.dirname(os.path.abspath(__file__)))
KNOWN_FILE = os.path.join(VERIF, "KNOWN_FINDINGS.txt")


def load_known(pid):
    """-> {key: text} for 'finding:' lines of this property.  'fixed:' lines suppress nothing."""
    out = {}
    if not os.path.exists(KNOWN_FILE):
        return out
    with open(KNOWN_FILE, encoding="utf-8") as fh:
        for line in fh:
            line = line.strip()
            if not line.startswith("finding:"):
                continue
            body = line[len("finding:"):].strip()
            parts = body.split(None, 2)
            if len(parts) < 2 or not parts[0].startswith("property=") or not parts[1].startswith("key="):
                continue
            if parts[0][9:] != pid:
                continue
            out[parts[1][4:]] = parts[2] if len(parts) > 2 else ""
    return out


class Check:
    def __init__(self, pid, repo, tier="quick"):
        self.pid = pid
        self.repo = repo
        self.tier = tier
        self.obligations = []     # dicts
        self.notes = []
        self.t0 = time.time()
        self.trusted = []
        self.assumptions = []
        self.rules = []
        self.analysed_funcs = set()

    # ------------------------------------------------------------------
    def rule(self, rid, text):
        if not any(r.startswith(f"{rid}: ") for r in self.rules):
            self.rules.append(f"{rid}: {text}")

    def trust(self, text):
        if text not in self.trusted:
            self.trusted.append(text)

    def assume(self, text):
        if text not in self.assumptions:
            self.assumptions.append(text)

    def ob(self, key, ok, rule, detail="", func=None, node=None, nontrivial=True):
        """record one rule instance.  ok: True | False"""
        loc = ""
        if func is not None:
            self.analysed_funcs.add(func.qual)
            loc = func.loc(node)
        self.obligations.append({"key": key, "ok": bool(ok), "rule": rule, "detail": detail,
                                 "where": loc, "function": func.qual if func else None,
                                 "nontrivial": nontrivial})
        return bool(ok)

    def note(self, text):
        self.notes.append(text)

    def require(self, cond, msg):
        if not cond:
            raise AnalysisError(msg)

    # ------------------------------------------------------------------
    def finish(self, floor, extra_cov=None, seed=0):
        known = load_known(self.pid)
        total = len(self.obligations)
        if total < floor and not any((not o["ok"]) and o["key"] not in known for o in self.obligations):
            raise AnalysisError(f"{self.pid}: only {total} rule instances were found, floor is {floor} "
                                f"(a rule matching nothing must not pass vacuously)")
        bad = [o for o in self.obligations if not o["ok"]]
        new = []
        knownhits = []
        seen = set()
        for o in bad:
            if o["key"] in known:
                if o["key"] not in seen:
                    knownhits.append(o)
            else:
                new.append(o)
            seen.add(o["key"])
        lines = []
        for o in knownhits:
            lines.append(f"KNOWN-FINDING: property={self.pid} key={o['key']} {known[o['key']]}")
        replay = None
        if new:
            rdir = os.path.join(os.environ.get("VERIF_NO_EVIDENCE") and "/tmp/verif_scratch" or VERIF, "evidence", "replay")
            os.makedirs(rdir, exist_ok=True)
            replay = os.path.join(rdir, f"{self.pid}.json")
            with open(replay, "w") as fh:
                json.dump({"property": self.pid, "digest": self.repo.digest,
                           "violations": new}, fh, indent=1)
            for o in new:
                lines.append(f"  {o['where']} [{o['function']}] rule {o['rule']} instance {o['key']}: {o['detail']}")
            lines.append(f"VIOLATION property={self.pid} replay={replay}")
        distinct = len({o["key"] for o in self.obligations if o["nontrivial"]})
        samples = []
        for o in (new + knownhits + [o for o in self.obligations if o["ok"]])[:14]:
            samples.append({k: o[k] for k in ("key", "rule", "where", "function", "ok", "detail")})
        cov = {
            "explanation": " | ".join(self.rules) or "static rules over the parsed source",
            "obligations": total,
            "discharged": total - len(bad),
            "evaluations": total,
            "distinct_nontrivial": distinct,
            "rule": "one evaluation = one rule instance (function/construct/role) decided on the current source; "
                    "distinct = distinct construct keys; non-trivial = the rule's premise matched a construct "
                    "(instances whose premise is vacuous are not recorded at all)",
            "samples": samples,
            "trusted_base": self.trusted,
            "analysed": dict(self.repo.stats(), functions_consulted=sorted(self.analysed_funcs)),
            "known_findings_hit": [o["key"] for o in knownhits],
            "notes": self.notes[:40],
            "exhaustive": True,
            "checker_cmd": f"./check {self.pid} --tier {self.tier}",
        }
        if extra_cov:
            cov.update(extra_cov)
        ev = {"property_id": self.pid, "tier": self.tier, "seed": int(seed), "level": "other",
              "coverage": cov, "assumptions": self.assumptions, "wall_s": round(time.time() - self.t0, 3),
              "violations": len(new)}
        return ev, lines, (1 if new else 0)


def write_evidence(pid, ev):
    if os.environ.get("VERIF_NO_EVIDENCE"):
        return  # scratch evaluation of a variant tree (seed evaluation): never touches the committed evidence
    d = os.path.join(VERIF, "evidence")
    os.makedirs(d, exist_ok=True)
    with open(os.path.join(d, f"{pid}.json"), "w") as fh:
        json.dump(ev, fh, indent=1, default=str)
