"""C18 - arbitrary rotations rotate the vectors and resample the positions consistently."""
import ast

from ..model import AnalysisError
from ..lib import (FV, decode_new, decode_call, phi_members, is_sym, is_const, is_str, strip_stores, stores_of,
                   find_assign, find_assigns, simple_assigns, local_term, cond_equiv, cond_implies, path_term)
from ..lib import (reached_iff, reached_implies, implies_reached, reached_iff_any, path_term, cond_equiv, cond_implies,  # noqa: F401
                   else_stmts, branch_stmts, context_literals)
from ..cfg import always_raises, walk_stmts
from ..terms import r_sub, r_add
from . import common as cm
from . import geom
from .common import FIELD, MESH, REGION
from .c01 import each, _single_return
from .c05 import loop_guard

FLOOR = 22
ANCHORS = [
    'field_rotator.FieldRotator.__init__',
    'field_rotator.FieldRotator.field',
    'field_rotator.FieldRotator.rotate',
    'field_rotator.FieldRotator.clear_rotation',
    'field_rotator.FieldRotator._map_and_interpolate',
    'field_rotator.FieldRotator._create_interpolation_funcs',
    'field_rotator.FieldRotator._calculate_new_region',
    'field_rotator.FieldRotator._calculate_new_n',
]   # functions whose code the property is anchored in (mutation analysis, evidence)
ROT = "field_rotator.FieldRotator"
PT = {"field": FIELD, "new_mesh": MESH, "new_region": REGION}

AUTOMUT_TRIAGE = [
    (r"__init__$", r"field\.mesh\.bc != ", "only a warning that boundary conditions are lost"),
]


def run(chk):
    repo = chk.repo
    cm.schema(chk, repo, "C18")
    d1_refusals(chk, repo)
    d2_state(chk, repo)
    d3_directions(chk, repo)
    d4_geometry(chk, repo)
    chk.trust("scipy Rotation: `a * b` applies b first and then a; r.apply(v) rotates vectors by r, r.inv() is the inverse rotation; "
              "RegularGridInterpolator(points, values, fill_value=0, bounds_error=False) is multilinear inside the grid and 0 outside")
    chk.assume("everything numerical is undecided: interpolation weights, which cells count as 'one cell inside', the resolution "
               "choice, agreement with the lattice quarter turn of C12")


def d1_refusals(chk, repo):
    chk.rule("C18.D1", "the constructor refuses fields that are not scalar or 3-vector, not on a 3-d mesh, or whose components are "
                       "not all mapped onto region dims, before it keeps the field")
    v = FV(repo, ROT + ".__init__", param_types=PT)
    st = [s for s in v.self_stores() if s[1] == "_orig_field"]
    chk.require(len(st) == 1, "FieldRotator.__init__: _orig_field store vanished")
    store = st[0][0]
    ok, det = v.guard("field.nvdim not in [1, 3]", exc=("ValueError",), before=store)
    chk.ob(ROT + ".__init__::refuses::nvdim", ok, "C18.D1", det, v.f)
    ok, det = v.guard("field.mesh.region.ndim != 3", exc=("ValueError",), before=store)
    chk.ob(ROT + ".__init__::refuses::ndim", ok, "C18.D1", det, v.f)
    # mapping tests live in `if field.nvdim > 1: for vdim in field.vdims:`
    okm = oka = False
    for s in v.body:
        if isinstance(s, ast.If) and v.eq(v.ev.term(s.test, at=s), v.spec("field.nvdim > 1")) and \
                v.cfg.reachable(v.cfg.node(s), v.cfg.node(store)):
            for lp in s.body:
                if isinstance(lp, ast.For) and v.eq(v.term(lp.iter, at=lp), v.spec("field.vdims")):
                    e = each(v, v.spec("field.vdims"))
                    for s2 in walk_stmts(lp.body):
                        if isinstance(s2, ast.If) and always_raises(s2.body):
                            ct = v.ev.term(s2.test, at=s2)
                            if v.eq(ct, v.spec("e not in field.vdim_mapping", env={"e": e})):
                                okm = True
                            if v.eq(ct, v.spec("field.vdim_mapping[e] not in field.mesh.region.dims", env={"e": e})):
                                oka = True
    chk.ob(ROT + ".__init__::refuses::unmapped-component", okm, "C18.D1",
           "vector fields with a component missing from vdim_mapping must be refused", v.f)
    chk.ob(ROT + ".__init__::refuses::foreign-axis", oka, "C18.D1",
           "vector fields with a component mapped to something that is not a region dim must be refused", v.f)
    chk.ob(ROT + ".__init__::keeps-the-field", is_sym(v.ctx, v.term(st[0][2], at=store), "param:field"), "C18.D1",
           "_orig_field must be the given field", v.f, store)
    after = [c for c, s in v.calls() if isinstance(c.func, ast.Attribute) and c.func.attr == "clear_rotation"]
    chk.ob(ROT + ".__init__::starts-unrotated", bool(after) and v.cfg.reachable(v.cfg.node(store), v.cfg.node(v.owner(after[0]))),
           "C18.D1", "the constructor must initialise the rotation state through clear_rotation()", v.f)


def d2_state(chk, repo):
    chk.rule("C18.D2", "state machine: _orig_field is written only by the constructor, _rotation and _rotated_field only by rotate "
                       "and clear_rotation; clear_rotation resets BOTH (identity rotation, original field); rotate composes the new "
                       "rotation on the LEFT of the accumulated one and reads data only from _orig_field")
    owners = {"_orig_field": {ROT + ".__init__"}, "_rotation": {ROT + ".rotate", ROT + ".clear_rotation"},
              "_rotated_field": {ROT + ".rotate", ROT + ".clear_rotation"}}
    n = 0
    for fi in repo.funcs.values():
        if not fi.qual.startswith("field_rotator."):
            continue
        for st in walk_stmts(fi.node.body):
            tg = st.targets if isinstance(st, ast.Assign) else ([st.target] if isinstance(st, (ast.AugAssign, ast.AnnAssign)) else [])
            for t in tg:
                if isinstance(t, ast.Attribute) and t.attr in owners:
                    n += 1
                    chk.ob(f"{fi.qual}::store::{t.attr}::owner", fi.qual in owners[t.attr], "C18.D2",
                           f"`{ast.unparse(st)[:70]}` writes {t.attr} outside {sorted(owners[t.attr])}", fi, st)
    chk.ob("field_rotator.FieldRotator::state-store-count", n >= 5, "C18.D2",
           f"only {n} stores to the rotator's state slots (constructor: 1, rotate: 2, clear_rotation: 2 confirmed by reading): a "
           "transition no longer updates all of its state", repo.func(ROT + ".__init__"))
    v = FV(repo, ROT + ".clear_rotation")
    st = {a: v.term(val, at=s) for s, a, val, k in v.self_stores()}
    ok = "_rotation" in st and v.eq(st["_rotation"], v.spec("Rotation.from_matrix(np.eye(3))")) and \
        "_rotated_field" in st and v.eq(st["_rotated_field"], v.spec("self._orig_field"))
    chk.ob(ROT + ".clear_rotation::resets-both", ok, "C18.D2",
           f"clear_rotation stores {dict((k, v.show(t)) for k, t in st.items())}; expected the identity rotation and the original field", v.f)
    r = FV(repo, ROT + ".rotate", param_types=PT)
    st = [(s, val) for s, a, val, k in r.self_stores() if a == "_rotation"]
    ok = False
    if len(st) == 1:
        # the product is non-commutative: check the operand order in the source.  The new rotation is whatever was
        # built from the caller's arguments (scipy constructor or align_vectors); it must not involve the old state
        val = st[0][1]

        def is_new(t_):
            mem = phi_members(r.ctx, t_)
            built = all((decode_call(r.ctx, m) or ("",))[0] == "dyn" or (r.ctx.head_of(m) or ("",))[0] == "sub" for m in mem)
            return built and not r.ctx.mentions_or_eq(t_, r.spec("self._rotation")) and len(mem) == 2
        ok = isinstance(val, ast.BinOp) and isinstance(val.op, ast.Mult) and \
            is_new(r.term(val.left, at=st[0][0])) and r.eq(r.term(val.right, at=st[0][0]), r.spec("self._rotation"))
        if isinstance(val, ast.Call) and isinstance(val.func, ast.Attribute) and val.func.attr == "__mul__":
            ok = is_new(r.term(val.func.value, at=st[0][0])) and r.eq(r.term(val.args[0], at=st[0][0]), r.spec("self._rotation"))
    chk.ob(ROT + ".rotate::composes-on-the-left", ok, "C18.D2",
           "self._rotation must become rotation * self._rotation (later rotations applied after earlier ones)", r.f,
           st[0][0] if st else None)
    # method table (decided over the finite set of method names the function mentions)
    from ..lib import values_reaching, _OTHER
    meth = r.ev._sym("param:method")
    five = {"from_quat", "from_matrix", "from_rotvec", "from_mrp", "from_euler"}
    okt = False
    for s_, nm_, t_ in simple_assigns(r):
        if r.eq(t_, r.spec("getattr(Rotation, method)(*args, **kwargs)")):
            okt = values_reaching(r, s_, meth) == five
    chk.ob(ROT + ".rotate::method-dispatch", okt, "C18.D2",
           "quaternion / matrix / rotation vector / MRP / Euler inputs (exactly these) must be handed to the scipy constructor of "
           "that name", r.f)
    unknown = set()
    for x_, n_ in r.raises():
        if n_ == "ValueError":
            unknown |= (values_reaching(r, x_, meth) or set())
    chk.ob(ROT + ".rotate::unknown-methods-refused-exactly", _OTHER in unknown and not (unknown & (five | {"align_vector"})), "C18.D2",
           f"ValueError is raised for the methods {sorted(unknown)}; expected: every name outside the supported set, and only those",
           r.f)
    al = find_assign(r, lambda t_, s_: (r.ctx.head_of(t_) or ("",))[0] == "sub" and
                     (decode_call(r.ctx, r.ctx.args_of(t_)[0]) or ("",))[0].endswith("align_vectors"))
    oka = False
    if al is not None:
        env_ = {"i": r.spec("kwargs['initial']"), "f": r.spec("kwargs['final']")}
        oka = r.eq(al[2], r.spec("Rotation.align_vectors([f, np.cross(i, f)], [i, np.cross(i, f)])[0]", env=env_)) and \
            values_reaching(r, al[0], meth) == {"align_vector"}
    chk.ob(ROT + ".rotate::align-vector", oka, "C18.D2",
           "method 'align_vector' must build the rotation (first element of scipy's result) that takes `initial` to `final` and "
           "keeps their common normal fixed", r.f, al[0] if al else None)
    nv = r.spec("self._orig_field.nvdim")
    for st in r.stmts():
        if isinstance(st, ast.Assign) and isinstance(st.targets[0], ast.Name):
            t_ = r.term(st.value, at=st)
            if r.eq(t_, r.spec("self._orig_field.array")):
                chk.ob(ROT + ".rotate::scalar-branch-condition", reached_iff(r, st, r.spec("self._orig_field.nvdim == 1"),
                                                                            [nv], pre=lambda x: x[0] in (1, 3), lo=1), "C18.D2",
                       f"scalar values are taken under {r.show(path_term(r, st))}", r.f, st)
            elif (r.ctx.head_of(t_) or ("",))[0] == "sub" and any(r.ctx.atoms[a_][0][:2] == ("call", ".apply") for a_ in r.ctx.all_atoms(t_)):
                chk.ob(ROT + ".rotate::vector-branch-condition", reached_iff(r, st, r.spec("self._orig_field.nvdim == 3"),
                                                                            [nv], pre=lambda x: x[0] in (1, 3), lo=1), "C18.D2",
                       f"vectors are rotated under {r.show(path_term(r, st))}; the constructor admits 1 and 3 components only", r.f, st)
    chk.ob(ROT + ".rotate::unknown-method-refused", any(n_ == "ValueError" for x, n_ in r.raises()), "C18.D2",
           "unknown methods must raise ValueError", r.f)
    bad = []
    for q in (".rotate", "._map_and_interpolate", "._create_interpolation_funcs", "._calculate_new_n", "._calculate_new_region"):
        w = FV(repo, ROT + q, param_types=PT)
        for nd in ast.walk(w.f.node):
            if isinstance(nd, ast.Attribute) and nd.attr == "_rotated_field" and isinstance(nd.ctx, ast.Load):
                bad.append(f"{q[1:]} line {nd.lineno}")
    chk.ob(ROT + ".rotate::reads-original-only", not bad, "C18.D2",
           f"the rotated field is read back at {bad}: successive rotations must start from the original field" if bad else
           "rotate and its helpers never read _rotated_field", r.f)


def d3_directions(chk, repo):
    chk.rule("C18.D3", "direction pairing: vectors are rotated with the accumulated rotation, target positions are mapped back with "
                       "its inverse; components are brought into x,y,z order by ordered_idx and restored by its argsort")
    r = FV(repo, ROT + ".rotate", param_types=PT)
    O = r.spec("self._orig_field")
    idx = r.spec("np.array([O.vdims.index(O._r_dim_mapping[dim]) for dim in O.mesh.region.dims])", env={"O": O})
    want = r.spec("self._rotation.apply(O.array.reshape((-1, O.nvdim))[..., I]).reshape((*O.mesh.n, O.nvdim))[..., I.argsort()]",
                  env={"O": O, "I": idx})
    got = None
    vec = find_assign(r, lambda t_, s_: any(r.ctx.atoms[a_][0][:2] == ("call", ".apply") for a_ in r.ctx.all_atoms(t_)) and
                      (r.ctx.head_of(t_) or ("",))[0] == "sub")
    if vec:
        got = (vec[0], vec[2])
    chk.ob(ROT + ".rotate::vectors-rotated-forward", got is not None and r.eq(got[1], want), "C18.D3",
           f"rot_field = {r.show(got[1])[:240] if got else None}; expected _rotation.apply on the components ordered by the axis "
           "mapping, restored with argsort", r.f, got[0] if got else None)
    sc = any(isinstance(st, ast.Assign) and isinstance(st.targets[0], ast.Name) and vec is not None and st.targets[0].id == vec[1] and
             r.eq(r.term(st.value, at=st), r.spec("O.array", env={"O": O})) and
             any(pol and r.eq(r.ev.term(c_, at=geom._if_stmt(r, c_)), r.spec("O.nvdim == 1", env={"O": O}))
                 for c_, pol in r.cfg.path_condition(st)) for st in r.stmts())
    chk.ob(ROT + ".rotate::scalars-unchanged", sc, "C18.D3", "scalar values are not rotated", r.f)
    m = FV(repo, ROT + "._map_and_interpolate", param_types=PT)
    got = None
    back = find_assign(m, lambda t_, s_: (decode_call(m.ctx, t_) or ("",))[0] == ".apply")
    if back:
        got = (back[0], back[2])
    pos = m.spec("df.Field(mesh=new_mesh, nvdim=3, value=lambda x: x).array.reshape((-1, 3)) - self._orig_field.mesh.region.center")
    ok = got is not None and m.eq(got[1], m.spec("self._rotation.inv().apply(P)", env={"P": pos}))
    chk.ob(ROT + "._map_and_interpolate::positions-rotated-back", ok, "C18.D3",
           f"new_pos_old_mesh = {m.show(got[1])[:200] if got else None}; expected _rotation.inv().apply(cell centres of the new mesh "
           "relative to the original centre)", m.f, got[0] if got else None)
    loops = [s for s in m.stmts() if isinstance(s, ast.For)]
    okc = False
    if len(loops) == 1 and got:
        it = m.term(loops[0].iter, at=loops[0])
        i = each(m, it)
        sts = [s for s in loops[0].body if isinstance(s, ast.Assign) and isinstance(s.targets[0], ast.Subscript)]
        if len(sts) == 1:
            ix = m.ev._index(sts[0].targets[0].slice, m.cfg.node(sts[0]), None)
            val = m.term(sts[0].value, at=sts[0])
            okc = m.eq(it, m.spec("range(self._orig_field.nvdim)")) and m.eq(ix, m.spec("(..., i)", env={"i": i})) and \
                m.eq(val, m.spec("self._create_interpolation_funcs(rot_field[..., i])(Q).reshape(new_mesh.n)", env={"i": i, "Q": got[1]}))
    al_ = find_assign(m, lambda t_, s_: (decode_call(m.ctx, t_) or ("",))[0] in ("np.ndarray", "np.empty", "np.zeros"))
    oka = False
    if al_ is not None:
        ca = decode_call(m.ctx, al_[2])
        shp = ca[2].get("shape") if "shape" in ca[2] else (ca[1][0] if ca[1] else None)
        oka = shp is not None and (m.eq(shp, m.spec("[*df.Field(mesh=new_mesh, nvdim=3, value=lambda x: x).mesh.n, self._orig_field.nvdim]"))
                                   or m.eq(shp, m.spec("[*new_mesh.n, self._orig_field.nvdim]")))
    chk.ob(ROT + "._map_and_interpolate::result-shape", oka, "C18.D3",
           "the result array must have shape (*new mesh n, nvdim)", m.f, al_[0] if al_ else None)
    chk.ob(ROT + "._map_and_interpolate::per-component", okc, "C18.D3",
           "component i of the result must interpolate component i of the rotated values at the back-rotated positions", m.f)


def d4_geometry(chk, repo):
    chk.rule("C18.D4", "the target region is the bounding box of the rotated region about the ORIGINAL centre (centre -/+ half "
                       "extents); the interpolator returns 0 outside (fill_value=0, bounds_error=False) and its grid is measured "
                       "from the same centre; labels and mapping of the original are kept")
    v = FV(repo, ROT + "._calculate_new_region", param_types=PT)
    for r_, a in cm.returned_news(v, cls=REGION):
        p1, p2 = a.get("p1"), a.get("p2")
        C = v.spec("self._orig_field.mesh.region.center")
        ok = False
        if p1 is not None and p2 is not None:
            h1 = r_sub(C, p1)
            h2 = r_sub(p2, C)
            want_h = v.spec("np.sum(abs(self._rotation.apply(np.eye(3) * self._orig_field.mesh.region.edges)), axis=0) / 2")
            ok = v.eq(h1, h2) and v.eq(h1, want_h)
        chk.ob(ROT + "._calculate_new_region::centred-bounding-box", ok, "C18.D4",
               f"p1={v.show(p1)[:120]}, p2={v.show(p2)[:120]}; expected centre -/+ sum(|R e_i|)/2", v.f, r_)
    w = FV(repo, ROT + "._create_interpolation_funcs", param_types=PT)
    r_, t = _single_return(w)
    c = decode_call(w.ctx, t)
    ok = bool(c and c[0].endswith("RegularGridInterpolator") and is_const(w.ctx, c[2].get("fill_value", w.ctx.const(1)), 0) and
              is_const(w.ctx, c[2].get("bounds_error", w.ctx.const(1)), False))
    chk.ob(ROT + "._create_interpolation_funcs::zero-outside", ok, "C18.D4",
           f"returns {w.show(t)[:140]}; expected RegularGridInterpolator(..., fill_value=0, bounds_error=False)", w.f, r_)
    okg = False
    ok3 = False
    O = w.spec("self._orig_field")
    want_grid = w.spec("[np.array([lo[i] - c[i] * 1e-09, *np.linspace(lo[i] + c[i] / 2, hi[i] - c[i] / 2, O.mesh.n[i]), "
                       "hi[i] + c[i] * 1e-09]) - O.mesh.region.center[i] for i in range(3)]",
                       env={"O": O, "lo": w.spec("O.mesh.region.pmin", env={"O": O}),
                            "hi": w.spec("O.mesh.region.pmax", env={"O": O}), "c": w.spec("O.mesh.cell", env={"O": O})})
    for st_, nm_, t_ in simple_assigns(w):
        h_ = w.ctx.head_of(t_)
        if h_ and h_[0] == "seqcomp":
            gens = w.ctx.args_of(t_)[1:]
            if len(gens) == 1 and w.eq(w.ctx.args_of(gens[0])[0], w.spec("range(3)")):
                ok3 = True
                okg = w.eq(t_, want_grid)
    chk.ob(ROT + "._create_interpolation_funcs::three-axes", ok3,
           "C18.D4", "one grid per spatial axis: range(3)", w.f)
    nn_ = FV(repo, ROT + "._calculate_new_n", param_types=PT)
    rr, tn = _single_return(nn_)
    E = nn_.spec("np.sum(abs(self._rotation.apply(np.eye(3) * self._orig_field.mesh.cell)), axis=0)")
    want_n = nn_.spec("np.round(np.divide(new_region.edges, E * (self._orig_field.mesh.dV / np.prod(E)) ** (1 / 3))).astype(int).tolist()",
                      env={"E": E})
    chk.ob(ROT + "._calculate_new_n::volume-preserving-resolution", nn_.eq(tn, want_n), "C18.D4",
           f"returns {nn_.show(tn)[:200]}; expected round(new edges / (rotated cell extents scaled so that the cell volume is kept))",
           nn_.f, rr)
    chk.ob(ROT + "._create_interpolation_funcs::grid-from-centre", okg, "C18.D4",
           "grid points per axis: cell centres (plus the two faces) of the original mesh measured from its centre, same axis i "
           "throughout", w.f)
    okp = False
    pd = find_assign(w, lambda t_, s_: (decode_call(w.ctx, t_) or ("",))[0] == "np.pad")
    if pd:
        okp = w.eq(pd[2], w.spec("np.pad(rot_field_component, pad_width=[(1, 1), (1, 1), (1, 1)], mode='edge')"))
        # and it is the padded array that is interpolated
        c_ = decode_call(w.ctx, t)
        okp = okp and bool(c_ and len(c_[1]) >= 2 and w.eq(c_[1][1], pd[2]))
    chk.ob(ROT + "._create_interpolation_funcs::edge-padding", okp, "C18.D4",
           "values are extended by one edge cell on every side to match the face grid points", w.f)
    r = FV(repo, ROT + ".rotate", param_types=PT)
    sites = r.ctor_sites(FIELD)
    ok = False
    if sites:
        a = sites[-1].args
        O = r.spec("self._orig_field")
        ok = all(r.eq(a.get(k), r.spec(f"O.{k}", env={"O": O})) for k in ("nvdim", "vdims", "vdim_mapping")) and a.get("mesh") is not None
        d = decode_new(repo, r.ctx, a.get("mesh")) if a.get("mesh") is not None else None
        ok = ok and bool(d and d[0] == MESH and r.eq(d[1].get("region"), r.spec("self._calculate_new_region()")))
        # resolution: the caller's n, or the one computed for the new region when none is given
        nn = d[1].get("n") if d else None
        mem = phi_members(r.ctx, nn) if nn is not None else []
        okn = len(mem) == 2 and any(is_sym(r.ctx, m_, "param:n") for m_ in mem) and \
            any(r.eq(m_, r.spec("self._calculate_new_n(self._calculate_new_region())")) for m_ in mem)
        chk.ob(ROT + ".rotate::resolution", okn, "C18.D4",
               f"n={r.show(nn) if nn is not None else None}; expected the requested n or _calculate_new_n(new region)", r.f, sites[-1].call)
        for st in r.stmts():
            if isinstance(st, ast.Assign) and (decode_call(r.ctx, r.term(st.value, at=st)) or ("",))[0].endswith("_calculate_new_n"):
                chk.ob(ROT + ".rotate::default-resolution-iff-none", reached_iff(r, st, r.spec("n is None")), "C18.D4",
                       f"the resolution is computed under {r.show(path_term(r, st))}; expected: no n was requested", r.f, st)
        val = a.get("value")
        cv = decode_call(r.ctx, val) if val is not None else None
        okv = bool(cv and cv[0].endswith("_map_and_interpolate") and len(cv[1]) == 3 and r.eq(cv[1][1], a.get("mesh")))
        chk.ob(ROT + ".rotate::values-interpolated-on-the-result-mesh", okv, "C18.D4",
               f"value={r.show(val)[:120] if val is not None else None}; expected _map_and_interpolate(<the result mesh>, <rotated values>)",
               r.f, sites[-1].call)
    chk.ob(ROT + ".rotate::result-field", ok, "C18.D4",
           "the rotated field lives on a mesh over _calculate_new_region() and keeps nvdim, labels and mapping of the original", r.f)
    st = [(s, val) for s, a_, val, k in r.self_stores() if a_ == "_rotated_field"]
    chk.ob(ROT + ".rotate::stores-result", len(st) == 1 and sites and r.eq(r.term(st[0][1], at=st[0][0]), sites[-1].term), "C18.D4",
           "the new field must be stored as _rotated_field", r.f)
    f = FV(repo, ROT + ".field")
    r_, t = _single_return(f)
    chk.ob(ROT + ".field::returns-rotated", f.eq(t, f.spec("self._rotated_field")), "C18.D4", "field must return _rotated_field", f.f, r_)
