"""Rule fragments shared between properties."""
import ast

from ..model import AnalysisError
from ..lib import (FV, Alias, alias_term, decode_new, decode_call, phi_members, is_sym, is_const, is_str,
                   tuple_consts)
from ..lib import (reached_iff, reached_implies, implies_reached, reached_iff_any, path_term, cond_equiv, cond_implies,  # noqa: F401
                   else_stmts, branch_stmts, context_literals)
from ..cfg import walk_stmts, walk_expr

FIELD = "field.Field"
MESH = "mesh.Mesh"
REGION = "region.Region"


def typed_param(fvw, name, cls):
    return fvw.ev._sym(f"param:{name}", cls)


def returned_news(fvw, cls=FIELD, via=None):
    """[(Return stmt, {param: Rat})] for every return whose value is a constructor call of cls
    (phi members are expanded)."""
    out = []
    for r in fvw.returns():
        if r.value is None:
            continue
        t = fvw.ev.term(r.value, at=r, via=via)
        for m in phi_members(fvw.ctx, t):
            d = decode_new(fvw.repo, fvw.ctx, m)
            if d and (cls is None or d[0] == cls):
                out.append((r, d[1]))
    return out


def field_branch_stmt(fvw, pname):
    """(if statement, first statement of the branch taken when `isinstance(<pname>, self.__class__)` holds) - the branch
    is the body of `if isinstance(...)` or what follows a guard `if not isinstance(...): <leave>`"""
    from ..lib import else_stmts
    for st in fvw.stmts():
        if isinstance(st, ast.If):
            t = st.test
            neg = False
            if isinstance(t, ast.UnaryOp) and isinstance(t.op, ast.Not):
                t = t.operand
                neg = True
            if isinstance(t, ast.Call) and isinstance(t.func, ast.Name) and t.func.id == "isinstance" \
                    and len(t.args) == 2 and isinstance(t.args[0], ast.Name) and t.args[0].id == pname:
                a1 = ast.unparse(t.args[1])
                if a1 in ("self.__class__", "Field", "df.Field", "type(self)"):
                    branch = else_stmts(fvw, st) if neg else st.body
                    if branch:
                        return st, branch[0]
    raise AnalysisError(f"{fvw.f.qual}: no `isinstance({pname}, self.__class__)` branch found")


def perm_compose(p, q):
    """(p then q) as numpy transposes: result axes; None when either is not a permutation of the same length"""
    if p is None or q is None or len(p) != len(q) or sorted(p) != list(range(len(p))) or sorted(q) != list(range(len(q))):
        return None
    return tuple(p[i] for i in q)


def is_identity(p):
    return p is not None and tuple(p) == tuple(range(len(p)))


# ---------------------------------------------------------------------------- _as_array summaries
def as_array_overloads(repo):
    ov = repo.dispatch_overloads(FIELD, "_as_array")
    if len(ov) < 5:
        raise AnalysisError(f"Field._as_array: expected >=5 overloads, found {sorted(ov)}")
    return ov


def as_array_alias_summary(repo):
    """{overload key: [(Return stmt, roots wrt param:val)]}"""
    out = {}
    al = Alias(repo)
    for key, fi in as_array_overloads(repo).items():
        v = FV(repo, fi.qual)
        rows = []
        for r in v.returns():
            if r.value is None:
                continue
            t = alias_term(v, r.value, at=r)
            try:
                roots = al.roots(v.ctx, t)
            except AnalysisError as e:
                raise AnalysisError(f"{fi.qual}: {e}")
            rows.append((v, r, roots, t))
        out[key] = rows
    return out


def as_array_may_alias_val(repo):
    """list of (fv, return stmt) where the result may share memory with the `val` argument"""
    hits = []
    for key, rows in as_array_alias_summary(repo).items():
        for v, r, roots, t in rows:
            if any(x == "param:val" or x.startswith("param:val.") for x in roots):
                hits.append((key, v, r, t))
    return hits


def make_alias(repo):
    """Alias analysis with the inter-procedural summary of Field._as_array plugged in."""
    hits = as_array_may_alias_val(repo)

    def as_array_summary(al, ctx, pos, kw):
        # pos[0] is the receiver, pos[1] the value
        if not hits:
            return set()
        val = pos[1] if len(pos) > 1 else kw.get("val")
        return al.roots(ctx, val) if val is not None else set()
    return Alias(repo, {"Field._as_array": as_array_summary}), hits


def valid_setter_stores_alias(repo):
    """Does `field.valid = X` (and hence Field(valid=X)) keep a reference into X's memory?
    -> (bool, explanation)"""
    v = FV(repo, "field.Field.valid.setter")
    al, hits = make_alias(repo)
    stores = [s for s in v.self_stores() if s[1] == "_valid"]
    if len(stores) != 1:
        raise AnalysisError("Field.valid setter: expected exactly one store to _valid")
    st, _, val, _ = stores[0]
    t = alias_term(v, val, at=st)
    roots = al.roots(v.ctx, t)
    aliasing = any(r.startswith("param:valid") for r in roots)
    why = ""
    if aliasing:
        key, hv, hr, ht = hits[0]
        why = (f"Field.valid setter stores `{v.src(val)}`; Field._as_array[{key}] returns "
               f"`{hv.src(hr.value)}` (line {hr.lineno}), a view of its argument")
    return aliasing, why


def array_setter_stores_alias(repo):
    v = FV(repo, "field.Field.array.setter")
    al, hits = make_alias(repo)
    stores = [s for s in v.self_stores() if s[1] == "_array"]
    if len(stores) != 1:
        raise AnalysisError("Field.array setter: expected exactly one store to _array")
    st, _, val, _ = stores[0]
    t = alias_term(v, val, at=st)
    roots = al.roots(v.ctx, t)
    return any(r.startswith("param:val") for r in roots)


def no_dtype_narrowing(chk, repo, pid, rule, quals, why):
    """results whose numbers are computed (not merely moved) must not be cast back to the operand's dtype:
    the constructor's dtype argument has to be absent or None at every returned Field construction"""
    for q in quals:
        v = FV(repo, q, param_types={"other": FIELD, "vector": FIELD})
        for r, a in returned_news(v):
            dt = a.get("dtype")
            ok = dt is None or is_const(v.ctx, dt, None)
            chk.ob(f"{q}::result-dtype-not-inherited", ok, rule,
                   f"the result is constructed with dtype={v.show(dt)}: {why}", v.f, r)


# ============================================================================ the verified schema (DESIGN section 2)
SCHEMA = {
    REGION: {"pmin": "_pmin", "pmax": "_pmax", "dims": "_dims", "units": "_units", "tolerance_factor": "_tolerance_factor"},
    MESH: {"region": "_region", "n": "_n", "bc": "_bc", "subregions": "_subregions"},
    FIELD: {"mesh": "_mesh", "nvdim": "_nvdim", "array": "_array", "valid": "_valid", "unit": "_unit", "vdims": "_vdims",
            "vdim_mapping": "_vdim_mapping"},
}


# state that a property's statement does not involve (its check does not vouch for those getters)
SCHEMA_SKIP = {
    "C01": {(FIELD, "valid"), (FIELD, "unit"), (FIELD, "vdims"), (FIELD, "vdim_mapping"), (MESH, "bc")},
    "C03": {(MESH, "bc"), (MESH, "subregions")},
    "C04": {(MESH, "subregions")},
    "C05": {(MESH, "subregions")},
    "C06": {(FIELD, "valid"), (FIELD, "vdim_mapping"), (MESH, "bc"), (MESH, "subregions")},
    "C09": {(FIELD, "valid"), (MESH, "bc")},
    "C11": {(FIELD, "valid"), (MESH, "bc"), (MESH, "subregions")},
    "C15": {(REGION, "*"), (MESH, "bc"), (MESH, "subregions"), (FIELD, "vdim_mapping"), ("helpers", "*")},
    "C17": {(FIELD, "valid"), (MESH, "bc"), (MESH, "subregions")},
    "C18": {(MESH, "bc"), (MESH, "subregions"), (FIELD, "unit")},
    "C19": {(FIELD, "unit"), (MESH, "subregions"), (MESH, "bc")},
    "C20": {(MESH, "bc"), (MESH, "subregions"), (FIELD, "unit")},
}


def schema(chk, repo, pid):
    """Every rule reads object state through the property getters and reasons about the slots behind them
    (`self.valid` IS `self._valid`, `region.pmin` IS `_pmin`, a dimension name IS its position in `dims`).  That reading
    of the code is confirmed here on every run: each getter returns exactly its slot, the derived getters are the documented
    expressions, and the two small helpers every axis / point computation goes through are what the rules take them to be."""
    chk.rule(f"{pid}.schema", "state is read through getters that return exactly their slot (pmin, pmax, dims, units, n, region, "
                              "subregions, array, valid, ...); ndim = number of corner coordinates, centre = (pmin + pmax)/2; "
                              "_dim2index(d) is the position of d in dims; array2tuple keeps the order of the coordinates")
    skip = SCHEMA_SKIP.get(pid, set())
    for cls, table in SCHEMA.items():
        for name, slot in table.items():
            if (cls, name) in skip or (cls, "*") in skip:
                continue
            g = repo.resolve_getter(cls, name)
            chk.require(g is not None, f"{cls}.{name}: getter vanished")
            v = FV(repo, g.qual)
            rets = [r for r in v.returns() if r.value is not None]
            ok = len(rets) == 1 and len(v.stmts()) == 1 and isinstance(rets[0].value, ast.Attribute) and \
                isinstance(rets[0].value.value, ast.Name) and rets[0].value.value.id == "self" and rets[0].value.attr == slot
            chk.ob(f"schema::{cls}.{name}", ok, f"{pid}.schema",
                   f"the getter returns `{v.src(rets[0].value) if rets else '?'}`; every rule takes {name} to be the slot {slot} itself",
                   v.f, rets[0] if rets else None)
    # derived getters
    for name, texts in (("ndim", ("len(self.pmin)", "len(self.pmax)", "len(self.dims)", "len(self._pmin)")),
                        ("center", ("0.5 * np.add(self.pmin, self.pmax)", "(self.pmin + self.pmax) / 2")),
                        ("centre", ("self.center",)),
                        ("edges", ("np.subtract(self.pmax, self.pmin)", "self.pmax - self.pmin"))):
        if (REGION, "*") in skip:
            continue
        g = repo.resolve_getter(REGION, name)
        chk.require(g is not None, f"Region.{name}: getter vanished")
        v = FV(repo, g.qual)
        v.ev.expand = False
        rets = [r for r in v.returns() if r.value is not None]
        ok = len(rets) == 1 and any(v.eq(v.ev.term(rets[0].value, at=rets[0]), v.spec(t_)) for t_ in texts)
        chk.ob(f"schema::{REGION}.{name}", ok, f"{pid}.schema",
               f"the getter returns `{v.src(rets[0].value) if rets else '?'}`; expected {texts[0]}", v.f, rets[0] if rets else None)
    # the value domain of the state: a numeric type test in a constructor or setter names the abstract numeric types, so that
    # the numpy scalars every reader hands back (h5py attributes, array elements) are what the documentation says they are
    n_tests = 0
    for cls, table in SCHEMA.items():
        if (cls, "*") in skip:
            continue
        for q in [f"{cls}.__init__"] + [f"{cls}.{name}.setter" for name in table if (cls, name) not in skip]:
            if q not in repo.funcs:
                continue
            v = FV(repo, q)
            bad = []
            for n in ast.walk(v.f.node):
                if isinstance(n, ast.Call) and isinstance(n.func, ast.Name) and n.func.id == "isinstance" and len(n.args) == 2:
                    members = n.args[1].elts if isinstance(n.args[1], ast.Tuple) else [n.args[1]]
                    texts = [ast.unparse(m) for m in members]
                    abstract = {t_ for t_ in texts if t_.startswith("numbers.") or t_ in ("np.number", "np.integer", "np.floating",
                                                                                         "np.generic", "np.complexfloating")}
                    concrete = {t_ for t_ in texts if t_ in ("int", "float", "complex")}
                    if abstract or concrete:
                        n_tests += 1
                    if concrete and not abstract:
                        bad.append(n)
            chk.ob(f"schema::{q}::numeric-type-tests", not bad, f"{pid}.schema",
                   "numeric type tests name the abstract numeric types (numbers.*)" if not bad else
                   f"`{v.src(bad[0])}` refuses numpy scalars (np.int64 / np.float64 are no instances of the builtin types): a "
                   "value that was accepted on construction is refused when a reader or a transformation hands it back",
                   v.f, bad[0] if bad else None)
    if (REGION, "*") not in skip:
        chk.require(n_tests >= 6, f"only {n_tests} numeric type tests found in the constructors and setters")
    if ("helpers", "*") in skip:
        return
    # dimension name -> axis number
    v = FV(repo, f"{REGION}._dim2index")
    rets = [r for r in v.returns() if r.value is not None]
    ok = len(rets) == 1 and any(v.eq(v.ev.term(rets[0].value, at=rets[0]), v.spec(t_)) for t_ in
                                ("self.dims.index(dim)", "self._dims.index(dim)", "list(self.dims).index(dim)"))
    chk.ob(f"schema::{REGION}._dim2index", ok, f"{pid}.schema",
           f"returns `{v.src(rets[0].value) if rets else '?'}`; the axis number of a dimension is its position in dims", v.f,
           rets[0] if rets else None)
    # points as tuples keep their coordinate order
    v = FV(repo, "util.util.array2tuple")
    v.ev.exact = True           # (conversions are kept apart in this view: .item(), .tolist(), tuple())
    v.ev.alias_mode = True
    rets = [r for r in v.returns() if r.value is not None]
    ok = False
    if len(rets) == 1:
        from ..lib import cond_equiv
        t_ret = v.ev.term(rets[0].value, at=rets[0])
        h_ = v.ctx.head_of(t_ret)
        alts = list(zip(v.ctx.args_of(t_ret)[0::2], v.ctx.args_of(t_ret)[1::2])) if h_ == ("gphi",) else [(None, t_ret)]
        item, seq = v.spec("array.item()"), [v.spec("tuple(array.tolist())"), v.spec("tuple(array)")]
        single = v.spec("array.size == 1")
        ok = any(any(v.eq(m, w) for w in seq) for g, m in alts)
        for g, m in alts:
            if v.eq(m, item):
                # the bare number is returned for exactly one coordinate
                ok = ok and g is not None and cond_equiv(v, g, single)
            elif not any(v.eq(m, w) for w in seq):
                ok = False
    chk.ob("schema::util.util.array2tuple", ok, f"{pid}.schema",
           f"returns `{v.src(rets[0].value) if rets else '?'}`; expected the coordinates in order (a plain number for one coordinate)",
           v.f, rets[0] if rets else None)
