"""C01 - mesh cells tile the region; index <-> coordinate maps are mutually inverse."""
import ast
from fractions import Fraction

from ..model import AnalysisError
from ..lib import FV, decode_new, decode_call, phi_members, is_sym, is_const, is_str, strip_stores, stores_of
from ..lib import (reached_iff, reached_implies, implies_reached, reached_iff_any, path_term, cond_equiv, cond_implies,  # noqa: F401
                   else_stmts, branch_stmts, context_literals)
from ..terms import r_add, Rat, p_const
from . import common as cm
from . import geom
from .common import FIELD, MESH, REGION

FLOOR = 30
ANCHORS = [
    'mesh.Mesh.__init__',
    'mesh.Mesh.cell',
    'mesh.Mesh.indices',
    'mesh.Mesh.__iter__',
    'mesh.Mesh.cells',
    'mesh.Mesh.vertices',
    'mesh.Mesh.__len__',
    'mesh.Mesh.index2point',
    'mesh.Mesh.point2index',
    'mesh.Mesh.coordinate_field',
    'region.Region.__contains__',
    'region.Region.edges',
    'region.Region.center',
    'region.Region.ndim',
]   # functions whose code the property is anchored in (mutation analysis, evidence)


def _single_return(v):
    rets = [r for r in v.returns() if r.value is not None]
    if len(rets) != 1:
        raise AnalysisError(f"{v.f.qual}: expected exactly one return with a value, found {len(rets)}")
    return rets[0], v.ev.term(rets[0].value, at=rets[0])


def each(v, t):
    return v.ctx.mk(("iter", ()), (t,))

AUTOMUT_TRIAGE = [
    (r"Region\.ndim$", r"attribute pmin->pmax", "equivalent: both corners have the same length"),
]


def run(chk):
    repo = chk.repo
    cm.schema(chk, repo, "C01")
    chk.rule("C01.D1", "cell == edges/n, edges == pmax-pmin, len == prod(n) (term normal form of the getters)")
    v = FV(repo, "mesh.Mesh.cell")
    r, t = _single_return(v)
    chk.ob("mesh.Mesh.cell::definition", v.eq(t, v.spec("(self.region.pmax - self.region.pmin) / self.n")), "C01.D1",
           f"cell = {v.show(t)}; expected (pmax - pmin)/n", v.f, r)
    v = FV(repo, "region.Region.edges")
    r, t = _single_return(v)
    chk.ob("region.Region.edges::definition", v.eq(t, v.spec("self.pmax - self.pmin")), "C01.D1",
           f"edges = {v.show(t)}; expected pmax - pmin", v.f, r)
    v = FV(repo, "mesh.Mesh.__len__")
    r, t = _single_return(v)
    chk.ob("mesh.Mesh.__len__::definition", v.eq(t, v.spec("int(np.prod(self.n))")), "C01.D1",
           f"len = {v.show(t)}; expected prod(n)", v.f, r)
    v = FV(repo, "region.Region.center")
    r, t = _single_return(v)
    chk.ob("region.Region.center::definition", v.eq(t, v.spec("(self.pmin + self.pmax) / 2")), "C01.D1",
           f"center = {v.show(t)}; expected (pmin+pmax)/2", v.f, r)
    v = FV(repo, "region.Region.ndim")
    r, t = _single_return(v)
    chk.ob("region.Region.ndim::definition", v.eq(t, v.spec("len(self.pmin)")) or v.eq(t, v.spec("len(self.pmax)")),
           "C01.D1", f"ndim = {v.show(t)}", v.f, r)

    d2_index2point(chk, repo)
    d3_point2index(chk, repo)
    d4_cells_vertices(chk, repo)
    d5_iteration(chk, repo)
    d6_coordinate_field(chk, repo)
    d7_contains(chk, repo)
    chk.rule("C01.D8", "a mesh requested by n needs positive integers of the region's dimension; by cell size needs positive "
                       "cells that fit and divide the edges: each refusal dominates the store of the cell counts")
    geom._mesh_store_values(chk, "C01")
    d9_roundtrip(chk, repo)
    d10_argument_dispatch(chk, repo)
    d11_region_constructions(chk, repo)
    chk.trust("np.floor / np.clip / np.linspace / itertools.product semantics as documented (product: last factor fastest)")
    chk.assume("every floating-point aspect is undecided: which way floor rounds on a cell face, the 0.1% divisibility and "
               "tolerance_factor accept/reject boundaries, exact tiling in floats")


def d2_index2point(chk, repo):
    chk.rule("C01.D2", "index2point returns pmin + (index + 1/2)*cell, after refusing wrong types, wrong length and "
                       "indices outside [0, n)")
    v = FV(repo, "mesh.Mesh.index2point")
    r, t = _single_return(v)
    want = v.spec("self.region.pmin + (index + 1/2) * self.cell", at=r)
    chk.ob("mesh.Mesh.index2point::formula", v.eq(t, want), "C01.D2",
           f"returns {v.show(t)[:200]}; expected pmin + (index + 1/2)*cell = {v.show(want)[:200]}", v.f, r)
    ok, det = v.guard("np.logical_or(np.less(index, 0), np.greater_equal(index, self.n)).any()", exc=("IndexError",), before=r)
    chk.ob("mesh.Mesh.index2point::range-guard", ok, "C01.D2", det, v.f)
    ok, det = v.guard("len(index) != self.region.ndim", exc=("IndexError", "ValueError"), before=r)
    chk.ob("mesh.Mesh.index2point::length-guard", ok, "C01.D2", det, v.f)
    tes = [x for x, n in v.raises() if n == "TypeError"]
    chk.ob("mesh.Mesh.index2point::type-guards", len(tes) >= 2 and all(v.cfg.reachable(v.cfg.entry, v.cfg.node(x)) for x in tes),
           "C01.D2", "non-integer indices and unsupported index types must raise TypeError", v.f)


def d3_point2index(chk, repo):
    chk.rule("C01.D3", "point2index returns clip(floor((point - pmin)/cell), 0, n-1) after refusing points outside the region")
    v = FV(repo, "mesh.Mesh.point2index")
    r, t = _single_return(v)
    want = v.spec("np.clip(np.floor((point - self.region.pmin) / self.cell).astype(int), 0, self.n - 1)", at=r)
    chk.ob("mesh.Mesh.point2index::formula", v.eq(t, want), "C01.D3",
           f"returns {v.show(t)[:220]}; expected clip(floor((point-pmin)/cell), 0, n-1)", v.f, r)
    ok, det = v.guard("point not in self.region", exc=("ValueError",), before=r)
    chk.ob("mesh.Mesh.point2index::outside-guard", ok, "C01.D3", det, v.f)
    ok, det = v.guard("len(point) != self.region.ndim", exc=("ValueError",), before=r)
    chk.ob("mesh.Mesh.point2index::length-guard", ok, "C01.D3", det, v.f)


def d4_cells_vertices(chk, repo):
    chk.rule("C01.D4", "cells[i] = linspace(pmin_i + cell_i/2, pmax_i - cell_i/2, n_i); vertices[i] = linspace(pmin_i, pmax_i, "
                       "n_i + 1), named after the region's dims")
    for name, spec_txt, nargs in (("cells", "np.linspace(a + c / 2, b - c / 2, k)", 4),
                                  ("vertices", "np.linspace(a, b, k + 1)", 3)):
        v = FV(repo, f"mesh.Mesh.{name}")
        r, t = _single_return(v)
        env = {"a": each(v, v.spec("self.region.pmin")), "b": each(v, v.spec("self.region.pmax")),
               "c": each(v, v.spec("self.cell")), "k": each(v, v.spec("self.n"))}
        want_elt = v.spec(spec_txt, env=env)
        ok = False
        fields_ok = False
        c = decode_call(v.ctx, t)
        if c and c[0] == "dyn":
            ctor = decode_call(v.ctx, c[1][0])
            fields_ok = bool(ctor and ctor[0] == "collections.namedtuple" and len(ctor[1]) == 2
                             and v.eq(ctor[1][1], v.spec("self.region.dims")))
            if len(c[1]) == 2:
                h = v.ctx.head_of(c[1][1])
                if h and h[0] == "star":
                    comp = v.ctx.args_of(c[1][1])[0]
                    hc = v.ctx.head_of(comp)
                    if hc and hc[0] == "seqcomp" and hc[1] == 1:
                        elt = v.ctx.args_of(comp)[0]
                        gen = v.ctx.args_of(comp)[1]
                        ok = v.eq(elt, want_elt) and (v.ctx.head_of(gen) == ("gen", 0))
        chk.ob(f"mesh.Mesh.{name}::per-axis-linspace", ok, "C01.D4",
               f"{name} = {v.show(t)[:260]}; expected one {spec_txt} per axis with a,b,c,k = pmin,pmax,cell,n of that axis",
               v.f, r)
        chk.ob(f"mesh.Mesh.{name}::fields-are-dims", fields_ok, "C01.D4",
               f"the {name} tuple must be named after self.region.dims", v.f, r)


def d5_iteration(chk, repo):
    chk.rule("C01.D5", "iteration order: indices = reversed tuples of itertools.product over map(range, reversed(n)) (product's "
                       "last factor varies fastest, so the first dimension is fastest); __iter__ maps index2point over indices")
    v = FV(repo, "mesh.Mesh.indices")
    ys = [s for s in v.stmts() if isinstance(s, ast.Expr) and isinstance(s.value, (ast.Yield, ast.YieldFrom))]
    ok = False
    det = "no yield"
    if len(ys) == 1:
        t = v.term(ys[0].value, at=ys[0])
        want = v.ctx.mk(("yield",), (v.spec("reversed(e)", env={"e": each(v, v.spec("itertools.product(*map(range, reversed(self.n)))"))}),))
        ok = v.eq(t, want)
        alt = v.ctx.mk(("yield",), (v.spec("e[::-1]", env={"e": each(v, v.spec("itertools.product(*map(range, reversed(self.n)))"))}),))
        ok = ok or v.eq(t, alt)
        det = v.show(t)[:200]
    chk.ob("mesh.Mesh.indices::first-dimension-fastest", ok, "C01.D5",
           f"indices yields {det}; expected tuple(reversed(i)) for i in product(*map(range, reversed(n)))", v.f, ys[0] if ys else None)
    v = FV(repo, "mesh.Mesh.__iter__")
    ys = [s for s in v.stmts() if isinstance(s, ast.Expr) and isinstance(s.value, (ast.Yield, ast.YieldFrom))]
    ok = False
    if len(ys) == 1:
        t = v.term(ys[0].value, at=ys[0])
        want = v.ctx.mk(("yieldfrom",), (v.spec("map(self.index2point, self.indices)"),))
        ok = v.eq(t, want)
    chk.ob("mesh.Mesh.__iter__::centres-in-index-order", ok, "C01.D5",
           "__iter__ must yield index2point(i) for i in self.indices, in that order", v.f, ys[0] if ys else None)


def d6_coordinate_field(chk, repo):
    chk.rule("C01.D6", "coordinate_field: component i holds cells.<dims[i]> reshaped to vary along axis i only; labels are the "
                       "dims, mapped onto themselves")
    v = FV(repo, "mesh.Mesh.coordinate_field")
    sites = v.ctor_sites(FIELD)
    chk.require(sites, "coordinate_field: no Field construction")
    s = sites[0]
    from ..lib import mapping_entries
    vm = s.args.get("vdim_mapping")
    dims_el = each(v, v.spec("self.region.dims"))
    ok_map = vm is not None and (v.eq(vm, v.spec("dict(zip(self.region.dims, self.region.dims))")) or (
        bool(mapping_entries(v.ctx, vm)) and all(v.eq(k_, dims_el) and v.eq(v_, dims_el) and not c_
                                                 for k_, v_, c_ in mapping_entries(v.ctx, vm))))
    ok = v.eq(s.args.get("mesh"), v.spec("self")) and s.args.get("nvdim") is not None and \
        v.eq(s.args["nvdim"], v.spec("self.region.ndim")) and s.args.get("vdims") is not None and \
        v.eq(s.args["vdims"], v.spec("self.region.dims")) and ok_map
    chk.ob("mesh.Mesh.coordinate_field::construction", ok, "C01.D6",
           f"`{v.src(s.call)}`: expected Field(self, nvdim=ndim, vdims=dims, vdim_mapping=dict(zip(dims, dims)))", v.f, s.call)
    # the store into component i (stores into local helper lists - a shape built entry by entry - are not component stores)
    stores = []
    for st in v.stmts():
        if isinstance(st, ast.Assign) and isinstance(st.targets[0], ast.Subscript):
            fa = v.ctx.head_of(v.term(st.targets[0].value, at=st))
            if fa is not None and fa[0] in ("attr", "prop") and fa[1] in ("array", "_array"):
                stores.append(st)
    ok = False
    det = "no component store"
    if len(stores) == 1:
        st = stores[0]
        tgt = st.targets[0]
        idx = v.ev._index(tgt.slice, v.cfg.node(st), None)
        val = v.term(st.value, at=st)
        det = f"[{v.show(idx)}] = {v.show(val)[:220]}"
        # the loop runs over the dims (cells looked up by name) or over the cells themselves (same order): either way
        # component i, the centres of axis i and the one non-unit entry i of the shape belong together
        for base, elem in (("self.region.dims", "getattr(self.cells, d)"), ("self.cells", "d")):
            i = v.ctx.mk(("index",), (v.spec(base),))
            d = each(v, v.spec(base))
            env = {"i": i, "d": d}
            c = decode_call(v.ctx, val)
            if not (v.eq(idx, v.spec("(..., i)", env=env)) and c and c[0] == ".reshape" and len(c[1]) == 2 and
                    v.eq(c[1][0], v.spec(elem, env=env))):
                continue
            shape = c[1][1]
            want_gen = v.spec("tuple(self.n[i] if i == j else 1 for j in range(self.region.ndim))", env=env)
            want_ones = v.ctx.mk(("store",), (v.spec("[1] * self.region.ndim"), i, v.spec("self.n[i]", env=env)))
            if v.eq(shape, want_gen) or v.eq(shape, want_ones):
                ok = True
    chk.ob("mesh.Mesh.coordinate_field::component-axis-pairing", ok, "C01.D6",
           f"component store {det}; the enumerate pair (i, dim) must be used consistently as component index, cells attribute "
           "and the one non-unit entry of the reshape", v.f, stores[0] if stores else None)


def d7_contains(chk, repo):
    chk.rule("C01.D7", "Region.__contains__: all axes satisfy (pmin <= x or isclose(pmin, x)) and (pmax >= x or isclose(pmax, x)) "
                       "with atol = min(edges)*tolerance_factor, rtol = tolerance_factor")
    v = FV(repo, "region.Region.__contains__")
    rets = [r for r in v.returns() if r.value is not None]
    want = v.spec("np.all(np.logical_and(np.less_equal(self.pmin, other) | np.isclose(self.pmin, other, "
                  "rtol=self.tolerance_factor, atol=np.min(self.edges) * self.tolerance_factor), "
                  "np.greater_equal(self.pmax, other) | np.isclose(self.pmax, other, rtol=self.tolerance_factor, "
                  "atol=np.min(self.edges) * self.tolerance_factor)))")
    want_strict = v.spec("np.all(np.logical_and(np.less(self.pmin, other) | np.isclose(self.pmin, other, "
                         "rtol=self.tolerance_factor, atol=np.min(self.edges) * self.tolerance_factor), "
                         "np.greater(self.pmax, other) | np.isclose(self.pmax, other, rtol=self.tolerance_factor, "
                         "atol=np.min(self.edges) * self.tolerance_factor)))")
    ts = [v.ev.term(r.value, at=r) for r in rets]
    ok = any(v.eq(t, want) or v.eq(t, want_strict) for t in ts)
    chk.ob("region.Region.__contains__::point-test", ok, "C01.D7",
           f"point containment is {[v.show(t)[:260] for t in ts][:1]}", v.f, rets[0] if rets else None)
    want_r = v.spec("other.pmin in self and other.pmax in self")
    ok = any(v.eq(t, want_r) for t in ts)
    chk.ob("region.Region.__contains__::region-test", ok, "C01.D7",
           "a region is contained iff both of its corners are", v.f)


def d9_roundtrip(chk, repo):
    chk.rule("C01.D9", "round trip in exact arithmetic: substituting index2point's result for the point in point2index's floor "
                       "argument gives index + 1/2, whose floor is the index (inside the clip range by the range guard)")
    v = FV(repo, "mesh.Mesh.index2point")
    r, centre = _single_return(v)
    idx_atoms = [m for m in phi_members(v.ctx, v.ev.term(ast.Name(id="index", ctx=ast.Load()), at=r))]
    w = FV(repo, "mesh.Mesh.point2index", ctx=v.ctx)
    r2, t2 = _single_return(w)
    floors = w.ctx.find_atoms(t2, lambda h, a: h[0] == "call" and h[1] == "np.floor")
    if len(floors) != 1:
        chk.ob("mesh.Mesh::index-point-index", False, "C01.D9",
               f"point2index no longer floors the relative position exactly once ({len(floors)} np.floor calls): "
               f"{w.show(t2)[:160]}", w.f, r2)
        return
    arg = w.ctx.atoms[floors[0]][1][0]
    pt = w.ev.term(ast.Name(id="point", ctx=ast.Load()), at=r2)
    ptid = pt.single_atom()
    chk.require(ptid is not None, "point2index: point term not atomic")
    sub = w.ctx.subst(arg, {ptid: centre})
    idx = v.ev.term(ast.Name(id="index", ctx=ast.Load()), at=r)
    want = r_add(idx, Rat(p_const(Fraction(1, 2))))
    chk.ob("mesh.Mesh::index-point-index", v.ctx.eq(sub, want), "C01.D9",
           f"floor argument after substitution: {v.show(sub)[:200]}; expected index + 1/2", w.f, r2)


def _branch_conditions(v, stmt):
    """terms of the if/elif chain starting at `stmt` -> [(test term, if-statement)], plus the final else block"""
    out = []
    cur = stmt
    while True:
        out.append((v.ev.term(cur.test, at=cur), cur))
        if cur.orelse and len(cur.orelse) == 1 and isinstance(cur.orelse[0], ast.If):
            cur = cur.orelse[0]
            continue
        return out, cur.orelse


def d10_argument_dispatch(chk, repo):
    from ..cfg import always_raises
    chk.rule("C01.D10", "argument dispatch and type refusals: a mesh takes a region XOR two corners and n XOR cell (anything else "
                        "raises); index2point / point2index accept a scalar or a sequence of integers / reals and raise TypeError "
                        "otherwise; containment of anything that is neither a point nor a region is False")
    from ..lib import reached_iff, reached_iff_any, path_term
    v = FV(repo, "mesh.Mesh.__init__")
    want = [("_region", ["region is not None and p1 is None and p2 is None", "region is None and p1 is not None and p2 is not None"]),
            ("_n", ["cell is not None and n is None", "n is not None and cell is None"])]
    for k, (slot, specs) in enumerate(want):
        stores = [st for st, attr, val, kind in v.self_stores() if attr == slot]
        chk.require(len(stores) >= 2, f"Mesh.__init__: argument dispatch for {slot} vanished")
        # each alternative is taken exactly under its condition (whatever the nesting), anything else raises ValueError
        used = set()
        ok = len(stores) == 2
        for sp in specs:
            hit = [st for st in stores if id(st) not in used and reached_iff(v, st, v.spec(sp))]
            ok = ok and len(hit) == 1
            used |= {id(h) for h in hit}
        neither = v.ev._bool("and", [v.ev._not(v.spec(sp)) for sp in specs])
        refused = reached_iff_any(v, [r for r, nm in v.raises() if nm == "ValueError"], neither)
        ok = ok and bool(refused)
        chk.ob(f"mesh.Mesh.__init__::dispatch#{k}", ok, "C01.D10",
               f"self.{slot} is set under {[v.show(path_term(v, st))[:90] for st in stores]}; expected `{specs[0]}` / `{specs[1]}` / "
               f"otherwise raise ValueError", v.f, stores[0])
    for cond, exc, key in (("not isinstance(cell, (tuple, list, np.ndarray))", "TypeError", "cell-type"),
                           ("len(cell) != self.region.ndim", "ValueError", "cell-length"),
                           ("not all((isinstance(i, Number) for i in cell))", "TypeError", "cell-numbers"),
                           ("not isinstance(n, (tuple, list, np.ndarray))", "TypeError", "n-type")):
        ok = geom._guard_in_function(v, cond)
        chk.ob(f"mesh.Mesh.__init__::refuses::{key}", ok, "C01.D10", f"`{cond}` must raise {exc}", v.f)
    # index2point / point2index: a scalar is wrapped, sequences must hold only integers / reals, anything else is refused
    # (decided as reached-iff predicates: independent of how the alternatives are nested or ordered)
    geom.refusal_table(chk, "C01", quals=["mesh.Mesh.index2point", "mesh.Mesh.point2index"])
    geom.defaults_table(chk, "C01", quals=["mesh.Mesh.index2point", "mesh.Mesh.point2index"])
    c = FV(repo, "region.Region.__contains__")
    rets = [r for r in c.returns() if r.value is not None]
    last = rets[-1]
    chk.ob("region.Region.__contains__::other-types-false", is_const(c.ctx, c.ev.term(last.value, at=last), False) and
           c.cfg.parent.get(id(last), (None,))[0] is None, "C01.D10",
           "objects that are neither points nor regions are not contained", c.f, last)
    conds = [s for s in c.body if isinstance(s, ast.If)]
    okc = len(conds) == 2 and c.eq(c.ev.term(conds[0].test, at=conds[0]),
                                   c.spec("isinstance(other, (numbers.Real, collections.abc.Iterable))")) and \
        c.eq(c.ev.term(conds[1].test, at=conds[1]), c.spec("isinstance(other, self.__class__)"))
    chk.ob("region.Region.__contains__::dispatch", okc, "C01.D10",
           "points (numbers / iterables) use the coordinate test, regions the two-corner test", c.f)


def d11_region_constructions(chk, repo):
    """every Region the mesh/region code builds is given both corners (p1 and p2, or pmin and pmax)"""
    chk.rule("C01.D11", "no Region construction in mesh.py/region.py can fail by construction: both corners are supplied "
                        "(p1 and p2, or pmin and pmax); Mesh.__init__ forwards its own p1/p2")
    n = 0
    for fi in sorted(repo.funcs.values(), key=lambda f: f.qual):
        if fi.module.name not in ("mesh", "region") or fi.parent is not None:
            continue
        v = FV(repo, fi.qual)
        for i, s in enumerate(v.ctor_sites(REGION)):
            n += 1
            have = set(s.args)
            ok = s.has_starstar or {"p1", "p2"} <= have or {"pmin", "pmax"} <= have
            chk.ob(f"{fi.qual}::region-ctor#{i}::both-corners", ok, "C01.D11",
                   f"`{v.src(s.call)}` supplies {sorted(have & {'p1', 'p2', 'pmin', 'pmax'})}", v.f, s.call, nontrivial=False)
            stored = isinstance(s.stmt, ast.Assign) and any(
                isinstance(t_, ast.Attribute) and isinstance(t_.value, ast.Name) and t_.value.id == "self"
                and t_.attr in ("_region", "region") for t_ in s.stmt.targets)
            if fi.qual == "mesh.Mesh.__init__" and ok and not s.has_starstar and stored:
                fw = {v.show(s.args.get("p1")), v.show(s.args.get("p2"))} == {"param:p1", "param:p2"}
                chk.ob("mesh.Mesh.__init__::region-from-own-corners", fw, "C01.D11",
                       f"`{v.src(s.call)}`: the mesh's region must span the two corner points it was given", v.f, s.call)
    chk.require(n >= 8, f"C01.D11: only {n} Region constructions found in mesh.py/region.py (floor 8)")
