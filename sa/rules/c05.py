"""C05 - grad, div, curl and Laplacian are the textbook combinations of the derivatives."""
import ast

from ..model import AnalysisError
from ..lib import (FV, decode_new, decode_call, phi_members, is_sym, is_const, is_str, strip_stores, stores_of, cond_equiv,
                   path_term)
from ..lib import (reached_iff, reached_implies, implies_reached, reached_iff_any, path_term, cond_equiv, cond_implies,  # noqa: F401
                   else_stmts, branch_stmts, context_literals)
from ..cfg import always_raises, walk_stmts
from ..terms import r_neg
from . import common as cm
from . import geom
from .common import FIELD
from .c01 import each, _single_return

FLOOR = 17
CLOSURE_ROOTS = ['field.Field.diff', 'field.Field.pad', 'operators._split_diff_combine', 'operators._1d_diff', 'field.Field.rotate90']   # the four operators are sums / stacks of Field.diff: the derivative pipeline is theirs; the statement speaks about quarter-turn rotations of the field (sa/shared.py)
ANCHORS = [
    'field.Field.grad',
    'field.Field.div',
    'field.Field.curl',
    'field.Field.laplace',
    'field.Field._r_dim_mapping',
    'field.Field.vdims.setter',
    'field.Field.vdim_mapping.setter',
]   # functions whose code the property is anchored in (mutation analysis, evidence)

AUTOMUT_TRIAGE = [
    (r"vdims\.setter$", r"self\.nvdim > 3.*Gt->GtE", "equivalent: three components are handled by the preceding 2 <= nvdim <= 3 branch"),
    (r"vdims\.setter$", r"hasattr|self\._vdims is None|not in self\._vdims",
     "the clash test between labels and existing attribute names (hasattr) is not part of the statement"),
]


def loop_guard(v, cond_text, exc, loop_iter_text, before, env_name=None):
    """`for x in <loop_iter>: if <cond(x)>: raise` where the loop dominates `before`"""
    want_it = v.spec(loop_iter_text)
    for st in v.stmts():
        if not isinstance(st, ast.For):
            continue
        it = v.term(st.iter, at=st)
        if not v.eq(it, want_it):
            continue
        if not v.cfg.dominates(v.cfg.node(st), v.cfg.node(before)):
            continue
        elem = each(v, it)
        for s2 in walk_stmts(st.body):
            if isinstance(s2, ast.If) and always_raises(s2.body):
                names = [n for r_, n in v.raises() if r_ in list(walk_stmts(s2.body))]
                if exc and not all(n in exc for n in names):
                    continue
                # every earlier alternative of an elif chain must raise too (so this test is reached whenever needed)
                ct = v.ev.term(s2.test, at=s2)
                want = v.spec(cond_text, env={env_name: elem} if env_name else None, at=s2)
                if v.eq(ct, want):
                    return True, f"refused inside the loop over {loop_iter_text} (line {s2.lineno})"
    return False, f"no `raise {'/'.join(exc)}` under `{cond_text}` for every element of {loop_iter_text} before the computation"


def stack_accumulation(chk, v, key, rule):
    """result = L[0]; for d in L[1:]: result = result << d; return result"""
    rets = [r for r in v.returns() if r.value is not None]
    r = rets[-1]
    ok = False
    det = ""
    if isinstance(r.value, ast.Name):
        name = r.value.id
        loops = [s for s in v.stmts() if isinstance(s, ast.For)]
        if loops:
            lp = loops[-1]
            it = v.term(lp.iter, at=lp)
            h = v.ctx.head_of(it)
            if h and h[0] == "sub":
                L, sl = v.ctx.args_of(it)
                first = v.ev.term(ast.Name(id=name, ctx=ast.Load()), at=lp)
                init = [m for m in phi_members(v.ctx, first) if (v.ctx.head_of(m) or ("",))[0] != "carried"]
                want_init = v.ctx.mk(("sub",), (L, v.ctx.const(0)))
                want_sl = v.ctx.mk(("slice",), (v.ctx.const(1), v.ctx.mk(("const", None)), v.ctx.mk(("const", None))))
                body = [s for s in lp.body if isinstance(s, ast.Assign) and isinstance(s.targets[0], ast.Name)
                        and s.targets[0].id == name]
                if len(body) == 1 and len(lp.body) == 1:
                    bt = v.term(body[0].value, at=body[0])
                    hb = v.ctx.head_of(bt)
                    if hb == ("binop", "LShift"):
                        a, b = v.ctx.args_of(bt)
                        acc_ok = any((v.ctx.head_of(m) or ("",))[0] == "carried" for m in phi_members(v.ctx, a)) and \
                            any(v.eq(m, want_init) for m in phi_members(v.ctx, a))
                        ok = len(init) == 1 and v.eq(init[0], want_init) and v.eq(sl, want_sl) and acc_ok and v.eq(b, each(v, it))
                det = f"init={[v.show(m)[:60] for m in init]}, loop over {v.show(it)[:80]}"
    chk.ob(key, ok, rule, f"components must be stacked in order: result = L[0]; for d in L[1:]: result = result << d; {det}", v.f, r)


def run(chk):
    repo = chk.repo
    cm.schema(chk, repo, "C05")
    chk.rule("C05.D1", "div sums getattr(self, v).diff(vdim_mapping[v]) over the labels (component and axis paired through the "
                       "mapping); laplace sums order=2 derivatives over all dims per component; grad stacks diff(dim) in dims order")
    v = FV(repo, "field.Field.div")
    r, t = _single_return(v)
    want = v.spec("sum(getattr(self, v).diff(self.vdim_mapping[v]) for v in self.vdims)")
    chk.ob("field.Field.div::pairing", v.eq(t, want), "C05.D1",
           f"returns {v.show(t)[:240]}; expected the sum over labels v of component v differentiated along vdim_mapping[v]", v.f, r)
    v = FV(repo, "field.Field.grad")
    derivs = None
    for st in v.stmts():
        if isinstance(st, ast.Assign) and isinstance(st.value, ast.ListComp):
            derivs = (st, v.term(st.value, at=st))
    ok = derivs is not None and v.eq(derivs[1], v.spec("[self.diff(dim) for dim in self.mesh.region.dims]"))
    chk.ob("field.Field.grad::derivatives", ok, "C05.D1",
           f"derivatives = {v.show(derivs[1])[:160] if derivs else '?'}; expected [self.diff(dim) for dim in dims]", v.f,
           derivs[0] if derivs else None)
    stack_accumulation(chk, v, "field.Field.grad::stacking", "C05.D1")
    v = FV(repo, "field.Field.laplace")
    lists = [(st, v.term(st.value, at=st)) for st in v.stmts() if isinstance(st, ast.Assign) and
             isinstance(st.value, (ast.ListComp, ast.List))]
    want_s = v.spec("[sum(self.diff(dim, order=2) for dim in self.mesh.region.dims)]")
    want_v = v.spec("[sum(getattr(self, vdim).diff(dim, order=2) for dim in self.mesh.region.dims) for vdim in self.vdims]")
    oks = okv = False
    for st, t in lists:
        conds = [(v.ev.term(c_, at=geom._if_stmt(v, c_)), pol) for c_, pol in v.cfg.path_condition(st)]
        scalar_branch = any((pol and v.eq(ct, v.spec("self.nvdim == 1"))) or ((not pol) and v.eq(ct, v.spec("self.nvdim != 1")))
                            for ct, pol in conds)
        vector_branch = any(((not pol) and v.eq(ct, v.spec("self.nvdim == 1"))) or (pol and v.eq(ct, v.spec("self.nvdim != 1")))
                            or (pol and v.eq(ct, v.spec("self.nvdim > 1"))) for ct, pol in conds)
        if v.eq(t, want_s) and scalar_branch:
            oks = True
        if v.eq(t, want_v) and vector_branch:
            okv = True
    chk.ob("field.Field.laplace::scalar", oks, "C05.D1",
           "for nvdim == 1 the Laplacian must be the sum of diff(dim, order=2) over ALL region dims", v.f)
    chk.ob("field.Field.laplace::vector", okv, "C05.D1",
           "for vector fields each component's Laplacian must be the sum of its order=2 derivatives over ALL region dims", v.f)
    stack_accumulation(chk, v, "field.Field.laplace::stacking", "C05.D1")
    d2_curl(chk, repo)
    d3_rmap(chk, repo)
    d4_refusals(chk, repo)
    d5_relabel(chk, repo)
    d7_setter_conditions(chk, repo)
    chk.rule("C05.D6", "exactness for degree <= 2 on meshes with at least three cells rests on the 1-d derivative: its stencils, "
                       "edge orders and run-length thresholds are those of C04.D1/D2 (same rule instances)")
    from . import c04
    c04.d1_stencils(chk, repo)
    c04.d2_thresholds(chk, repo)
    # ... and on the whole pipeline behind every diff() the four operators call: linearity, run splitting and the per-line /
    # per-component scatter of Field.diff with its result array (dtype of the buffers included: complex fields)
    c04.d3_linearity(chk, repo)
    c04.d4_runs(chk, repo)
    c04.d5_field_diff(chk, repo)
    chk.assume("polynomial exactness and the vector identities are consequences of C04 plus linear algebra and are numeric; "
               "commutation with quarter turns is not decided")
    chk.trust("`a << b` on fields stacks components in operand order (C03)")


def d2_curl(chk, repo):
    chk.rule("C05.D2", "curl table: with comp(d) = getattr(self, _r_dim_mapping[d]) and (x,y,z) = region.dims the six terms equal "
                       "curl_i = sum_jk eps_ijk d_j comp(k), stacked in x,y,z order (exact Levi-Civita table)")
    v = FV(repo, "field.Field.curl")
    r, t = _single_return(v)
    dims = v.spec("self.mesh.region.dims")
    D = [v.ctx.mk(("unpack", i), (dims,)) for i in range(3)]
    # unpacking target must be exactly three names
    comps = []
    h = v.ctx.head_of(t)
    cur = t
    ok_shape = True
    while True:
        h = v.ctx.head_of(cur)
        if h == ("binop", "LShift"):
            a, b = v.ctx.args_of(cur)
            comps.insert(0, b)
            cur = a
        else:
            comps.insert(0, cur)
            break
    if len(comps) != 3:
        chk.ob("field.Field.curl::three-components", False, "C05.D2", f"curl stacks {len(comps)} components", v.f, r)
        return

    def decode_term(x):
        """+-.diff(getattr(self, R[d_k]), d_j) -> (sign, k, j)"""
        for sign, y in ((1, x), (-1, r_neg(x))):
            c = decode_call(v.ctx, y)
            if c and c[0] in (".diff", "Field.diff") and len(c[1]) == 2 and not c[2]:
                comp, ax = c[1]
                j = [i for i in range(3) if v.eq(ax, D[i])]
                cc = decode_call(v.ctx, comp)
                if cc and cc[0] == "getattr" and is_sym(v.ctx, cc[1][0], "self") and j:
                    hh = v.ctx.head_of(cc[1][1])
                    if hh and hh[0] == "sub":
                        base, key = v.ctx.args_of(cc[1][1])
                        if v.eq(base, v.spec("self._r_dim_mapping")):
                            k = [i for i in range(3) if v.eq(key, D[i])]
                            if k:
                                return sign, k[0], j[0]
        return None

    eps = {(0, 1, 2): 1, (1, 2, 0): 1, (2, 0, 1): 1, (0, 2, 1): -1, (2, 1, 0): -1, (1, 0, 2): -1}
    for i, comp in enumerate(comps):
        # comp is a sum of two atoms with coefficients +-1
        terms = []
        good = comp.den == {(): 1} and len(comp.num) == 2
        if good:
            from ..terms import Rat
            for mono, c_ in comp.num.items():
                terms.append(decode_term(Rat({mono: c_})))
        good = good and all(x is not None for x in terms)
        want = {(j, k): s for (ii, j, k), s in eps.items() if ii == i}
        got = {(x[2], x[1]): x[0] for x in terms} if good else {}
        chk.ob(f"field.Field.curl::component-{'xyz'[i]}", good and got == want, "C05.D2",
               f"curl_{'xyz'[i]} = {v.show(comp)[:220]}; decoded (derivative axis, component axis)->sign {got}; "
               f"Levi-Civita requires {want}", v.f, r)


def d3_rmap(chk, repo):
    chk.rule("C05.D3", "_r_dim_mapping is the inverse of vdim_mapping restricted to the region's dims (None for unmapped dims)")
    v = FV(repo, "field.Field._r_dim_mapping")
    r, t = _single_return(v)
    want = v.spec("{dim: {val: key for key, val in self.vdim_mapping.items()}.get(dim) for dim in self.mesh.region.dims}")
    chk.ob("field.Field._r_dim_mapping::inverse", v.eq(t, want), "C05.D3", f"returns {v.show(t)[:240]}", v.f, r)


def d4_refusals(chk, repo):
    chk.rule("C05.D4", "operators refuse fields that do not fit: grad needs nvdim == 1; div needs nvdim == ndim and every label "
                       "mapped onto a region dim; curl needs nvdim == ndim == 3 and the same mapping conditions - each refusal "
                       "precedes the first derivative")
    v = FV(repo, "field.Field.grad")
    first = [s for s in v.body if not (isinstance(s, ast.If) and always_raises(s.body))][0]
    ok, det = v.guard("self.nvdim != 1", exc=("ValueError",), before=first)
    chk.ob("field.Field.grad::refuses-vectors", ok, "C05.D4", det, v.f)
    for q, c0 in (("field.Field.div", "self.nvdim != self.mesh.region.ndim"),
                  ("field.Field.curl", "self.nvdim != 3 or self.mesh.region.ndim != 3")):
        v = FV(repo, q)
        rets = [r for r in v.returns() if r.value is not None]
        target = rets[0]
        # first statement that computes something
        comp_stmts = [s for s in v.body if not isinstance(s, (ast.If, ast.For))]
        target = comp_stmts[0] if comp_stmts else rets[0]
        ok, det = v.guard(c0, exc=("ValueError",), before=target)
        chk.ob(f"{q}::refuses-dimension-mismatch", ok, "C05.D4", det, v.f)
        ok, det = loop_guard(v, "e not in self.vdim_mapping", ("ValueError",), "self.vdims", target, "e")
        chk.ob(f"{q}::refuses-unmapped-component", ok, "C05.D4", det, v.f)
        ok, det = loop_guard2(v, target)
        chk.ob(f"{q}::refuses-foreign-axis", ok, "C05.D4", det, v.f)


def loop_guard2(v, before):
    """elif self.vdim_mapping[vdim] not in dims: raise  (second alternative of the chain in the loop over vdims)"""
    want_it = v.spec("self.vdims")
    for st in v.stmts():
        if isinstance(st, ast.For) and v.eq(v.term(st.iter, at=st), want_it) and v.cfg.dominates(v.cfg.node(st), v.cfg.node(before)):
            elem = each(v, want_it)
            for s2 in walk_stmts(st.body):
                if isinstance(s2, ast.If) and always_raises(s2.body):
                    ct = v.ev.term(s2.test, at=s2)
                    if v.eq(ct, v.spec("self.vdim_mapping[e] not in self.mesh.region.dims", env={"e": elem})):
                        # reached whenever the component is mapped: it is the else-alternative of the unmapped test or stands alone
                        par = v.cfg.parent.get(id(s2))
                        if par and isinstance(par[0], ast.If) and par[1] == "orelse":
                            pt = v.ev.term(par[0].test, at=par[0])
                            if v.eq(pt, v.spec("e not in self.vdim_mapping", env={"e": elem})) and always_raises(par[0].body):
                                return True, "refused (elif after the unmapped-component test)"
                        elif par and isinstance(par[0], ast.For):
                            return True, "refused"
    return False, "no refusal of components mapped to something that is not a region dim"


def d5_relabel(chk, repo):
    chk.rule("C05.D5", "relabelling components keeps their axis mapping: the vdims setter rebuilds vdim_mapping by zipping the new "
                       "with the old labels")
    v = FV(repo, "field.Field.vdims.setter")
    sts = [s for s in v.self_stores() if s[1] == "vdim_mapping"]
    ok = False
    det = "no reassignment of vdim_mapping in the vdims setter"
    if len(sts) == 1:
        st, _, val, _ = sts[0]
        t = v.term(val, at=st)
        old = None
        for s in v.stmts():
            if isinstance(s, ast.Assign) and isinstance(s.targets[0], ast.Name) and v.eq(v.term(s.value, at=s), v.spec("self._vdims")) \
                    and isinstance(s.value, ast.Attribute):
                # old labels captured before the store to _vdims
                store = [x for x in v.self_stores() if x[1] == "_vdims"]
                if store and v.cfg.reachable(v.cfg.node(s), v.cfg.node(store[0][0])) and \
                        not v.cfg.reachable(v.cfg.node(store[0][0]), v.cfg.node(s)):
                    old = s
        new_labels = v.ev.term(ast.Name(id="vdims", ctx=ast.Load()), at=st)
        if old is not None:
            want = v.spec("{n: self.vdim_mapping[o] for n, o in zip(N, O)}", env={"N": new_labels, "O": v.ctx.mk(("attr", "_vdims"), (v.spec("self"),))})
            ok = v.eq(t, want)
        det = f"vdim_mapping = {v.show(t)[:200]}"
    chk.ob("field.Field.vdims.setter::mapping-follows-labels", ok, "C05.D5",
           f"{det}; expected {{new: vdim_mapping[old] for new, old in zip(new labels, labels before the assignment)}}", v.f,
           sts[0][0] if sts else None)


# ------------------------------------------------------------------ D7
def _reached_iff(chk, v, key, stmts, want_text, variables, what, env=None):
    """the listed statements (together) are reached exactly under want_text (finite propositional/order-type decision)"""
    if not stmts:
        chk.ob(key, False, "C05.D7", f"{what}: the statement vanished", v.f)
        return
    parts = [v.ev._bool("and", [path_term(v, st)] + context_literals(v, st)) for st in stmts]
    got = parts[0] if len(parts) == 1 else v.ev._bool("or", parts)
    want = v.spec(want_text, env=env)
    hit = reached_iff_any(v, stmts, want, variables)
    ok = len(hit) == len(stmts)
    chk.ob(key, ok, "C05.D7", f"{what} happens under {v.show(got)[:260]}; expected exactly under `{want_text}`", v.f, stmts[0])


def d7_setter_conditions(chk, repo):
    chk.rule("C05.D7", "the component-to-axis mapping is maintained under the documented conditions (each decided as a predicate "
                       "over type tests and the order types of component count, mesh dimension and mapping size): default = "
                       "labels zipped with the region's dims exactly for vector fields with as many components as the mesh has "
                       "dimensions; keys other than the labels are refused; relabelling carries a non-empty mapping over")
    v = FV(repo, "field.Field.vdim_mapping.setter")
    nv = v.spec("self.nvdim")
    nd = v.spec("self.mesh.region.ndim")
    ln = v.spec("len(vdim_mapping)")
    variables = [x for x in (nv, nd, ln) if x.single_atom() is not None]
    assigns = [st for st in v.stmts() if isinstance(st, ast.Assign) and len(st.targets) == 1 and isinstance(st.targets[0], ast.Name)]
    zipd = [st for st in assigns if v.eq(v.term(st.value, at=st), v.spec("dict(zip(self.vdims, self.mesh.region.dims))"))]
    empty = [st for st in assigns if (v.ctx.head_of(v.term(st.value, at=st)) or ("",))[0] == "dict"
             and not v.ctx.args_of(v.term(st.value, at=st))]
    _reached_iff(chk, v, "field.Field.vdim_mapping.setter::default-pairs-labels-with-dims", zipd,
                 "vdim_mapping is None and self.nvdim != 1 and self.nvdim == self.mesh.region.ndim", variables,
                 "the default mapping labels -> region dims (in order)")
    _reached_iff(chk, v, "field.Field.vdim_mapping.setter::empty-mapping", empty,
                 "(vdim_mapping is None and (self.nvdim == 1 or self.nvdim != self.mesh.region.ndim)) or "
                 "(vdim_mapping is not None and isinstance(vdim_mapping, dict) and len(vdim_mapping) == 1 and self.nvdim == 1 "
                 "and self.vdims is None)", variables, "replacing the mapping by {}")
    raises = {}
    for r, name in v.raises():
        raises.setdefault(name, []).append(r)
    _reached_iff(chk, v, "field.Field.vdim_mapping.setter::foreign-keys-refused", raises.get("ValueError", []),
                 "vdim_mapping is not None and isinstance(vdim_mapping, dict) and not (len(vdim_mapping) == 1 and self.nvdim == 1 "
                 "and self.vdims is None) and len(vdim_mapping) > 0 and sorted(vdim_mapping) != sorted(self.vdims)", variables,
                 "refusing a mapping (ValueError)")
    _reached_iff(chk, v, "field.Field.vdim_mapping.setter::non-dict-refused", raises.get("TypeError", []),
                 "vdim_mapping is not None and not isinstance(vdim_mapping, dict)", variables, "refusing a mapping (TypeError)")
    st = [s_ for s_ in v.self_stores() if s_[1] == "_vdim_mapping"]
    ok = False
    if len(st) == 1:
        mem = phi_members(v.ctx, v.term(st[0][2], at=st[0][0]))
        want = [v.spec("vdim_mapping"), v.spec("dict(zip(self.vdims, self.mesh.region.dims))"), v.spec("{}")]
        ok = all(any(v.eq(m, w) for w in want) for m in mem) and all(any(v.eq(m, w) for m in mem) for w in want)
    chk.ob("field.Field.vdim_mapping.setter::stored-values", ok, "C05.D7",
           "the stored mapping is the given one, {} or labels zipped with the region's dims", v.f, st[0][0] if st else None)
    # ---- labels
    v = FV(repo, "field.Field.vdims.setter")
    nv = v.spec("self.nvdim")
    ln = v.spec("len(vdims)")
    variables = [x for x in (nv, ln) if x.single_atom() is not None]
    assigns = [st for st in v.stmts() if isinstance(st, ast.Assign) and len(st.targets) == 1 and isinstance(st.targets[0], ast.Name)]
    xyz = [st for st in assigns if v.eq(v.term(st.value, at=st), v.spec("['x', 'y', 'z'][: self.nvdim]"))]
    vi = [st for st in assigns if v.eq(v.term(st.value, at=st), v.spec("[f'v{i}' for i in range(self.nvdim)]"))]
    _reached_iff(chk, v, "field.Field.vdims.setter::default-xyz", xyz, "vdims is None and 2 <= self.nvdim and self.nvdim <= 3",
                 variables, "default labels x, y, z")
    _reached_iff(chk, v, "field.Field.vdims.setter::default-v-i", vi, "vdims is None and self.nvdim > 3", variables,
                 "default labels v0, v1, ...")
    valid_seq = ("vdims is not None and isinstance(vdims, (list, tuple, np.ndarray)) and "
                 "not any(not isinstance(vdim, str) for vdim in vdims) and len(vdims) != 0")
    for r, name in v.raises():
        if name != "ValueError":
            continue
        pt = path_term(v, r)
        heads = v.ctx.heads_in(pt)
        if any(h[0] == "call" and h[1] == "set" for h in heads):
            _reached_iff(chk, v, "field.Field.vdims.setter::duplicate-labels-refused", [r],
                         valid_seq + " and len(vdims) != len(set(vdims))", variables, "refusing duplicate labels")
        elif any(h[0] == "call" and h[1] == "hasattr" for h in heads):
            continue
        else:
            _reached_iff(chk, v, "field.Field.vdims.setter::wrong-count-refused", [r],
                         valid_seq + " and len(vdims) != self.nvdim", variables, "refusing a wrong number of labels")
    # relabelling carries the mapping over
    sts = [s_ for s_ in v.self_stores() if s_[1] == "vdim_mapping"]
    old = None
    for s_ in v.stmts():
        if isinstance(s_, ast.Assign) and isinstance(s_.targets[0], ast.Name) and isinstance(s_.value, ast.Attribute) and \
                v.eq(v.term(s_.value, at=s_), v.spec("self._vdims")):
            old = s_
    if sts and old is not None:
        upd = sts[0][0]
        par = v.cfg.parent.get(id(upd))
        ok = False
        det = "the update is not conditional"
        if par and isinstance(par[0], ast.If) and par[1] == "body":
            newname = None
            store = [x for x in v.self_stores() if x[1] == "_vdims"]
            if store and isinstance(store[0][2], ast.Name):
                newname = store[0][2].id
            if newname:
                got = v.ev.term(par[0].test, at=par[0])
                want = v.spec(f"len(self.vdim_mapping) > 0 and {newname} is not None and {old.targets[0].id} is not None", at=par[0])
                ok = cond_equiv(v, got, want, [v.spec("len(self.vdim_mapping)")])
                det = f"the mapping is rebuilt under {v.show(got)[:200]}"
        chk.ob("field.Field.vdims.setter::relabel-condition", ok, "C05.D7",
               f"{det}; expected: whenever it is non-empty and both the old and the new labels exist", v.f, upd)
