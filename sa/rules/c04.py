"""C04 - derivatives are exact on low-degree polynomials, linear, and blind across gaps."""
import ast
from fractions import Fraction
from math import factorial

from ..model import AnalysisError
from ..lib import (FV, decode_new, decode_call, phi_members, is_sym, is_const, is_str, strip_stores, stores_of, tuple_consts,
                   find_assign, find_assigns, simple_assigns, local_term)
from ..lib import (reached_iff, reached_implies, implies_reached, reached_iff_any, path_term, cond_equiv, cond_implies,  # noqa: F401
                   else_stmts, branch_stmts, context_literals, gated_values, value_iff, full_term, value_members,
                   expand_conditional_values)
from ..cfg import always_raises, walk_stmts
from . import common as cm
from . import geom
from .common import FIELD, MESH, REGION
from .c01 import each, _single_return

FLOOR = 30
ANCHORS = [
    'operators._1d_diff',
    'operators._split_array_on_idx',
    'operators._split_diff_combine',
    'field.Field.diff',
    'field.Field.pad',
]   # functions whose code the property is anchored in (mutation analysis, evidence)


def run(chk):
    repo = chk.repo
    cm.schema(chk, repo, "C04")
    d1_stencils(chk, repo)
    d2_thresholds(chk, repo)
    d3_linearity(chk, repo)
    d4_runs(chk, repo)
    d5_field_diff(chk, repo)
    cm.no_dtype_narrowing(chk, repo, "C04", "C04.D5", ["field.Field.diff"],
                          "derivatives divide by the cell length - an integer-typed field would be truncated")
    chk.trust("np.gradient(f, dx, edge_order=2) is second-order accurate at interior and edge points (exact for polynomials of "
              "degree <= 2), edge_order=1 first-order at the edges (exact for degree <= 1) - numpy reference")
    chk.trust("np.convolve(a, k, 'same') returns the centred part of the full convolution, same length as a")
    chk.trust("np.pad(mode='wrap') continues the array periodically")
    chk.assume("that one wrap cell suffices for every validity pattern / ring length, commutation with cyclic shifts and all "
               "rounding are not decided")

AUTOMUT_TRIAGE = [
    (r"Field\.pad$", r"drop keyword (vdims|unit|vdim_mapping)=", "metadata of the padded intermediate is never read: diff rebuilds "
     "its result from self (C04.D5 kw rules); padding's own metadata is not this property"),
]


# ------------------------------------------------------------------ stencil algebra (E8)
def coeffs(v, t, arr):
    """polynomial in atoms arr[k] (k integer literal) -> {k: Fraction}; None if anything else occurs"""
    if t.den != {(): Fraction(1)}:
        return None
    out = {}
    for mono, c in t.num.items():
        if len(mono) != 1 or mono[0][1] != 1:
            return None
        head, args = v.ctx.atoms[mono[0][0]]
        if head[0] != "sub" or not v.eq(args[0], arr):
            return None
        k = args[1].const()
        if k is None or k.denominator != 1:
            return None
        out[int(k)] = out.get(int(k), 0) + c
    return out


def moments(offsets_coeffs, upto):
    """[sum c_j * j^m for m in 0..upto]"""
    return [sum(c * Fraction(j) ** m for j, c in offsets_coeffs.items()) for m in range(upto + 1)]


def exact_degree(offsets_coeffs, order, maxdeg=6):
    """largest d such that sum c_j j^m == m! delta(m, order) for all m <= d"""
    d = -1
    for m in range(maxdeg + 1):
        s = sum(c * Fraction(j) ** m for j, c in offsets_coeffs.items())
        if s != (factorial(order) if m == order else 0):
            break
        d = m
    return d


def d1_stencils(chk, repo):
    chk.rule("C04.D1", "hand-written stencils satisfy the moment conditions sum c_j j^m = m! delta(m,order) in exact rational "
                       "arithmetic: interior [1,-2,1]; 4-point ends exact up to degree 3; 3-point ends up to degree 2 (and not 3); "
                       "division by dx**2; first derivatives use np.gradient with edge_order 2 (len >= 3) or 1 (len == 2)")
    v = FV(repo, "operators._1d_diff")
    arr = v.spec("array")
    rets = [r for r in v.returns() if r.value is not None]
    final = rets[-1]
    t = v.ev.term(final.value, at=final)
    mem = phi_members(v.ctx, t)
    grads = []
    second = []
    for m_ in mem:
        c = decode_call(v.ctx, m_)
        if c and c[0] == "np.gradient":
            grads.append((m_, c))
        else:
            second.append(m_)
    # first derivative
    eo = sorted(int(c[2]["edge_order"].const()) for m_, c in grads if "edge_order" in c[2] and c[2]["edge_order"].const() is not None)
    okg = eo == [1, 2] and all(len(c[1]) == 2 and v.eq(c[1][0], arr) and is_sym(v.ctx, c[1][1], "param:dx") for m_, c in grads)
    chk.ob("operators._1d_diff::first-derivative-gradient", okg, "C04.D1",
           f"first derivatives: {[v.show(m_) for m_, c in grads]}; expected np.gradient(array, dx, edge_order=1|2)", v.f, final)
    # edge_order selection
    ok_sel = False
    for st in v.stmts():
        if isinstance(st, ast.If) and v.eq(v.ev.term(st.test, at=st), v.spec("len(array) < 3")):
            tb = [decode_call(v.ctx, v.term(s.value, at=s)) for s in st.body if isinstance(s, ast.Assign)]
            te = [decode_call(v.ctx, v.term(s.value, at=s)) for s in st.orelse if isinstance(s, ast.Assign)]
            if tb and te and tb[0] and te[0] and tb[0][0] == te[0][0] == "np.gradient":
                ok_sel = is_const(v.ctx, tb[0][2].get("edge_order", v.ctx.const(0)), 1) and \
                    is_const(v.ctx, te[0][2].get("edge_order", v.ctx.const(0)), 2)
    chk.ob("operators._1d_diff::edge-order-by-length", ok_sel, "C04.D1",
           "edge_order must be 1 exactly for runs shorter than three cells and 2 otherwise", v.f)
    # which formula for which order
    order = v.spec("order")
    oid = order.single_atom()
    from ..lib import _eval_bool

    def reached(st, k):
        for test, pol in v.cfg.path_condition(st):
            b = _eval_bool(v.ctx, v.ev.term(test, at=geom._if_stmt(v, test)), {oid: Fraction(k)})
            if b is not None and b != pol:
                return False
        return True
    for st in v.stmts():
        if not isinstance(st, ast.Assign):
            continue
        c = decode_call(v.ctx, v.term(st.value, at=st))
        if c and c[0] in ("np.gradient", "np.convolve"):
            k = 1 if c[0] == "np.gradient" else 2
            okd = reached(st, k) and not reached(st, 3 - k)
            chk.ob(f"operators._1d_diff::{c[0]}-for-order-{k}", okd, "C04.D1",
                   f"`{v.src(st)[:60]}` is reached under {[(ast.unparse(t_), p_) for t_, p_ in v.cfg.path_condition(st)]}; "
                   f"it must run for order {k} and not for order {3 - k}", v.f, st)
    # second derivative
    ok2 = len(second) == 1
    inner = None
    if ok2:
        s_ = second[0]
        # s_ == X / dx**2
        dx2 = v.spec("dx ** 2")
        from ..terms import r_mul
        inner = r_mul(s_, dx2)
        ok2 = inner.single_atom() is not None
    chk.ob("operators._1d_diff::second-derivative-scaled", ok2, "C04.D1",
           f"second derivative {v.show(second[0])[:120] if second else '?'}: stencil sums must be divided by dx**2", v.f, final)
    if not ok2:
        return
    variants = phi_members(v.ctx, inner)
    seen = set()
    for var in variants:
        bases = strip_stores(v.ctx, var)
        okb = len(bases) == 1
        cb = decode_call(v.ctx, bases[0]) if okb else None
        kern = tuple_consts(v.ctx, cb[1][1]) if cb and cb[0] == "np.convolve" and len(cb[1]) >= 3 else None
        okk = bool(cb and cb[0] == "np.convolve" and v.eq(cb[1][0], arr) and kern is not None and is_str(v.ctx, cb[1][2], "same"))
        if okk:
            # convolution flips the kernel: out[i] = sum_j k[j] a[i + c - j]; with odd length L, centre c = (L-1)/2
            L = len(kern)
            offs = {(L - 1) // 2 - j: Fraction(kern[j]) for j in range(L)}
            deg = exact_degree(offs, 2)
            okk = L % 2 == 1 and deg >= 3
            chk.ob("operators._1d_diff::interior-kernel", okk, "C04.D1",
                   f"interior kernel {kern} is exact up to degree {deg}; needs 3", v.f, final)
        elif "interior" not in seen:
            chk.ob("operators._1d_diff::interior-kernel", False, "C04.D1",
                   f"interior values are {v.show(bases[0])[:100] if bases else '?'}; expected np.convolve(array, [1,-2,1], 'same')",
                   v.f, final)
        seen.add("interior")
        sts = stores_of(v.ctx, var)
        npts = 0
        for idx, val in sts:
            i = idx.const()
            cf = coeffs(v, val, arr)
            if i is None or cf is None or int(i) not in (0, -1):
                chk.ob(f"operators._1d_diff::end-stencil::unrecognised", False, "C04.D1",
                       f"end value [{v.show(idx)}] = {v.show(val)[:120]} is not a linear stencil in array[k]", v.f, final)
                continue
            i = int(i)
            same_side = all((k >= 0) == (i >= 0) for k in cf)
            offs = {k - i: c for k, c in cf.items()}
            deg = exact_degree(offs, 2) if same_side else -1
            npts = len(cf)
            need = 3 if npts >= 4 else 2
            side = "left" if i == 0 else "right"
            okd = deg >= need and (npts >= 4 or deg == 2)
            chk.ob(f"operators._1d_diff::end-stencil::{npts}pt-{side}", okd, "C04.D1",
                   f"{side} end stencil {dict(sorted(cf.items()))} (offsets {dict(sorted(offs.items()))}) is exact up to degree "
                   f"{deg}; a {npts}-point one-sided second difference must be exact up to degree {need}", v.f, final)
        chk.ob(f"operators._1d_diff::end-stencils-present::{npts}pt", len(sts) == 2 and
               sorted(int(i.const()) for i, _ in sts if i.const() is not None) == [-1, 0], "C04.D1",
               f"both ends (index 0 and -1) must be overwritten; found indices {[v.show(i) for i, _ in sts]}", v.f, final)


# ------------------------------------------------------------------ D2
def _min_len(v, stmt):
    """largest L with len(array) >= L guaranteed at stmt, from enclosing tests and the early zero return"""
    L = 0
    arr_len = v.spec("len(array)")
    # early return: `if len(array) < order + 1: return zeros` dominating stmt
    order_val = None
    for c_, pol in v.cfg.path_condition(stmt):
        t = v.ev.term(c_, at=geom._if_stmt(v, c_))
        h = v.ctx.head_of(t)
        if h and h[0] == "cmp" and h[1] == "eq":
            a, b = v.ctx.args_of(t)
            for x, y in ((a, b), (b, a)):
                if is_sym(v.ctx, x, "param:order") and y.const() is not None and pol:
                    order_val = int(y.const())
    for st in v.body:
        if isinstance(st, ast.If) and st.body and isinstance(st.body[-1], ast.Return) and not st.orelse:
            t = v.ev.term(st.test, at=st)
            if v.eq(t, v.spec("len(array) < order + 1")) and order_val is not None and \
                    v._must_leave_by(v.cfg.node(st), "F", v.cfg.node(stmt)):
                L = max(L, order_val + 1)
    for c_, pol in v.cfg.path_condition(stmt):
        t = v.ev.term(c_, at=geom._if_stmt(v, c_))
        h = v.ctx.head_of(t)
        if not (h and h[0] == "cmp"):
            continue
        a, b = v.ctx.args_of(t)
        if h[1] == "le" and v.eq(b, arr_len) and a.const() is not None and pol:       # K <= len
            L = max(L, int(a.const()))
        if h[1] == "lt" and v.eq(b, arr_len) and a.const() is not None and pol:       # K < len
            L = max(L, int(a.const()) + 1)
        if h[1] == "lt" and v.eq(a, arr_len) and b.const() is not None and not pol:   # not len < K
            L = max(L, int(b.const()))
        if h[1] == "le" and v.eq(a, arr_len) and b.const() is not None and not pol:   # not len <= K
            L = max(L, int(b.const()) + 1)
    return L


def d2_thresholds(chk, repo):
    chk.rule("C04.D2", "index safety and branch thresholds: every stencil's largest index is covered by the run length guaranteed "
                       "on its branch (len < order+1 -> zeros; len >= 4 -> 4-point ends; otherwise 3-point ends)")
    v = FV(repo, "operators._1d_diff")
    arr = v.spec("array")
    ok0, det0 = False, "no early return"
    for st in v.body:
        if isinstance(st, ast.If) and st.body and isinstance(st.body[-1], ast.Return) and not st.orelse:
            t = v.ev.term(st.test, at=st)
            rt = v.ev.term(st.body[-1].value, at=st.body[-1])
            if v.eq(t, v.spec("len(array) < order + 1")) and v.eq(rt, v.spec("np.zeros_like(array)")):
                ok0 = v.body.index(st) == 0
                det0 = "runs not longer than the derivative order yield zeros"
    chk.ob("operators._1d_diff::short-runs-zero", ok0, "C04.D2",
           det0 + " (first statement must be `if len(array) < order + 1: return np.zeros_like(array)`)", v.f)
    n = 0
    for st in v.stmts():
        if isinstance(st, ast.Assign) and isinstance(st.targets[0], ast.Subscript):
            val = v.term(st.value, at=st)
            cf = coeffs(v, val, arr)
            if cf is None:
                continue
            need = max((k + 1) if k >= 0 else -k for k in cf)
            have = _min_len(v, st)
            n += 1
            # four-point stencils are also *required* once four cells are available (accuracy clause of the statement)
            chk.ob(f"operators._1d_diff::index-safe::line{n}", have >= need, "C04.D2",
                   f"`{v.src(st)}` reads up to {need} cells but only len(array) >= {have} is guaranteed on this branch", v.f, st)
            if len(cf) == 3:
                chk.ob(f"operators._1d_diff::3pt-only-for-3-cells::line{n}", _max_len(v, st) == 3, "C04.D2",
                       f"`{v.src(st)}`: the three-point end stencil (exact only to degree 2) may be used for three-cell runs only",
                       v.f, st)
    chk.require(n >= 4, "C04.D2: fewer than four end stencils found")


def _max_len(v, stmt):
    arr_len = v.spec("len(array)")
    U = 10 ** 9
    for c_, pol in v.cfg.path_condition(stmt):
        t = v.ev.term(c_, at=geom._if_stmt(v, c_))
        h = v.ctx.head_of(t)
        if not (h and h[0] == "cmp"):
            continue
        a, b = v.ctx.args_of(t)
        if h[1] == "le" and v.eq(b, arr_len) and a.const() is not None and not pol:   # not K <= len  -> len <= K-1
            U = min(U, int(a.const()) - 1)
        if h[1] == "lt" and v.eq(a, arr_len) and b.const() is not None and pol:       # len < K
            U = min(U, int(b.const()) - 1)
        if h[1] == "le" and v.eq(a, arr_len) and b.const() is not None and pol:
            U = min(U, int(b.const()))
    return U


# ------------------------------------------------------------------ D3
def d3_linearity(chk, repo):
    chk.rule("C04.D3", "the derivative is linear in the field values: every return of _1d_diff is a linear numpy operator applied "
                       "to the run (gradient, convolution with a constant kernel, zeros) with end values that are homogeneous "
                       "degree-1 polynomials in array[k]; nothing else mixes in")
    v = FV(repo, "operators._1d_diff")
    arr = v.spec("array")
    for i, r in enumerate([r for r in v.returns() if r.value is not None]):
        t = v.ev.term(r.value, at=r)
        bad = []
        for m_ in phi_members(v.ctx, t):
            # strip a scalar factor depending on dx only
            x = m_
            aid = x.single_atom()
            if aid is None:
                from ..terms import r_mul
                x = r_mul(m_, v.spec("dx ** 2"))
                if x.single_atom() is None:
                    bad.append(v.show(m_)[:80])
                    continue
            for var in phi_members(v.ctx, x):
                for b in strip_stores(v.ctx, var):
                    c = decode_call(v.ctx, b)
                    lin = bool(c and ((c[0] == "np.gradient" and v.eq(c[1][0], arr)) or
                                      (c[0] == "np.convolve" and v.eq(c[1][0], arr) and tuple_consts(v.ctx, c[1][1]) is not None) or
                                      (c[0] == "np.zeros_like")))
                    if not lin:
                        bad.append(v.show(b)[:80])
                for idx, val in stores_of(v.ctx, var):
                    if coeffs(v, val, arr) is None:
                        bad.append(f"[{v.show(idx)}]={v.show(val)[:60]}")
        chk.ob(f"operators._1d_diff::return#{i}::linear", not bad, "C04.D3", f"non-linear parts: {bad}", v.f, r)


# ------------------------------------------------------------------ D4
def d4_runs(chk, repo):
    chk.rule("C04.D4", "maximal runs of valid cells are differentiated separately: runs are array[loc[i]+1 : loc[i+1]] with "
                       "loc = [-1, *invalid, len], empty runs skipped; results are scattered to out[valid], zeros elsewhere")
    v = FV(repo, "operators._split_array_on_idx")
    r, t = _single_return(v)
    L = v.spec("np.concatenate(([-1], loc, [len(array)]))")
    i_ = each(v, v.spec("range(len(L) - 1)", env={"L": L}))
    elt = v.spec("array[L[i] + 1:L[i + 1]]", env={"L": L, "i": i_})
    cond = v.spec("L[i + 1] != L[i] + 1", env={"L": L, "i": i_})
    gen = v.ctx.mk(("gen", 1), (v.spec("range(len(L) - 1)", env={"L": L}), cond))
    want = v.ctx.mk(("seqcomp", 1), (elt, gen))
    chk.ob("operators._split_array_on_idx::runs", v.eq(t, want), "C04.D4",
           f"returns {v.show(t)[:300]}; expected [array[loc[i]+1:loc[i+1]] for i in range(len(loc)-1) if loc[i+1] != loc[i]+1] "
           "with loc = concatenate(([-1], loc, [len(array)]))", v.f, r)
    v = FV(repo, "operators._split_diff_combine")
    rets = [r for r in v.returns() if r.value is not None]
    final = rets[-1]
    t = v.ev.term(final.value, at=final)
    runs = v.spec("_split_array_on_idx(array, np.where(np.invert(valid))[0])")
    diffs = v.spec("[_1d_diff(order, a, dx) for a in R]", env={"R": runs})
    want = v.ctx.mk(("store",), (v.spec("np.zeros_like(array)"), v.spec("valid"), v.spec("np.concatenate(D)", env={"D": diffs})))
    chk.ob("operators._split_diff_combine::scatter", v.eq(t, want), "C04.D4",
           f"returns {v.show(t)[:300]}; expected zeros_like(array) with out[valid] = concatenate([_1d_diff(order, run, dx) for run "
           "in split(array, where(~valid)[0])])", v.f, final)
    ok = False
    for r in rets[:-1]:
        tt = v.ev.term(r.value, at=r)
        conds = v.cfg.path_condition(r)
        if v.eq(tt, v.spec("np.zeros_like(array)")) and any(
                pol and v.eq(v.ev.term(c_, at=geom._if_stmt(v, c_)), v.spec("len(D) == 0", env={"D": diffs})) for c_, pol in conds):
            ok = True
    chk.ob("operators._split_diff_combine::no-valid-cells", ok or len(rets) == 1, "C04.D4",
           "a line without valid cells yields zeros", v.f)


# ------------------------------------------------------------------ D5 / D6
def d5_field_diff(chk, repo):
    chk.rule("C04.D5", "Field.diff: per line and per component the same index tuple loads and stores; the sliced axis, the cell "
                       "length, the line enumeration (sel on the direction at pmin) all belong to the direction's axis; "
                       "restrict2valid=False uses an all-true mask; periodic directions are padded by one wrapped cell on both "
                       "sides and cropped back; mesh, labels, unit, validity and mapping are kept; order must be 1 or 2")
    v = FV(repo, "field.Field.diff")
    news = cm.returned_news(v)
    chk.require(news, "Field.diff: no returned Field construction")
    r, a = news[0]
    for kw in ("mesh", "nvdim", "vdims", "unit", "valid", "vdim_mapping"):
        got = a.get(kw)
        chk.ob(f"field.Field.diff::kw={kw}", got is not None and v.eq(got, v.spec(f"self.{kw}")), "C04.D5",
               f"{kw}={v.show(got)}; must be self.{kw}", v.f, r)
    first = v.body[0]
    ok, det = v.guard("order not in (1, 2)", exc=("NotImplementedError",), before=v.body[1] if len(v.body) > 1 else "exit")
    chk.ob("field.Field.diff::order-refused", ok and isinstance(first, ast.If), "C04.D5", det, v.f)
    # the working field
    loops = [s for s in v.stmts() if isinstance(s, ast.For)]
    chk.require(len(loops) == 2, "Field.diff: expected the line loop and the component loop")
    outer, inner = loops
    # the working field: the variable that is bound to self.pad(...) in a periodic direction (found by its value)
    wf = find_assign(v, lambda t, s: any((decode_call(v.ctx, m_) or ("",))[0] == "Field.pad" for _, _, m_ in value_members(v.ctx, t)))
    chk.require(wf is not None, "Field.diff: no variable is bound to self.pad(...)")
    W = local_term(v, wf[1], outer)
    mem = [m_ for _, _, m_ in value_members(v.ctx, W)]
    padded = v.spec("self.pad({direction: (1, 1)}, mode='wrap')")
    okw = len(mem) == 2 and any(v.eq(m_, padded) for m_ in mem) and any(is_sym(v.ctx, m_, "self") for m_ in mem)
    chk.ob("field.Field.diff::periodic-padding", okw, "C04.D5",
           f"working field is {v.show(W)[:160]}; expected self, or self.pad({{direction: (1, 1)}}, mode='wrap') in a periodic direction",
           v.f, outer)
    gv = gated_values(v, wf[1], outer)
    gv = expand_conditional_values(v, gv) if gv else gv
    # mesh.bc is either a string of periodic directions or one of the two names 'neumann' / 'dirichlet' (Mesh.bc setter); a
    # direction whose name happens to be a letter of those words (n, e, u, m, a, d, i, r, c, h, l, t) is not periodic then
    PERIODIC = "direction in self.mesh.bc and self.mesh.bc not in ('neumann', 'dirichlet')"
    okc = bool(gv) and value_iff(v, gv, lambda t: v.eq(t, padded), v.spec(PERIODIC), assume=full_term(v, outer))
    chk.ob("field.Field.diff::periodic-condition", okc, "C04.D5",
           "padding must be applied exactly when the direction is one of the periodic directions: `direction in self.mesh.bc` "
           "and bc is not the name of a boundary condition ('neumann', 'dirichlet' contain the letters n, e, u, m, a, d, i, r, c, "
           "h, l, t - legitimate dimension names)", v.f)
    env = {"W": W, "d": v.spec("self.mesh.region._dim2index(direction)")}
    it = v.term(outer.iter, at=outer)
    want_it = v.spec("W.mesh.sel(**{direction: (W.mesh.region.pmin[d], W.mesh.region.pmin[d])}).indices", env=env)
    chk.ob("field.Field.diff::line-enumeration", v.eq(it, want_it), "C04.D5",
           f"lines are enumerated by {v.show(it)[:200]}; expected the indices of the plane selected at pmin along `direction`", v.f, outer)
    sts = [s for s in walk_stmts(inner.body) if isinstance(s, ast.Assign) and isinstance(s.targets[0], ast.Subscript)]
    ok = False
    det = "no store in the component loop"

    def line_rule(x, wname):
        """the per-line load / store as seen by evaluator view x (the rules' view, or the exact view in which a two-armed
        `if` and a conditional expression are one gated value) -> (ok, description)"""
        st = sts[0]
        Wx = local_term(x, wname, outer)
        envx = {"W": Wx, "d": x.spec("self.mesh.region._dim2index(direction)")}
        itx = x.term(outer.iter, at=outer)
        idx = x.ev._index(st.targets[0].slice, x.cfg.node(st), None)
        val = x.term(st.value, at=st)
        comp = each(x, x.spec("range(W.nvdim)", env=envx))
        saved = x.ev._keep_seq
        found = False
        listed = x.spec("list(i)", env={"i": each(x, itx)})        # (outside subscript mode, as the code's own list(idx) is)
        # the line address: list(i) with entry d replaced by slice(None), or the same written as a splice
        for form in ("store", "splice"):
            x.ev._keep_seq = True
            try:
                e2 = dict(envx, i=each(x, itx), comp=comp)
                if form == "store":
                    e2["line"] = x.ctx.mk(("store",), (listed, envx["d"], x.spec("slice(None)")))
                    want_idx = x.spec("tuple([*line, comp])", env=e2)
                    vmask = x.spec("(W.valid if restrict2valid else np.ones_like(W.valid, dtype=bool))[tuple(line)]", env=e2)
                    load = x.spec("W.array[tuple([*line, comp])]", env=e2)
                else:
                    e2["line"] = x.spec("(*i[:d], slice(None), *i[d + 1:])", env=e2)
                    want_idx = x.spec("(*line, comp)", env=e2)
                    vmask = x.spec("(W.valid if restrict2valid else np.ones_like(W.valid, dtype=bool))[line]", env=e2)
                    load = x.spec("W.array[(*line, comp)]", env=e2)
            finally:
                x.ev._keep_seq = saved
            want_val = x.spec("_split_diff_combine(load, vmask, order, W.mesh.cell[d])", env=dict(envx, load=load, vmask=vmask))
            found = found or (x.eq(idx, want_idx) and x.eq(val, want_val))
        return found, f"out[{x.show(idx)[:120]}] = {x.show(val)[:260]}"

    if len(sts) == 1:
        ok, det = line_rule(v, wf[1])
        if not ok:
            vx = FV(repo, "field.Field.diff")
            vx.ev.exact = True
            try:
                ok = line_rule(vx, wf[1])[0]
            except AnalysisError:
                ok = False
    chk.ob("field.Field.diff::line-load-store", ok, "C04.D5",
           f"{det}; expected out[line, comp] = _split_diff_combine(W.array[line, comp], mask[line], order, W.mesh.cell[axis]) with "
           "line = the plane index with slice(None) at the direction's axis and mask = W.valid or all-true", v.f,
           sts[0] if sts else inner)
    # result array: zeros_like(W.array), cropped to the original region when padded
    val = a.get("value")
    bases = strip_stores(v.ctx, val) if val is not None else []
    z = v.spec("np.zeros_like(W.array)", env=env)
    crop_ok = False
    base_ok = False
    for b in bases:
        if v.eq(b, z):
            base_ok = True
        h = v.ctx.head_of(b)
        if h and h[0] == "sub":
            bb, ii = v.ctx.args_of(b)
            if v.eq(ii, v.spec("W.mesh.region2slices(self.mesh.region)", env=env)) and \
                    all(v.eq(x, z) for x in strip_stores(v.ctx, bb)):
                crop_ok = True
    chk.ob("field.Field.diff::result-array", base_ok and crop_ok, "C04.D5",
           f"value bases {[v.show(b)[:100] for b in bases]}; expected zeros_like(W.array) filled per line and, when padded, cropped "
           "by W.mesh.region2slices(self.mesh.region)", v.f, r)
    okcrop = False
    for st in v.stmts():
        if isinstance(st, ast.If) and st is not first and cond_equiv(v, v.ev.term(st.test, at=st), v.spec(PERIODIC)):
            for s2 in st.body:
                if isinstance(s2, ast.Assign) and isinstance(s2.value, ast.Subscript):
                    okcrop = True
    chk.ob("field.Field.diff::crop-condition", okcrop, "C04.D5", "cropping must happen exactly when the direction is periodic", v.f)
    # Field.pad consistency (data, validity, mesh driven by one width map)
    p = FV(repo, "field.Field.pad")
    for rr, aa in cm.returned_news(p):
        for kw, src in (("value", "self.array"), ("valid", "self.valid")):
            got = aa.get(kw)
            c = decode_call(p.ctx, got) if got is not None else None
            okp = False
            det = f"{kw}={p.show(got)[:200]}"
            if c and c[0] == "np.pad" and len(c[1]) >= 2:
                sq = decode_call(p.ctx, c[1][1])
                if sq and sq[0] == "dfu.assemble_index" and len(sq[1]) == 3:
                    widths = sq[1][2]
                    st_ = stores_of(p.ctx, widths)
                    # the width map: axis of direction d -> widths of d, for every (d, widths) of pad_width (a filling loop is
                    # read as the dict comprehension it is)
                    okd = p.eq(widths, p.spec("{self.mesh.region._dim2index(k): w for k, w in pad_width.items()}"))
                    want = p.spec(f"np.pad({src}, dfu.assemble_index((0, 0), len({src}.shape), D), mode=mode, **kwargs)",
                                  env={"D": widths})
                    okp = okd and p.eq(got, want)
                    if not okd:
                        det += f"; width map stores {[(p.show(i), p.show(x)) for i, x in st_]}"
            chk.ob(f"field.Field.pad::{kw}-padded-along-named-axes", okp, "C04.D5",
                   f"{det}; expected np.pad({src}, widths (0, 0) on every axis except those named in pad_width, mode=mode)",
                   p.f, rr)
        chk.ob("field.Field.pad::nvdim", aa.get("nvdim") is not None and p.eq(aa["nvdim"], p.spec("self.nvdim")), "C04.D5",
               f"nvdim={p.show(aa.get('nvdim'))}", p.f, rr)
        okm = aa.get("mesh") is not None and v.eq is not None and p.eq(aa["mesh"], p.spec("self.mesh.pad(pad_width)"))
        chk.ob("field.Field.pad::mesh-padded-with-same-widths", okm, "C04.D5",
               f"mesh={p.show(aa.get('mesh'))}; expected self.mesh.pad(pad_width)", p.f, rr)
