"""C13 - geometric invariants and in-place == copy after any transformation sequence."""
from . import geom
from . import common as cm

FLOOR = 120
ANCHORS = [
    'region.Region.__init__',
    'region.Region.scale',
    'region.Region.translate',
    'region.Region.rotate90',
    'region.Region.dims.setter',
    'region.Region.units.setter',
    'mesh.Mesh.__init__',
    'mesh.Mesh.scale',
    'mesh.Mesh.translate',
    'mesh.Mesh.rotate90',
    'field.Field.__init__',
    'field.Field.rotate90',
    'field.Field.array.setter',
]   # functions whose code the property is anchored in (mutation analysis, evidence)

AUTOMUT_TRIAGE = [
    (r"dims\.setter$", r"comparator LtE->Lt", "equivalent for the invariants: a 3-d region then gets x0, x1, x2 - still unique and of the right count"),
    (r"Field\.__init__$", r"self\.valid = True", "equivalent: placeholder needed by the norm setter, overwritten by `self.valid = valid` two lines later"),
    (r"Field\.rotate90$", r"drop keyword inplace=", "equivalent: inplace=False is Mesh.rotate90's default"),
    (r"array\.setter$", r"drop keyword dtype=", "the dtype of the stored array is C02's subject (C02.D9 reports it); shape and ownership are unaffected"),
]


def run(chk):
    cm.schema(chk, chk.repo, "C13")
    geom.table_exhaustive(chk, "C13")
    geom.write_site_audit(chk, "C13")
    geom.affine_maps(chk, "C13")
    geom.region_siblings(chk, "C13")
    geom.mesh_siblings(chk, "C13")
    geom.field_rotate_siblings(chk, "C13")
    geom.raise_after_effect(chk, "C13")
    geom.api_purity(chk, "C13")
    geom.refusal_table(chk, "C13")
    geom.defaults_table(chk, "C13")
    # "rotation as in C12": the rotation rules of C12 (same rule instances), and the mesh constructor's dispatch (C01)
    from . import c12, c01
    c12.d1_region_sense(chk, chk.repo)
    c12.d1_field_sense(chk, chk.repo)
    c12.d2_units(chk, chk.repo)
    c01.d10_argument_dispatch(chk, chk.repo)
    c01.d11_region_constructions(chk, chk.repo)
    chk.assume("invariants after sequences follow by induction from per-step preservation, which is what is decided; "
               "floating-point equality of in-place and copy results is not decided")
    chk.trust("np.minimum/np.maximum are element-wise min/max; np.add/np.subtract element-wise (numpy reference)")
