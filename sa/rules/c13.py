"""C13 - geometric invariants and in-place == copy after any transformation sequence."""
from . import geom

FLOOR = 120
ANCHORS = [
    'region.Region.__init__',
    'region.Region.scale',
    'region.Region.translate',
    'region.Region.rotate90',
    'region.Region.dims.setter',
    'region.Region.units.setter',
    'mesh.Mesh.__init__',
    'mesh.Mesh.scale',
    'mesh.Mesh.translate',
    'mesh.Mesh.rotate90',
    'field.Field.__init__',
    'field.Field.rotate90',
    'field.Field.array.setter',
]   # functions whose code the property is anchored in (mutation analysis, evidence)


def run(chk):
    geom.table_exhaustive(chk, "C13")
    geom.write_site_audit(chk, "C13")
    geom.affine_maps(chk, "C13")
    geom.region_siblings(chk, "C13")
    geom.mesh_siblings(chk, "C13")
    geom.field_rotate_siblings(chk, "C13")
    geom.raise_after_effect(chk, "C13")
    geom.api_purity(chk, "C13")
    chk.assume("invariants after sequences follow by induction from per-step preservation, which is what is decided; "
               "floating-point equality of in-place and copy results is not decided")
    chk.trust("np.minimum/np.maximum are element-wise min/max; np.add/np.subtract element-wise (numpy reference)")
