"""C15 - setting a norm rescales non-zero vectors only; orientation is the unit field."""
import ast

from ..model import AnalysisError
from ..lib import FV, decode_new, decode_call, phi_members, is_sym, is_const, is_str, strip_stores, stores_of
from ..lib import (reached_iff, reached_implies, implies_reached, reached_iff_any, path_term, cond_equiv, cond_implies,  # noqa: F401
                   else_stmts, branch_stmts, context_literals)
from ..cfg import always_raises, walk_stmts
from . import common as cm
from .common import FIELD
from .c01 import _single_return

FLOOR = 12
ANCHORS = [
    'field.Field.norm',
    'field.Field.norm.setter',
    'field.Field.orientation',
    'field.Field.__init__',
    'field.Field.update_field_values',
]   # functions whose code the property is anchored in (mutation analysis, evidence)

AUTOMUT_TRIAGE = [
    (r"Field\.__init__$", r"isinstance\((mesh|nvdim)|nvdim < 1", "argument validation of the constructor is decided by C02.D1/C13.D1 (write-site audit); "
     "the norm only depends on the order values -> norm -> validity, which is checked"),
    (r"update_field_values$", r"drop keyword dtype=", "the dtype of stored values is C02.D9's subject"),
]


def run(chk):
    repo = chk.repo
    cm.schema(chk, repo, "C15")
    chk.rule("C15.D1", "norm getter: Euclidean norm over the last axis with keepdims, as a one-component field on the same mesh "
                       "with the same unit and validity")
    v = FV(repo, "field.Field.norm")
    for r, a in cm.returned_news(v):
        val = a.get("value")
        ok = v.eq(val, v.spec("np.linalg.norm(self.array, axis=-1, keepdims=True)")) or \
            v.eq(val, v.spec("np.sqrt(np.sum(self.array ** 2, axis=-1, keepdims=True))"))
        chk.ob("field.Field.norm::euclidean-over-components", ok, "C15.D1",
               f"value={v.show(val)}; expected np.linalg.norm(self.array, axis=-1, keepdims=True)", v.f, r)
        okm = v.eq(a.get("mesh"), v.spec("self.mesh")) and is_const(v.ctx, a.get("nvdim", v.ctx.const(0)), 1) and \
            v.eq(a.get("unit"), v.spec("self.unit")) and v.eq(a.get("valid"), v.spec("self.valid"))
        chk.ob("field.Field.norm::metadata", okm, "C15.D1",
               f"mesh={v.show(a.get('mesh'))}, nvdim={v.show(a.get('nvdim'))}, unit={v.show(a.get('unit'))}, valid={v.show(a.get('valid'))}",
               v.f, r)

    if not cm.returned_news(v):
        # the norm is not constructed here but obtained from another Field operation: does that operation's result carry the
        # unit at all?  (results of the arithmetic operators and of dot / cross / angle are built without unit=)
        for r in v.returns():
            if r.value is None:
                continue
            t = v.ev.term(r.value, at=r)
            h = v.ctx.head_of(t)
            callee = None
            if h and h[0] in ("pow", "binop"):
                callee = "field.Field._apply_operator"
            elif t.single_atom() is None and not t.is_const():
                callee = "field.Field._apply_operator"        # arithmetic on fields
            elif h and h[0] == "call" and str(h[1]).startswith("Field."):
                m = repo.resolve_method(FIELD, str(h[1])[6:])
                callee = m.qual if m is not None else None
            if callee and repo.has_func(callee):
                w = FV(repo, callee)
                news = cm.returned_news(w)
                if news and all(a.get("unit") is None for r_, a in news):
                    chk.ob("field.Field.norm::metadata", False, "C15.D1",
                           f"the norm is returned as `{v.src(r.value)}`, i.e. built by {callee}, whose result is constructed "
                           "without unit=: the norm field loses the unit of the field", v.f, r)

    chk.rule("C15.D2", "norm setter: divide by the current norm only where it is non-zero (zero cells stay zero through a "
                       "zero-initialised out array), then multiply by the requested norm converted to shape (*n, 1); None leaves "
                       "the values alone")
    s = FV(repo, "field.Field.norm.setter")
    top = [x for x in s.body if isinstance(x, ast.If)]
    ok_none = len(top) == 1 and len(s.body) == 1 and s.eq(s.ev.term(top[0].test, at=top[0]), s.spec("val is not None")) and not top[0].orelse
    chk.ob("field.Field.norm.setter::none-is-noop", ok_none, "C15.D2", "the setter must do nothing for None", s.f)
    stores = [x for x in s.self_stores() if x[1] == "array"]
    div = [x for x in stores if x[3] == "assign"]
    mul = [x for x in stores if x[3] == "aug"]
    okd = False
    if len(div) == 1:
        t = s.term(div[0][2], at=div[0][0])
        want = s.spec("np.divide(self.array, self.norm.array, out=np.zeros_like(self.array), where=self.norm.array != 0.0)")
        okd = s.eq(t, want)
    chk.ob("field.Field.norm.setter::guarded-normalisation", okd, "C15.D2",
           "values must first become array / norm where norm != 0, with zeros elsewhere (out=np.zeros_like(array))", s.f,
           div[0][0] if div else None)
    okm = False
    if len(mul) == 1:
        st = mul[0][0]
        t = s.term(mul[0][2], at=st)
        okm = isinstance(st.op, ast.Mult) and s.eq(t, s.spec("self._as_array(val, self.mesh, nvdim=1, dtype=None)")) and \
            bool(div) and s.cfg.reachable(s.cfg.node(div[0][0]), s.cfg.node(st))
    chk.ob("field.Field.norm.setter::rescale", okm, "C15.D2",
           "then self.array *= _as_array(val, self.mesh, nvdim=1) (constant, per-cell array or function of position)", s.f,
           mul[0][0] if mul else None)

    chk.rule("C15.D3", "orientation: array / norm where the norm is not close to zero (np.isclose default absolute 1e-8), zero "
                       "elsewhere; labels, mapping and validity are kept")
    o = FV(repo, "field.Field.orientation")
    for r, a in cm.returned_news(o):
        val = a.get("value")
        want = o.spec("np.divide(self.array, self.norm.array, where=np.invert(np.isclose(self.norm.array, 0)), out=np.zeros_like(self.array))")
        chk.ob("field.Field.orientation::guarded-division", o.eq(val, want), "C15.D3",
               f"value={o.show(val)[:200]}; expected division where ~isclose(norm, 0) (default tolerances) into zeros", o.f, r)
        okk = all(o.eq(a.get(k), o.spec(f"self.{k}")) for k in ("mesh", "nvdim", "vdims", "valid", "vdim_mapping"))
        chk.ob("field.Field.orientation::metadata", okk, "C15.D3", "mesh, nvdim, vdims, valid and vdim_mapping must be kept", o.f, r)

    cm.no_dtype_narrowing(chk, repo, "C15", "C15.D1", ["field.Field.norm", "field.Field.orientation"],
                          "lengths and unit vectors are not integers - an integer-typed field would be truncated")
    chk.rule("C15.D4", "a norm is applied once: the constructor converts values, then applies the norm, then the validity; no "
                       "slot stores a norm and update_field_values does not refer to one")
    i = FV(repo, "field.Field.__init__")
    order = []
    for st in i.body:
        if isinstance(st, ast.Expr) and isinstance(st.value, ast.Call) and isinstance(st.value.func, ast.Attribute) \
                and st.value.func.attr == "update_field_values":
            order.append("values")
        for s_, a_, val, k in i.self_stores():
            if s_ is st and a_ == "norm":
                order.append("norm")
                chk.ob("field.Field.__init__::norm-from-argument", is_sym(i.ctx, i.term(val, at=st), "param:norm"), "C15.D4",
                       "the constructor must apply the norm argument", i.f, st)
            if s_ is st and a_ == "valid" and not (isinstance(val, ast.Constant) and val.value is True):
                order.append("valid")
    chk.ob("field.Field.__init__::values-norm-valid-order", order == ["values", "norm", "valid"], "C15.D4",
           f"constructor applies {order}; 'norm' validity needs the final lengths, so the order must be values, norm, valid", i.f)
    slots = repo.cls(FIELD).slots or []
    chk.ob("field.Field::no-norm-slot", not any("norm" in x for x in slots), "C15.D4",
           f"slots {slots}: a stored norm could be re-applied by later updates", i.f)
    u = FV(repo, "field.Field.update_field_values")
    chk.ob("field.Field.update_field_values::ignores-norm", "norm" not in ast.unparse(u.f.node).replace("update_field_values", ""),
           "C15.D4", "value updates must not re-apply an earlier norm", u.f)
    a = FV(repo, "field.Field.array.setter")
    chk.ob("field.Field.array.setter::ignores-norm", "norm" not in ast.unparse(a.f.node), "C15.D4",
           "assigning the array must not re-apply an earlier norm", a.f)
    chk.trust("np.divide(a, b, out=z, where=m) writes a/b where m holds and leaves z elsewhere; np.linalg.norm(axis=-1) is the "
              "Euclidean length per cell; np.isclose(x, 0) uses absolute tolerance 1e-8")
    chk.assume("exact lengths and directions for magnitudes between 1e-6 and 1e150 are not decided")
