"""C16 - VTK output puts each value in the grid cell a VTK reader finds at that position."""
import ast

from ..model import AnalysisError
from ..lib import (FV, decode_new, decode_call, phi_members, is_sym, is_const, is_str, strip_stores, stores_of, tuple_consts,
                   find_assign, find_assigns, simple_assigns, local_term)
from ..lib import (reached_iff, reached_implies, implies_reached, reached_iff_any, path_term, cond_equiv, cond_implies,  # noqa: F401
                   else_stmts, branch_stmts, context_literals)
from ..cfg import always_raises, walk_stmts
from . import common as cm
from . import geom
from .common import FIELD, MESH, REGION
from .c01 import each, _single_return
from .c08 import _find_transpose, _setname_map, d7_vtk_reader
from ..lib import cond_equiv, cond_implies, path_term

FLOOR = 21
ANCHORS = [
    'field.Field.to_vtk',
    'io.vtk._FieldIO_VTK._to_vtk',
    'io.vtk._FieldIO_VTK._from_vtk',
    'io.vtk._FieldIO_VTK._from_vtk_legacy',
]   # functions whose code the property is anchored in (mutation analysis, evidence)
VTK = "io.vtk._FieldIO_VTK."

AUTOMUT_TRIAGE = [
    (r"to_vtk$", r"`(if|elif) self\.nvdim == [13]:`", "which array a viewer shows first (SetActiveVectors/Scalars) is not part of the statement"),
    (r"_from_vtk_legacy$", r"cell\.append\(1e-9\)", "the spacing assumed for a single point is a free choice (documented as 1 nm), no file content contradicts it"),
]


def run(chk):
    repo = chk.repo
    cm.schema(chk, repo, "C16")
    d1_grid(chk, repo)
    d2_cell_arrays(chk, repo)
    d3_reader(chk, repo)
    d4_representations(chk, repo)
    d5_legacy(chk, repo)
    d6_legacy_details(chk, repo)
    chk.trust("VTK rectilinear grids number cells with x fastest, then y, then z; numpy_to_vtk keeps row order; GetBounds returns "
              "(xmin, xmax, ymin, ymax, zmin, zmax); GetDimensions returns point counts")
    chk.assume("what the VTK writers put on disk and what a foreign reader finds, and the ten-digit text precision, are not decided")


def d1_grid(chk, repo):
    chk.rule("C16.D1", "grid: point dimensions are n+1 per axis; X/Y/Z coordinates are mesh.vertices.<dims[0..2]> in that order; "
                       "fields that are not 3-d, and vector fields without labels, are refused")
    v = FV(repo, "field.Field.to_vtk")
    ok = False
    for call, st in v.calls():
        if isinstance(call.func, ast.Attribute) and call.func.attr == "SetDimensions":
            c = decode_call(v.ctx, v.term(call, at=st))
            ok = bool(c and len(c[1]) == 2 and v.eq(c[1][1], v.spec("S", env={"S": v.ctx.mk(("star",), (v.spec("(n + 1 for n in self.mesh.n)"),))})))
    chk.ob("field.Field.to_vtk::dimensions", ok, "C16.D1", "SetDimensions must receive n_i + 1 points per axis", v.f)
    okc = False
    for st in v.stmts():
        if isinstance(st, ast.For):
            it = v.term(st.iter, at=st)
            c = decode_call(v.ctx, it)
            if c and c[0] == "zip" and len(c[1]) == 2 and v.eq(c[1][0], v.spec("self.mesh.region.dims")):
                lst = c[1][1]
                names = []
                if (v.ctx.head_of(lst) or ("",))[0] == "list":
                    for x in v.ctx.args_of(lst):
                        h = v.ctx.head_of(x)
                        names.append(h[1] if h and h[0] in ("attr", "method") else None)
                order_ok = names == ["SetXCoordinates", "SetYCoordinates", "SetZCoordinates"]
                body_ok = False
                for s2 in st.body:
                    if isinstance(s2, ast.Expr):
                        t = v.term(s2.value, at=s2)
                        cc = decode_call(v.ctx, t)
                        if cc and cc[0] == "dyn" and len(cc[1]) == 2:
                            fn, arg = cc[1]
                            want = v.spec("vns.numpy_to_vtk(np.fromiter(getattr(self.mesh.vertices, d), float))",
                                          env={"d": each(v, v.spec("self.mesh.region.dims"))})
                            body_ok = v.eq(fn, each(v, lst)) and v.eq(arg, want)
                okc = order_ok and body_ok
    chk.ob("field.Field.to_vtk::coordinates", okc, "C16.D1",
           "the i-th setter of [SetXCoordinates, SetYCoordinates, SetZCoordinates] must receive mesh.vertices.<dims[i]>", v.f)
    first_effect = [s for s in v.body if isinstance(s, ast.Assign)][0]
    okg, det = v.guard("self.mesh.region.ndim != 3", exc=("RuntimeError",), before=first_effect)
    chk.ob("field.Field.to_vtk::refuses-non-3d", okg, "C16.D1", det, v.f)
    okg, det = v.guard("self.nvdim > 1 and self.vdims is None", exc=("AttributeError",), before=first_effect)
    chk.ob("field.Field.to_vtk::refuses-unlabelled-vectors", okg, "C16.D1", det, v.f)


def d2_cell_arrays(chk, repo):
    chk.rule("C16.D2", "every cell array (norm, each component, field, valid) is permuted (z,y,x[,c]) and flattened so that x is "
                       "fastest, carries the name the reader expects and is added to the cell data")
    v = FV(repo, "field.Field.to_vtk")
    names = _setname_map(v)
    want = {"field_norm": ("norm", "self.norm.array", (2, 1, 0, 3), "-1"),
            "field_array": ("field", "self.array", (2, 1, 0, 3), "(-1, self.nvdim)"),
            "valid_array": ("valid", "self.valid", (2, 1, 0), "-1")}
    found = {}
    for st in v.stmts():
        if isinstance(st, ast.Assign) and isinstance(st.targets[0], ast.Name):
            t = v.term(st.value, at=st)
            c = decode_call(v.ctx, t)
            if c and c[0].endswith("numpy_to_vtk"):
                found[st.targets[0].id] = (st, c[1][0])
    added = set()
    for call, st in v.calls():
        if isinstance(call.func, ast.Attribute) and call.func.attr == "AddArray" and call.args and isinstance(call.args[0], ast.Name):
            added.add(call.args[0].id)
    by_name = {names.get(var): var for var in found}
    for label, (src, perm, shape) in {x[0]: x[1:] for x in want.values()}.items():
        var = by_name.get(label)
        ok = False
        det = f"no array named {label!r}"
        if var:
            st, inner = found[var]
            c = decode_call(v.ctx, inner)
            tp = _find_transpose(v, inner)
            base = tp[1] if tp else None
            if base is not None:
                cb = decode_call(v.ctx, base)
                if cb and cb[0] == "astype":
                    base = cb[1][0]
            ok = bool(c and c[0] == ".reshape" and v.eq(c[1][1], v.spec(shape)) and tp and tp[0] == perm and
                      v.eq(base, v.spec(src)) and var in added)
            det = f"{label}: {v.show(inner)[:140]}, added to cell data: {var in added}"
        chk.ob(f"field.Field.to_vtk::array::{label}", ok, "C16.D2",
               f"{det}; expected {src}.transpose({perm}).reshape({shape})", v.f, found[var][0] if var else None)
    # per-component scalars
    okc = False
    for st in v.stmts():
        if isinstance(st, ast.For) and v.eq(v.term(st.iter, at=st), v.spec("self.vdims")):
            comp = each(v, v.spec("self.vdims"))
            arr_ok = name_ok = add_ok = False
            for s2 in st.body:
                if isinstance(s2, ast.Assign):
                    t = v.term(s2.value, at=s2)
                    arr_ok = v.eq(t, v.spec("vns.numpy_to_vtk(getattr(self, c).array.transpose((2, 1, 0, 3)).reshape(-1))", env={"c": comp}))
                if isinstance(s2, ast.Expr) and isinstance(s2.value, ast.Call) and isinstance(s2.value.func, ast.Attribute):
                    if s2.value.func.attr == "SetName":
                        name_ok = v.eq(v.term(s2.value.args[0], at=s2), v.spec("f'{c}'", env={"c": comp}))
                    if s2.value.func.attr == "AddArray":
                        add_ok = True
            conds = [(v.ev.term(c_, at=geom._if_stmt(v, c_)), pol) for c_, pol in v.cfg.path_condition(st)]
            okc = arr_ok and name_ok and add_ok and any(pol and v.eq(ct, v.spec("self.nvdim > 1")) for ct, pol in conds)
    chk.ob("field.Field.to_vtk::array::components", okc, "C16.D2",
           "for vector fields every component must be written as a scalar array named after its label, same permutation", v.f)


def d3_reader(chk, repo):
    chk.rule("C16.D3", "reader: n = point dimensions - 1; corners from bounds[::2] and bounds[1::2]; data and validity are reshaped "
                       "to reversed(n) and permuted back; arrays other than field/valid/norm are the labels (dropped unless their "
                       "count equals the component count); the side-car is loaded")
    v = FV(repo, VTK + "_from_vtk", self_type=FIELD)
    news = cm.returned_news(v)
    chk.require(news, "_from_vtk: no Field construction")
    r, a = news[0]
    d = decode_new(repo, v.ctx, a.get("mesh")) if a.get("mesh") is not None else None
    fo = find_assign(v, lambda t_, s_: (decode_call(v.ctx, t_) or ("",))[0] == ".GetOutput")
    out = fo[2] if fo else None
    chk.require(out is not None and d is not None, "_from_vtk: output / mesh construction vanished")
    env = {"O": out}
    okm = v.eq(d[1].get("p1"), v.spec("O.GetBounds()[::2]", env=env)) and v.eq(d[1].get("p2"), v.spec("O.GetBounds()[1::2]", env=env)) and \
        v.eq(d[1].get("n"), v.spec("[i - 1 for i in O.GetDimensions()]", env=env))
    chk.ob("io.vtk._from_vtk::mesh", okm, "C16.D3",
           f"mesh p1={v.show(d[1].get('p1'))[-30:]}, p2={v.show(d[1].get('p2'))[-30:]}, n={v.show(d[1].get('n'))[:60]}; expected "
           "bounds[::2], bounds[1::2], dimensions - 1", v.f, r)
    val = a.get("value")
    tp = _find_transpose(v, val)
    n_ = d[1].get("n")
    oks = False
    if tp and n_ is not None:
        c = decode_call(v.ctx, tp[1])
        oks = bool(tp[0] == (2, 1, 0, 3) and c and c[0] == ".reshape" and len(c[1]) == 3 and
                   v.eq(c[1][1], v.ctx.mk(("star",), (v.spec("reversed(N)", env={"N": n_}),))) and v.eq(c[1][2], a.get("nvdim")))
    chk.ob("io.vtk._from_vtk::data-order", oks, "C16.D3",
           f"value={v.show(val)[:120]}...; expected reshape(*reversed(n), dim).transpose((2, 1, 0, 3))", v.f, r)
    chk.ob("io.vtk._from_vtk::nvdim", a.get("nvdim") is not None and
           (decode_call(v.ctx, a["nvdim"]) or ("",))[0] == ".GetNumberOfComponents", "C16.D3",
           "nvdim must be the component count of the 'field' array", v.f, r)
    # label handling
    okl = False
    for st in v.stmts():
        if isinstance(st, ast.If):
            ct = v.ev.term(st.test, at=st)
            h = v.ctx.head_of(ct)
            if h == ("cmp", "ne") and any((decode_call(v.ctx, x) or ("",))[0] == "len" for x in v.ctx.args_of(ct)) and \
                    any(v.eq(x, a.get("nvdim")) for x in v.ctx.args_of(ct)):
                okl = any(isinstance(s2, ast.Assign) and isinstance(s2.value, ast.Constant) and s2.value.value is None for s2 in st.body)
    chk.ob("io.vtk._from_vtk::labels-need-matching-count", okl, "C16.D3",
           "labels are dropped (None) unless there are exactly as many as components", v.f)
    special = set()
    for n in ast.walk(v.f.node):
        # a name compared with array-name literals, whichever side the name is written on
        sides = [n.left] + list(n.comparators) if isinstance(n, ast.Compare) else []
        if any(isinstance(x, ast.Name) for x in sides) and \
                any(isinstance(x, ast.Constant) and x.value in ("field", "valid", "norm") for c_ in sides for x in ast.walk(c_)):
            for c_ in sides:
                for x in ast.walk(c_):
                    if isinstance(x, ast.Constant) and isinstance(x.value, str):
                        special.add(x.value)
    w = FV(repo, "field.Field.to_vtk")
    written = set(_setname_map(w).values())
    chk.ob("io.vtk::special-array-names-agree", special == {"field", "valid", "norm"} and special <= written, "C16.D3",
           f"reader treats {sorted(special)} as non-label arrays; writer names {sorted(written)}", v.f)
    okv = a.get("vdims") is not None and a.get("valid") is not None
    # which arrays are data, validity, labels (rule instances shared with C08.D7)
    d7_vtk_reader(chk, repo, rule="C16.D3")
    for call, st in v.calls():
        if isinstance(call.func, ast.Attribute) and call.func.attr == "append":
            loop = [p_ for p_, f_ in v.cfg.enclosing(st) if isinstance(p_, ast.For)]
            if not loop:
                continue
            arg = v.term(call.args[0], at=st)
            c_ = decode_call(v.ctx, arg)
            if not (c_ and c_[0] == ".GetArrayName"):
                continue
            pt = path_term(v, st)
            wants = v.spec("a != 'field' and a != 'valid' and a not in ['norm']", env={"a": arg})
            wants2 = v.spec("a != 'field' and a != 'valid' and a != 'norm'", env={"a": arg})
            chk.ob("io.vtk._from_vtk::labels-are-the-remaining-arrays", reached_iff(v, st, wants) or reached_iff(v, st, wants2), "C16.D3",
                   f"an array name becomes a label under {v.show(pt)[:200]}; expected: it is none of field, valid, norm", v.f, st)
    # reader kind follows the file header
    xml = find_assign(v, lambda t_, s_: (v.ctx.head_of(t_) or ("", ""))[:2] == ("cmp", "in") and any(is_str(v.ctx, x, "xml") for x in v.ctx.args_of(t_)))
    okx = False
    if xml is not None:
        for st in v.stmts():
            if isinstance(st, ast.If) and v.eq(v.ev.term(st.test, at=st), xml[2]):
                b = [v.show(v.term(s2.value, at=s2)) for s2 in st.body if isinstance(s2, ast.Assign)]
                e = [v.show(v.term(s2.value, at=s2)) for s2 in st.orelse if isinstance(s2, ast.Assign)]
                okx = any("vtkXMLRectilinearGridReader" in x for x in b) and any("vtkRectilinearGridReader" in x and "XML" not in x for x in e)
    chk.ob("io.vtk._from_vtk::xml-reader-iff-xml-file", okx, "C16.D3",
           "the XML reader must be used exactly for files whose first line contains 'xml', the legacy-format reader otherwise", v.f)
    chk.ob("io.vtk._from_vtk::passes-labels-and-validity", okv, "C16.D3", "vdims and valid must be passed to the constructor", v.f, r)
    oksc = False
    for st in v.stmts():
        if isinstance(st, ast.With) and "suppress(FileNotFoundError)" in ast.unparse(st.items[0].context_expr):
            oksc = any(isinstance(s2, ast.Expr) and isinstance(s2.value, ast.Call) and isinstance(s2.value.func, ast.Attribute) and
                       s2.value.func.attr == "load_subregions" for s2 in st.body)
    chk.ob("io.vtk._from_vtk::side-car-loaded", oksc, "C16.D3", "mesh.load_subregions(filename) must be attempted", v.f)


def d4_representations(chk, repo):
    chk.rule("C16.D4", "representations: xml -> XML writer; bin/bin8/txt -> legacy writer (ASCII for txt, binary otherwise); anything "
                       "else is refused; the grid written is self.to_vtk(); the side-car is written iff subregions exist")
    v = FV(repo, VTK + "_to_vtk", self_type=FIELD)
    from ..lib import values_reaching, _OTHER
    rep = v.ev._sym("param:representation")
    sel = {}
    for st, nm, wt in simple_assigns(v):
        sh = v.show(wt)
        kind = "xml" if "vtkXMLRectilinearGridWriter" in sh else ("legacy" if "vtkRectilinearGridWriter" in sh else None)
        if kind:
            vals = values_reaching(v, st, rep)
            sel.setdefault(kind, set()).update(vals if vals is not None else {None})
    refused = set()
    for r_, n_ in v.raises():
        if n_ == "ValueError":
            vals = values_reaching(v, r_, rep)
            refused |= (vals if vals is not None else {None})
    okx = sel.get("xml") == {"xml"}
    okb = sel.get("legacy") == {"bin", "bin8", "txt"} and _OTHER in refused
    chk.ob("io.vtk._to_vtk::writer-selection", okx and okb, "C16.D4",
           "xml -> vtkXMLRectilinearGridWriter; bin/bin8/txt -> vtkRectilinearGridWriter; otherwise ValueError", v.f)
    modes = {}
    for st in v.stmts():
        if isinstance(st, ast.If):
            for s2 in st.body:
                if isinstance(s2, ast.Expr) and isinstance(s2.value, ast.Call) and isinstance(s2.value.func, ast.Attribute) and \
                        s2.value.func.attr.startswith("SetFileTypeTo"):
                    modes[s2.value.func.attr] = v.ev.term(st.test, at=st)
    okm = "SetFileTypeToASCII" in modes and v.eq(modes["SetFileTypeToASCII"], v.spec("representation == 'txt'")) and \
        "SetFileTypeToBinary" in modes and v.eq(modes["SetFileTypeToBinary"], v.spec("representation in ['bin', 'bin8']"))
    chk.ob("io.vtk._to_vtk::file-type", okm, "C16.D4", "txt -> ASCII, bin/bin8 -> binary", v.f)
    oki = any(isinstance(c.func, ast.Attribute) and c.func.attr == "SetInputData" and c.args and
              v.eq(v.term(c.args[0], at=s), v.spec("self.to_vtk()")) for c, s in v.calls())
    okw = any(isinstance(c.func, ast.Attribute) and c.func.attr == "Write" for c, s in v.calls())
    chk.ob("io.vtk._to_vtk::writes-own-grid", oki and okw, "C16.D4", "the writer must be given self.to_vtk() and asked to Write()", v.f)
    oks = False
    for st in v.stmts():
        if isinstance(st, ast.If) and v.eq(v.ev.term(st.test, at=st), v.spec("save_subregions and self.mesh.subregions")):
            oks = any(isinstance(s2, ast.Expr) and v.eq(v.term(s2.value, at=s2), v.spec("self.mesh.save_subregions(filename)", at=s2))
                      for s2 in st.body)
    chk.ob("io.vtk._to_vtk::side-car-written", oks, "C16.D4",
           "self.mesh.save_subregions(filename) must run iff save_subregions and the mesh has subregions", v.f)
    t = FV(repo, "io._FieldIO.to_file", self_type=FIELD)
    for call, st in t.calls():
        if isinstance(call.func, ast.Attribute) and call.func.attr == "_to_vtk":
            kw = {k.arg: t.term(k.value, at=st) for k in call.keywords if k.arg}
            ok = all(is_sym(t.ctx, kw.get(n_, t.ctx.const(0)), f"param:{n_}") for n_ in ("representation", "save_subregions"))
            chk.ob("io._FieldIO.to_file::vtk-options-forwarded", ok, "C16.D4",
                   "representation and save_subregions must be forwarded to _to_vtk", t.f, call)


def d5_legacy(chk, repo):
    chk.rule("C16.D5", "legacy point-data files: taken iff the grid has no cell arrays; values are assigned one per cell in "
                       "mesh.indices order")
    v = FV(repo, VTK + "_from_vtk", self_type=FIELD)
    ok = False
    for st in v.stmts():
        if isinstance(st, ast.If) and st.body and isinstance(st.body[-1], ast.Return):
            ct = v.ev.term(st.test, at=st)
            h = v.ctx.head_of(ct)
            if h == ("cmp", "eq") and any(is_const(v.ctx, x, 0) for x in v.ctx.args_of(ct)) and \
                    any((decode_call(v.ctx, x) or ("",))[0] == ".GetNumberOfArrays" for x in v.ctx.args_of(ct)):
                c = decode_call(v.ctx, v.ev.term(st.body[-1].value, at=st.body[-1]))
                ok = bool(c and c[0].endswith("_from_vtk_legacy"))
    chk.ob("io.vtk._from_vtk::legacy-dispatch", ok, "C16.D5", "files without cell arrays must go to _from_vtk_legacy", v.f)
    l = FV(repo, VTK + "_from_vtk_legacy", self_type=FIELD)
    oko = False
    for st in l.stmts():
        if isinstance(st, ast.For):
            it = l.term(st.iter, at=st)
            c = decode_call(l.ctx, it)
            if c and c[0] == "zip" and len(c[1]) == 2:
                h0 = l.ctx.head_of(c[1][0])
                if h0 and h0[0] == "prop" and h0[1] == "indices":
                    for s2 in walk_stmts(st.body):
                        if isinstance(s2, ast.Assign) and isinstance(s2.targets[0], ast.Subscript):
                            idx = l.ev._index(s2.targets[0].slice, l.cfg.node(s2), None)
                            oko = l.eq(idx, each(l, c[1][0]))
    chk.ob("io.vtk._from_vtk_legacy::values-in-mesh-order", oko, "C16.D5",
           "line k of the data block must be stored at the k-th index of mesh.indices", l.f)
    sites = l.ctor_sites(FIELD)
    chk.ob("io.vtk._from_vtk_legacy::field-construction", bool(sites) and all("nvdim" in s.args and not s.unbound_kw for s in sites),
           "C16.D5", "the legacy reader must build Field(mesh, nvdim=dim)", l.f)


def d6_legacy_details(chk, repo):
    chk.rule("C16.D6", "legacy point-data files: VECTORS means three components with data right after the marker, otherwise one "
                       "component with one LOOKUP_TABLE line to skip; per axis the point count is the second word of the "
                       "*_COORDINATES line and the coordinates are on the next line; points are cell centres, so the region starts "
                       "half a cell before the first point and spans n cells; data line k goes to the k-th mesh index")
    l = FV(repo, VTK + "_from_vtk_legacy", self_type=FIELD)
    # format table
    top = None
    for st in l.body:
        if isinstance(st, ast.If) and st.orelse:
            ct = l.ev.term(st.test, at=st)
            if (l.ctx.head_of(ct) or ("", ""))[:2] in (("cmp", "in"), ("cmp", "notin")) and \
                    any(is_str(l.ctx, x, "VECTORS") for x in l.ctx.args_of(ct)):
                top = st
                negated = l.ctx.head_of(ct)[1] == "notin"
    chk.require(top is not None, "_from_vtk_legacy: the VECTORS test vanished")

    def consts(block):
        out = {}
        for s2 in block:
            if isinstance(s2, ast.Assign) and isinstance(s2.value, ast.Constant) and isinstance(s2.targets[0], ast.Name):
                out[s2.targets[0].id] = s2.value.value
        return out
    cb, ce = consts(top.body), consts(top.orelse)
    if negated:
        cb, ce = ce, cb
    okt = sorted(map(repr, cb.values())) == sorted(map(repr, [3, "VECTORS", 0])) and \
        sorted(map(repr, ce.values())) == sorted(map(repr, [1, "SCALARS", 1])) and set(cb) == set(ce)
    chk.ob("io.vtk._from_vtk_legacy::format-table", okt, "C16.D6",
           f"VECTORS branch sets {cb}, other branch {ce}; expected (3, 'VECTORS', skip 0) and (1, 'SCALARS', skip 1)", l.f, top)
    roles = {}
    for name in cb:
        pair = (cb[name], ce.get(name))
        if pair == (3, 1):
            roles["dim"] = name
        elif pair == (0, 1):
            roles["skip"] = name
        elif pair == ("VECTORS", "SCALARS"):
            roles["marker"] = name
    # metadata appends
    apps = []
    for call, st in l.calls():
        if isinstance(call.func, ast.Attribute) and call.func.attr == "append" and isinstance(call.func.value, ast.Name) and call.args:
            apps.append((call.func.value.id, l.term(call.args[0], at=st), st))
    lines = find_assign(l, lambda t_, s_: (decode_call(l.ctx, t_) or ("",))[0] == ".split" and is_str(l.ctx, decode_call(l.ctx, t_)[1][1], "\n"))
    chk.require(lines is not None and len(apps) >= 4, "_from_vtk_legacy: line list or metadata appends vanished")
    L = lines[2]
    line = l.ctx.mk(("iter", ()), (L,))
    idx = l.ctx.mk(("index",), (L,))
    coords = l.spec("list(map(float, L[i + 1].split()))", env={"L": L, "i": idx})
    want = {"count": l.spec("int(x.split()[1])", env={"x": line}), "first": l.spec("c[0]", env={"c": coords}),
            "step": l.spec("c[1] - c[0]", env={"c": coords})}
    got = {}
    for nm, t_, st in apps:
        for k_, w_ in want.items():
            if l.eq(t_, w_):
                got[k_] = (nm, st)
    chk.ob("io.vtk._from_vtk_legacy::metadata-values", set(got) == {"count", "first", "step"}, "C16.D6",
           f"found {sorted(got)} among the appended values {[l.show(t_)[:60] for nm, t_, st in apps]}; expected the point count "
           "(second word of the marker line), the first coordinate and the spacing (second minus first) of the NEXT line", l.f)
    if set(got) == {"count", "first", "step"}:
        st = got["step"][1]
        pt = path_term(l, st)
        from ..lib import if_stmt_of as _ifs
        mts = []
        for test_, pol_, syn_ in l.cfg.must_literals(st):
            t_ = l.ev.term(test_, at=_ifs(l, test_))
            t_ = t_ if pol_ else l.ev._not(t_)
            if (l.ctx.head_of(t_) or ("", ""))[:2] == ("cmp", "in"):
                mts.append(t_)
        okc = bool(mts) and reached_iff(l, st, l.ev._bool("and", [mts[-1], l.spec("len(c) > 1", env={"c": coords})]),
                                       [l.spec("len(c)", env={"c": coords})])
        chk.ob("io.vtk._from_vtk_legacy::spacing-needs-two-points", okc, "C16.D6",
               f"the spacing is taken under {l.show(pt)[:160]}; expected: the line belongs to a coordinate marker and has at least two "
               "coordinates", l.f, st)
        ms = l.ctor_sites(MESH)
        chk.require(ms, "_from_vtk_legacy: no Mesh construction")
        sm = ms[0]
        N = local_term(l, got["count"][0], sm.stmt)
        O = local_term(l, got["first"][0], sm.stmt)
        C = local_term(l, got["step"][0], sm.stmt)
        reg = decode_new(repo, l.ctx, sm.args.get("region")) if sm.args.get("region") is not None else None
        want_p1 = l.spec("np.subtract(o, np.multiply(c, 0.5))", env={"o": O, "c": C})
        want_p2 = l.spec("np.add(p, np.multiply(n, c))", env={"p": want_p1, "n": N, "c": C})
        okg = bool(reg and reg[0] == REGION and l.eq(reg[1].get("p1"), want_p1) and l.eq(reg[1].get("p2"), want_p2)) and \
            sm.args.get("n") is not None and l.eq(sm.args["n"], N)
        chk.ob("io.vtk._from_vtk_legacy::region-from-cell-centres", okg, "C16.D6",
               "expected Mesh(region=Region(p1=first - spacing/2, p2=p1 + n*spacing), n=n)", l.f, sm.call)
    # data block
    for st in l.stmts():
        if isinstance(st, ast.For):
            c = decode_call(l.ctx, l.term(st.iter, at=st))
            if c and c[0] == "zip" and len(c[1]) == 2 and (l.ctx.head_of(c[1][0]) or ("", ""))[:2] == ("prop", "indices"):
                sl = c[1][1]
                start = find_assign(l, lambda t_, s_: l.eq(t_, idx) and any(isinstance(p_, ast.If) for p_, f_ in l.cfg.enclosing(s_)))
                oks = False
                if start is not None and "skip" in roles:
                    S = local_term(l, start[1], st)
                    K = local_term(l, roles["skip"], st)
                    oks = l.eq(sl, l.spec("L[s + k + 1:]", env={"L": L, "s": S, "k": K}))
                    par = l.cfg.parent.get(id(start[0]))
                    if oks and par and isinstance(par[0], ast.If) and "marker" in roles:
                        oks = l.eq(l.ev.term(par[0].test, at=par[0]),
                                   l.spec("x.startswith(m)", env={"x": line, "m": local_term(l, roles["marker"], par[0])}))
                chk.ob("io.vtk._from_vtk_legacy::data-block-start", oks, "C16.D6",
                       f"data lines are {l.show(sl)[:160]}; expected the lines after the marker line plus the skipped table line", l.f, st)
                for s2 in walk_stmts(st.body):
                    if isinstance(s2, ast.Assign) and isinstance(s2.targets[0], ast.Subscript):
                        dl = l.ctx.mk(("iter", ()), (sl,))
                        okd = reached_iff(l, s2, l.spec("not x[0].isalpha()", env={"x": dl})) and \
                            l.eq(l.term(s2.value, at=s2), l.spec("list(map(float, x.split()))", env={"x": dl}))
                        chk.ob("io.vtk._from_vtk_legacy::data-lines", okd, "C16.D6",
                               f"`{l.src(s2)}` under {l.show(path_term(l, s2))[:120]}; expected: numeric lines (not starting with a "
                               "letter) parsed as floats", l.f, s2)
