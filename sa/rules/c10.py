"""C10 - HDF5 files preserve the complete state of a field."""
import ast

from ..model import AnalysisError
from ..lib import (FV, decode_new, decode_call, phi_members, is_sym, is_const, is_str, strip_stores, stores_of, cond_equiv,
                   path_term)
from ..lib import full_term  # noqa: F401
from ..lib import (reached_iff, reached_implies, implies_reached, reached_iff_any, path_term, cond_equiv, cond_implies,  # noqa: F401
                   else_stmts, branch_stmts, context_literals)
from ..cfg import always_raises, walk_stmts
from . import common as cm
from . import geom
from .common import FIELD, MESH, REGION
from .c01 import each, _single_return

FLOOR = 26
ANCHORS = [
    'io.hdf5._RegionIO_HDF5._h5_save',
    'io.hdf5._RegionIO_HDF5._h5_load',
    'io.hdf5._MeshIO_HDF5._h5_save',
    'io.hdf5._MeshIO_HDF5._h5_load',
    'io.hdf5._FieldIO_HDF5._to_hdf5',
    'io.hdf5._FieldIO_HDF5._h5_save_structure',
    'io.hdf5._FieldIO_HDF5._h5_save_data',
    'io.hdf5._FieldIO_HDF5._from_hdf5',
    'io.hdf5._FieldIO_HDF5._h5_load_field',
    'io.hdf5._FieldIO_HDF5._h5_legacy_load_field',
]   # functions whose code the property is anchored in (mutation analysis, evidence)
H5 = "io.hdf5."


def h5_traffic(v):
    """what a function writes to / reads from HDF5 objects:
    writes: [(kind, key term, value term or None, node)]   kind in attr|dataset|group
    reads:  [(kind, key term, node)]                        kind in attr|item"""
    writes, reads = [], []
    for st in v.stmts():
        if isinstance(st, ast.Assign):
            for t in st.targets:
                if isinstance(t, ast.Subscript) and isinstance(t.value, ast.Attribute) and t.value.attr == "attrs":
                    writes.append(("attr", v.ev._index(t.slice, v.cfg.node(st), None), v.term(st.value, at=st), st))
    for call, st in v.calls():
        if isinstance(call.func, ast.Attribute) and call.func.attr in ("create_dataset", "create_group") and call.args:
            kind = "dataset" if call.func.attr == "create_dataset" else "group"
            writes.append((kind, v.term(call.args[0], at=st), None, call))
    for st in v.stmts():
        for n in ast.walk(st) if not isinstance(st, (ast.FunctionDef, ast.ClassDef)) else []:
            if isinstance(n, ast.Subscript) and isinstance(n.ctx, ast.Load):
                if isinstance(n.value, ast.Attribute) and n.value.attr == "attrs":
                    try:
                        reads.append(("attr", v.ev._index(n.slice, v.cfg.node(v.owner(n)), None), n))
                    except AnalysisError:
                        pass
                elif isinstance(n.slice, ast.Constant) and isinstance(n.slice.value, str) and isinstance(n.value, ast.Name):
                    try:
                        bt = v.term(n.value, at=v.owner(n))
                    except AnalysisError:
                        continue
                    if _is_h5(v, bt):
                        reads.append(("item", v.term(n.slice), n))
    return writes, reads


def _is_h5(v, t, depth=0):
    """is the value an HDF5 file / group handle: a parameter annotated h5py.*, h5py.File(...), a created group or an item of one"""
    if depth > 6:
        return False
    h = v.ctx.head_of(t)
    if not h:
        return False
    if h[0] == "sym" and h[1].startswith("param:"):
        pname = h[1][6:]
        for a in v.f.node.args.posonlyargs + v.f.node.args.args + v.f.node.args.kwonlyargs:
            if a.arg == pname and a.annotation is not None and "h5py" in ast.unparse(a.annotation):
                return True
        return False
    if h[0] == "with":
        return "h5py.File" in v.show(v.ctx.args_of(t)[0])[:40]
    if h[0] == "call" and h[1] in (".create_group", "h5py.File"):
        return True
    if h[0] == "sub":
        return _is_h5(v, v.ctx.args_of(t)[0], depth + 1)
    if h[0] == "phi":
        return any(_is_h5(v, x, depth + 1) for x in v.ctx.args_of(t))
    return False


def strs(v, ts):
    out = set()
    for t in ts:
        h = v.ctx.head_of(t)
        if h and h[0] == "str":
            out.add(h[1])
    return out


def run(chk):
    repo = chk.repo
    cm.schema(chk, repo, "C10")
    d1_region(chk, repo)
    d1_mesh(chk, repo)
    d1_field(chk, repo)
    d3_sentinels(chk, repo)
    d4_dtypes(chk, repo)
    d5_legacy(chk, repo)
    d6_region_kwargs(chk, repo)
    d7_conditions(chk, repo)
    chk.trust("h5py stores attribute / dataset values of numpy and str type and returns them as written; assigning into a dataset "
              "casts to the dataset's declared dtype")
    chk.assume("bit-identical values and h5py's own behaviour are not decided; a field's dtype slot is not restored (an int field "
               "is read back as float64 with equal values) - Field equality ignores dtype")


def d1_region(chk, repo):
    chk.rule("C10.D1", "exhaustiveness: every state slot of Region, Mesh and Field has a writer site and a matching reader "
                       "keyword; names written == names read per group")
    ci = repo.cls(H5 + "_RegionIO_HDF5")
    attrs_node = ci.class_attrs.get("_h5_attrs")
    chk.require(attrs_node is not None, "_RegionIO_HDF5._h5_attrs vanished")
    attrs = list(ast.literal_eval(attrs_node))
    slots = [s.lstrip("_") for s in (repo.cls(REGION).slots or [])]
    missing = [s for s in slots if s not in attrs]
    chk.ob("io.hdf5._RegionIO_HDF5::attrs-cover-slots", not missing, "C10.D1",
           f"Region state {slots} vs saved attributes {attrs}: not saved {missing}", repo.func(H5 + "_RegionIO_HDF5._h5_save"))
    v = FV(repo, H5 + "_RegionIO_HDF5._h5_save", self_type=REGION)
    loops = [s for s in v.stmts() if isinstance(s, ast.For)]
    ok = False
    if len(loops) == 1:
        it = v.term(loops[0].iter, at=loops[0])
        a = each(v, it)
        w, _ = h5_traffic(v)
        ok = v.eq(it, v.spec("self._h5_attrs")) and len(w) == 1 and v.eq(w[0][1], a) and \
            v.eq(w[0][2], v.ctx.mk(("call", "getattr", 2, ()), (v.spec("self"), a)))
    chk.ob("io.hdf5._RegionIO_HDF5._h5_save::every-attr", ok, "C10.D1",
           "must store attrs[a] = getattr(self, a) for every a in _h5_attrs", v.f)
    v = FV(repo, H5 + "_RegionIO_HDF5._h5_load", self_type=REGION)
    r, t = _single_return(v)
    want = v.spec("cls(**{a: h5_region.attrs[a] for a in cls._h5_attrs})")
    chk.ob("io.hdf5._RegionIO_HDF5._h5_load::every-attr", v.eq(t, want), "C10.D1",
           f"returns {v.show(t)[:160]}; expected cls(**{{a: h5_region.attrs[a] for a in cls._h5_attrs}})", v.f, r)
    init = repo.func("region.Region.__init__")
    named = set(init.named_params) - {"self"}
    kw_read = set()
    for n in ast.walk(init.node):
        if isinstance(n, ast.Subscript) and isinstance(n.value, ast.Name) and n.value.id == "kwargs" and \
                isinstance(n.slice, ast.Constant):
            kw_read.add(n.slice.value)
    unknown = [a for a in attrs if a not in named and a not in kw_read]
    for a in unknown:
        chk.note(f"Region._h5_load passes {a}=..., which Region.__init__ swallows in **kwargs (redundant, harmless)")
    lost = [s for s in slots if s not in named and s not in kw_read]
    chk.ob("region.Region.__init__::accepts-saved-state", not lost, "C10.D1",
           f"saved attributes {lost} are neither parameters of Region.__init__ nor read from its **kwargs", init)


def d1_mesh(chk, repo):
    v = FV(repo, H5 + "_MeshIO_HDF5._h5_save", self_type=MESH)
    w, _ = h5_traffic(v)
    keys = strs(v, [x[1] for x in w])
    # attrs written in a loop over a literal list
    for st in v.stmts():
        if isinstance(st, ast.For) and isinstance(st.iter, (ast.List, ast.Tuple)):
            for e in st.iter.elts:
                if isinstance(e, ast.Constant):
                    a = each(v, v.term(st.iter, at=st))
                    for kind, kt, val, node in w:
                        if kind == "attr" and v.eq(kt, a) and val is not None and \
                                v.eq(val, v.ctx.mk(("call", "getattr", 2, ()), (v.spec("self"), a))):
                            keys.add(e.value)
    need = {"region", "n", "bc", "subregion_names", "subregions"}
    chk.ob("io.hdf5._MeshIO_HDF5._h5_save::state-written", need <= keys, "C10.D1",
           f"writes {sorted(keys)}; Mesh state needs {sorted(need)}", v.f)
    regsave = any(isinstance(c.func, ast.Attribute) and c.func.attr == "_h5_save" and ast.unparse(c.func.value) == "self.region"
                  for c, s in v.calls())
    chk.ob("io.hdf5._MeshIO_HDF5._h5_save::region-saved", regsave, "C10.D1", "the region must be saved into its group", v.f)
    # subregion rows: [*pmin, *pmax] in the order of subregions.values(); names from subregions.keys()
    ok_names = ok_rows = False
    for call, st in v.calls():
        if isinstance(call.func, ast.Attribute) and call.func.attr == "create_dataset" and call.args:
            k = v.term(call.args[0], at=st)
            kw = {x.arg: v.term(x.value, at=st) for x in call.keywords if x.arg}
            if is_str(v.ctx, k, "subregion_names"):
                ok_names = "data" in kw and v.eq(kw["data"], v.spec("list(self.subregions.keys())"))
    for st in v.stmts():
        if isinstance(st, ast.For):
            it = v.term(st.iter, at=st)
            if v.eq(it, v.spec("enumerate(self.subregions.values())")):
                for s2 in st.body:
                    if isinstance(s2, ast.Assign) and isinstance(s2.targets[0], ast.Subscript):
                        idx = v.ev._index(s2.targets[0].slice, v.cfg.node(s2), None)
                        val = v.term(s2.value, at=s2)
                        sr = v.ctx.mk(("iter", ()), (v.spec("self.subregions.values()"),))
                        i_ = v.ctx.mk(("index",), (v.spec("self.subregions.values()"),))
                        ok_rows = v.eq(idx, i_) and v.eq(val, v.spec("[*sr.pmin, *sr.pmax]", env={"sr": sr}))
    chk.ob("io.hdf5._MeshIO_HDF5._h5_save::subregion-names", ok_names, "C10.D1",
           "subregion_names must be list(self.subregions.keys())", v.f)
    chk.ob("io.hdf5._MeshIO_HDF5._h5_save::subregion-rows", ok_rows, "C10.D1",
           "row i of the subregion table must be [*pmin, *pmax] of the i-th subregion (same order as the names)", v.f)
    r = FV(repo, H5 + "_MeshIO_HDF5._h5_load", self_type=MESH)
    _, rd = h5_traffic(r)
    rkeys = strs(r, [x[1] for x in rd])
    chk.ob("io.hdf5._MeshIO_HDF5::keys-agree", need <= rkeys and rkeys <= keys | {"region"}, "C10.D1",
           f"writer keys {sorted(keys)} vs reader keys {sorted(rkeys)}", r.f)
    for ret, a in cm.returned_news(r, cls=MESH):
        ok = a.get("region") is not None and r.eq(a["region"], r.spec("df.Region._h5_load(h5_mesh['region'])")) and \
            a.get("n") is not None and r.eq(a["n"], r.spec("h5_mesh.attrs['n']")) and \
            a.get("bc") is not None and r.eq(a["bc"], r.spec("h5_mesh.attrs['bc']")) and "subregions" in a
        chk.ob("io.hdf5._MeshIO_HDF5._h5_load::ctor", ok, "C10.D1",
               "the mesh must be rebuilt from the saved region, n, bc and subregions", r.f, ret)
        sub = a.get("subregions")
        want = r.spec("{name.decode('utf-8'): df.Region(p1=data[:R.ndim], p2=data[R.ndim:]) for name, data in "
                      "zip(h5_mesh['subregion_names'], h5_mesh['subregions'])}", env={"R": r.spec("df.Region._h5_load(h5_mesh['region'])")})
        mem = phi_members(r.ctx, sub) if sub is not None else []
        chk.ob("io.hdf5._MeshIO_HDF5._h5_load::subregions", any(r.eq(m, want) for m in mem), "C10.D1",
               f"subregions={r.show(sub)[:220] if sub is not None else None}: each row must be split at ndim into (p1, p2) and paired "
               "with the name at the same position", r.f, ret)


def d1_field(chk, repo):
    v = FV(repo, H5 + "_FieldIO_HDF5._h5_save_structure", self_type=FIELD)
    w, _ = h5_traffic(v)
    keys = strs(v, [x[1] for x in w])
    need = {"mesh", "nvdim", "vdims", "unit", "array", "valid"}
    chk.ob("io.hdf5._FieldIO_HDF5._h5_save_structure::state-written", need <= keys, "C10.D1",
           f"writes {sorted(keys)}; Field state needs {sorted(need)}", v.f)
    vals = {list(strs(v, [k]))[0]: val for kind, k, val, n in w if val is not None and strs(v, [k])}
    chk.ob("io.hdf5._FieldIO_HDF5._h5_save_structure::nvdim", "nvdim" in vals and v.eq(vals["nvdim"], v.spec("self.nvdim")),
           "C10.D1", "attrs['nvdim'] must be self.nvdim", v.f)
    meshsave = any(isinstance(c.func, ast.Attribute) and c.func.attr == "_h5_save" and ast.unparse(c.func.value) == "self.mesh"
                   for c, s in v.calls())
    chk.ob("io.hdf5._FieldIO_HDF5._h5_save_structure::mesh-saved", meshsave, "C10.D1", "the mesh must be saved into its group", v.f)
    d = FV(repo, H5 + "_FieldIO_HDF5._h5_save_data", self_type=FIELD)
    sts = [s for s in d.stmts() if isinstance(s, ast.Assign) and isinstance(s.targets[0], ast.Subscript)]
    chk.ob("io.hdf5._FieldIO_HDF5._h5_save_data::array", len(sts) == 1 and d.eq(d.term(sts[0].value, at=sts[0]), d.spec("self.array")),
           "C10.D1", "the data set must receive self.array", d.f)
    t = FV(repo, H5 + "_FieldIO_HDF5._to_hdf5", self_type=FIELD)
    tw, _ = h5_traffic(t)
    tk = strs(t, [x[1] for x in tw])
    shape_ok = False
    for call, st in t.calls():
        if isinstance(call.func, ast.Attribute) and call.func.attr == "_h5_save_structure":
            kw = {x.arg: t.term(x.value, at=st) for x in call.keywords if x.arg}
            shape_ok = "data_shape" in kw and t.eq(kw["data_shape"], t.spec("(*self.mesh.n, self.nvdim)"))
    chk.ob("io.hdf5._FieldIO_HDF5._to_hdf5::layout", {"field", "ubermag-hdf5-file-version", "type"} <= tk and shape_ok, "C10.D1",
           f"file-level keys {sorted(tk)}; data shape (*n, nvdim): {shape_ok}", t.f)
    r = FV(repo, H5 + "_FieldIO_HDF5._h5_load_field", self_type=FIELD)
    _, rd = h5_traffic(r)
    rkeys = strs(r, [x[1] for x in rd])
    chk.ob("io.hdf5._FieldIO_HDF5::keys-agree", need <= rkeys and rkeys <= keys, "C10.D1",
           f"writer keys {sorted(keys)} vs reader keys {sorted(rkeys)}", r.f)
    for ret, a in cm.returned_news(r):
        ok = a.get("mesh") is not None and r.eq(a["mesh"], r.spec("df.Mesh._h5_load(h5_field['mesh'])")) and \
            a.get("nvdim") is not None and r.eq(a["nvdim"], r.spec("h5_field.attrs['nvdim']")) and \
            a.get("value") is not None and r.eq(a["value"], r.spec("h5_field['array'][data_location]")) and \
            a.get("valid") is not None and r.eq(a["valid"], r.spec("h5_field['valid']")) and "vdims" in a and "unit" in a
        chk.ob("io.hdf5._FieldIO_HDF5._h5_load_field::ctor", ok, "C10.D1",
               "the field must be rebuilt from the saved mesh, nvdim, array, vdims, unit and valid", r.f, ret)
    f = FV(repo, H5 + "_FieldIO_HDF5._from_hdf5", self_type=FIELD)
    _, frd = h5_traffic(f)
    fk = strs(f, [x[1] for x in frd])
    chk.ob("io.hdf5._FieldIO_HDF5._from_hdf5::keys-agree", {"field", "ubermag-hdf5-file-version", "type"} <= fk | {"field"} and
           fk - {"field"} <= tk, "C10.D1", f"reader consults {sorted(fk)}; writer provides {sorted(tk)}", f.f)


def d3_sentinels(chk, repo):
    chk.rule("C10.D3", "sentinel symmetry: a slot that may be None and is written through a None-substituting encoder "
                       "('None' string, str(x)) must be mapped back to None by the reader")
    w = FV(repo, H5 + "_FieldIO_HDF5._h5_save_structure", self_type=FIELD)
    r = FV(repo, H5 + "_FieldIO_HDF5._h5_load_field", self_type=FIELD)
    wr, _ = h5_traffic(w)
    news = cm.returned_news(r)
    chk.require(news, "_h5_load_field: no construction")
    ret, a = news[0]
    for slot in ("vdims", "unit"):
        val = None
        for kind, k, v_, n in wr:
            if kind == "attr" and is_str(w.ctx, k, slot):
                val = v_
        chk.require(val is not None, f"writer does not store attrs['{slot}']")
        sentinel = None
        h = w.ctx.head_of(val)
        c = decode_call(w.ctx, val)
        if h and h[0] == "ifexp":
            for x in w.ctx.args_of(val)[1:]:
                hx = w.ctx.head_of(x)
                if hx and hx[0] == "str":
                    sentinel = hx[1]
        elif c and c[0] == "str" and len(c[1]) == 1:
            sentinel = "None"
        elif w.eq(val, w.spec(f"self.{slot}")):
            sentinel = None
        if sentinel is None:
            chk.ob(f"io.hdf5::{slot}::none-encoding", w.eq(val, w.spec(f"self.{slot}")) is False, "C10.D3",
                   f"attrs['{slot}'] = {w.show(val)}: h5py cannot store None, a sentinel is required", w.f)
            continue
        got = a.get(slot)
        mem = phi_members(r.ctx, got) if got is not None else []
        has_none = any(is_const(r.ctx, m, None) for m in mem)
        raw = r.spec(f"h5_field.attrs['{slot}']")
        has_raw = any(r.eq(m, raw) for m in mem)
        # the None member must be selected by a comparison with the sentinel
        cmp_ok = False
        for st in r.stmts():
            if isinstance(st, ast.If):
                ct = r.ev.term(st.test, at=st)
                for aid in r.ctx.all_atoms(ct) | ({ct.single_atom()} if ct.single_atom() is not None else set()):
                    hd, ar = r.ctx.atoms[aid]
                    if hd == ("cmp", "eq") and any(is_str(r.ctx, x, sentinel) for x in ar) and any(r.eq(x, raw) for x in ar):
                        sets_none = any(isinstance(s2, ast.Assign) and isinstance(s2.value, ast.Constant) and s2.value.value is None
                                        for s2 in st.body)
                        cmp_ok = cmp_ok or sets_none
        chk.ob(f"io.hdf5::{slot}::sentinel-decoded", has_none and has_raw and cmp_ok, "C10.D3",
               f"writer stores {w.show(val)} (None becomes '{sentinel}'); reader passes {slot}={r.show(got)}: "
               f"it must map '{sentinel}' back to None", r.f, ret)


def d4_dtypes(chk, repo):
    chk.rule("C10.D4", "dtype adequacy: the declared dtype of a dataset must cover everything assigned into it (h5py casts on "
                       "assignment): array <- self.array.dtype, valid <- Boolean, subregion table <- a dtype derived from the "
                       "subregion corners themselves (or floating point)")
    v = FV(repo, H5 + "_MeshIO_HDF5._h5_save", self_type=MESH)
    for call, st in v.calls():
        if isinstance(call.func, ast.Attribute) and call.func.attr == "create_dataset" and call.args and \
                is_str(v.ctx, v.term(call.args[0], at=st), "subregions"):
            kw = {x.arg: v.term(x.value, at=st) for x in call.keywords if x.arg}
            dt = kw.get("dtype")
            ok = False
            det = "no dtype"
            if dt is not None:
                det = v.show(dt)[:160]
                c = decode_call(v.ctx, dt)
                if is_sym(v.ctx, dt, "float") or is_sym(v.ctx, dt, "np.float64"):
                    ok = True
                elif c and c[0] == "np.result_type":
                    heads = v.ctx.heads_in(dt)
                    ok = any(h[0] == "attr" and h[1] == "_subregions" for h in heads) and \
                        any((h[0] == "attr" and h[1] in ("_pmin", "pmin")) or (h[0] == "prop" and h[1] == "pmin") for h in heads) and \
                        any((h[0] == "attr" and h[1] in ("_pmax", "pmax")) or (h[0] == "prop" and h[1] == "pmax") for h in heads)
            elif "data" in kw:
                ok = True
                det = "dtype inferred from data"
            chk.ob("io.hdf5._MeshIO_HDF5._h5_save::subregion-table-dtype", ok, "C10.D4",
                   f"the subregion table is declared with dtype {det} but receives the corners of every subregion, whose dtype is "
                   "independent of the mesh region's (float subregion corners in an integer-cornered region are truncated)", v.f, call)
    w = FV(repo, H5 + "_FieldIO_HDF5._h5_save_structure", self_type=FIELD)
    for call, st in w.calls():
        if isinstance(call.func, ast.Attribute) and call.func.attr == "create_dataset" and call.args:
            k = w.term(call.args[0], at=st)
            kw = {x.arg: w.term(x.value, at=st) for x in call.keywords if x.arg}
            if is_str(w.ctx, k, "array"):
                chk.ob("io.hdf5._FieldIO_HDF5._h5_save_structure::array-dtype", "dtype" in kw and
                       w.eq(kw["dtype"], w.spec("self.array.dtype")), "C10.D4",
                       f"array dataset dtype {w.show(kw.get('dtype'))}; must be self.array.dtype (real stays real, complex complex)",
                       w.f, call)
            if is_str(w.ctx, k, "valid"):
                chk.ob("io.hdf5._FieldIO_HDF5._h5_save_structure::valid-dtype", "dtype" in kw and
                       (is_sym(w.ctx, kw["dtype"], "np.bool_") or is_sym(w.ctx, kw["dtype"], "bool")) and
                       "data" in kw and w.eq(kw["data"], w.spec("self.valid")), "C10.D4",
                       f"valid dataset: {w.src(call)}", w.f, call)
    # ... and the reader hands the stored dtype back: without it the constructor promotes every real array to float64
    # (int64 / float32 values come back as float64 - equal numbers, but not the bits that were written)
    for q, key in ((H5 + "_FieldIO_HDF5._h5_load_field", "array"), (H5 + "_FieldIO_HDF5._h5_legacy_load_field", "field/array")):
        r = FV(repo, q, self_type=FIELD)
        news = cm.returned_news(r)
        chk.require(news, f"{q}: no Field construction")
        ret, a = news[0]
        dt, val = a.get("dtype"), a.get("value")
        ok = False
        if dt is not None and val is not None:
            hd = r.ctx.head_of(dt)
            if hd and hd[0] == "attr" and hd[1] == "dtype":
                src = r.ctx.args_of(dt)[0]
                # the dataset the values are read from (value = dataset[...] / dataset[:])
                hv = r.ctx.head_of(val)
                ok = bool(hv and hv[0] == "sub" and r.eq(r.ctx.args_of(val)[0], src))
        chk.ob(f"{q.split('.', 2)[-1]}::stored-dtype-restored", ok, "C10.D4",
               f"dtype={r.show(dt) if dt is not None else None}: the reader must pass the dtype of the dataset it reads the values from "
               "(the constructor's default promotes int and float32 arrays to float64)", r.f, ret)


def d5_legacy(chk, repo):
    chk.rule("C10.D5", "legacy layout: files without the version attribute go to the legacy reader, whose Field construction "
                       "binds every keyword to a parameter and supplies nvdim")
    f = FV(repo, H5 + "_FieldIO_HDF5._from_hdf5", self_type=FIELD)
    ok = False
    # the legacy reader is returned exactly when the version attribute is missing (any nesting / orientation)
    for r_ in f.returns():
        if r_.value is None:
            continue
        c = decode_call(f.ctx, f.ev.term(r_.value, at=r_))
        if not (c and c[0].endswith("._h5_legacy_load_field")):
            continue
        full = full_term(f, r_)
        tests = [t_ for t_ in ([full] if f.ctx.head_of(full) != ("and",) else list(f.ctx.args_of(full)))]
        for ct in tests:
            if f.ctx.head_of(ct) == ("cmp", "notin"):
                k_, obj = f.ctx.args_of(ct)
                ho = f.ctx.head_of(obj)
                if is_str(f.ctx, k_, "ubermag-hdf5-file-version") and bool(ho) and ho[0] == "attr" and ho[1] == "attrs" \
                        and _is_h5(f, f.ctx.args_of(obj)[0]):
                    ok = reached_iff(f, r_, ct)
    chk.ob("io.hdf5._FieldIO_HDF5._from_hdf5::legacy-dispatch", ok, "C10.D5",
           "files without 'ubermag-hdf5-file-version' must be handed to _h5_legacy_load_field", f.f)
    v = FV(repo, H5 + "_FieldIO_HDF5._h5_legacy_load_field", self_type=FIELD)
    sites = v.ctor_sites(FIELD)
    chk.require(sites, "legacy reader: no Field construction")
    for i, s in enumerate(sites):
        ok = "nvdim" in s.args and not s.unbound_kw and "mesh" in s.args and "value" in s.args
        chk.ob(f"io.hdf5._FieldIO_HDF5._h5_legacy_load_field::ctor#{i}", ok, "C10.D5",
               f"`{v.src(s.call)}`: keywords swallowed by **kwargs {s.unbound_kw}, nvdim supplied: {'nvdim' in s.args} - "
               "Field.__init__ raises TypeError for nvdim=None, so every legacy file would be refused", v.f, s.call)
        if "nvdim" in s.args:
            chk.ob(f"io.hdf5._FieldIO_HDF5._h5_legacy_load_field::ctor#{i}::nvdim-from-dim", v.eq(
                s.args["nvdim"], v.spec("np.array(h5_file['field/dim']).tolist()")), "C10.D5",
                f"nvdim={v.show(s.args['nvdim'])}; the legacy layout stores it in field/dim", v.f, s.call)


def d6_region_kwargs(chk, repo):
    chk.rule("C10.D6", "Region(pmin=, pmax=) (used when loading) refuses unordered corners and then takes the ordinary path")
    v = FV(repo, "region.Region.__init__")
    ok = False
    for st in v.body:
        if isinstance(st, ast.If) and v.eq(v.ev.term(st.test, at=st), v.spec("'pmin' in kwargs and 'pmax' in kwargs")):
            has_guard = False
            rebinding = False
            for s2 in st.body:
                if isinstance(s2, ast.If) and always_raises(s2.body):
                    ct = v.ev.term(s2.test, at=s2)
                    has_guard = v.eq(ct, v.spec("not all(np.asarray(kwargs['pmin']) < np.asarray(kwargs['pmax']))"))
                if isinstance(s2, ast.Assign) and isinstance(s2.targets[0], ast.Tuple) and \
                        [getattr(e, "id", None) for e in s2.targets[0].elts] == ["p1", "p2"]:
                    t = v.term(s2.value, at=s2)
                    rebinding = v.eq(t, v.spec("(kwargs['pmin'], kwargs['pmax'])"))
            ok = has_guard and rebinding
    chk.ob("region.Region.__init__::pmin-pmax-keywords", ok, "C10.D6",
           "with pmin/pmax keywords: raise unless pmin < pmax element-wise, then p1, p2 = pmin, pmax", v.f)


# ------------------------------------------------------------------ D7
def d7_conditions(chk, repo):
    chk.rule("C10.D7", "conditions and shapes of the layout: the subregion datasets exist exactly when there are subregions, one "
                       "row of 2*ndim numbers each; the reader rebuilds subregions exactly when the dataset exists; the None "
                       "sentinel of the labels is written for None and decoded for the string 'None' only; the file type and "
                       "version gates refuse foreign files, not our own; the legacy mesh is built from both corners and n")
    v = FV(repo, H5 + "_MeshIO_HDF5._h5_save", self_type=MESH)
    n_sub = v.spec("len(self.subregions)")
    for call, st in v.calls():
        if isinstance(call.func, ast.Attribute) and call.func.attr == "create_dataset" and call.args:
            k = v.term(call.args[0], at=st)
            if is_str(v.ctx, k, "subregions") or is_str(v.ctx, k, "subregion_names"):
                key = "subregions" if is_str(v.ctx, k, "subregions") else "subregion_names"
                ok = reached_iff(v, st, v.spec("len(self.subregions) > 0"), [n_sub])
                chk.ob(f"io.hdf5._MeshIO_HDF5._h5_save::{key}::iff-subregions-exist", ok, "C10.D7",
                       f"dataset '{key}' is created under {v.show(path_term(v, st))}; expected: at least one subregion "
                       "(empty tables cannot be typed, and a single subregion must not be lost)", v.f, st)
                if key == "subregions":
                    shp = v.term(call.args[1], at=st) if len(call.args) > 1 else None
                    oks = shp is not None and v.eq(shp, v.spec("(len(self.subregions), 2 * self.region.ndim)"))
                    chk.ob("io.hdf5._MeshIO_HDF5._h5_save::subregions::shape", oks, "C10.D7",
                           f"shape {v.show(shp) if shp is not None else None}; expected one row per subregion holding pmin and pmax", v.f, st)
    r = FV(repo, H5 + "_MeshIO_HDF5._h5_load", self_type=MESH)
    for st in r.stmts():
        if isinstance(st, ast.Assign) and isinstance(st.value, ast.DictComp):
            ok = reached_iff(r, st, r.spec("'subregions' in h5_mesh"))
            chk.ob("io.hdf5._MeshIO_HDF5._h5_load::subregions-iff-dataset", ok, "C10.D7",
                   f"subregions are rebuilt under {r.show(path_term(r, st))}; expected: the file has a 'subregions' dataset", r.f, st)
    # labels sentinel: written for None, decoded for 'None'
    w = FV(repo, H5 + "_FieldIO_HDF5._h5_save_structure", self_type=FIELD)
    okw = False
    for st in w.stmts():
        if isinstance(st, ast.Assign) and isinstance(st.targets[0], ast.Subscript):
            idx = w.ev._index(st.targets[0].slice, w.cfg.node(st), None)
            if is_str(w.ctx, idx, "vdims"):
                okw = w.eq(w.term(st.value, at=st), w.spec("self.vdims if self.vdims is not None else 'None'"))
                wst = st
    chk.ob("io.hdf5._h5_save_structure::labels-sentinel-for-none", okw, "C10.D7",
           "attrs['vdims'] must be the labels, and the word 'None' exactly when there are none", w.f)
    ld = FV(repo, H5 + "_FieldIO_HDF5._h5_load_field", self_type=FIELD)
    for st in ld.stmts():
        if isinstance(st, ast.If) and any(isinstance(s2, ast.Assign) and isinstance(s2.value, ast.Constant) and s2.value.value is None
                                          for s2 in st.body):
            ct = ld.ev.term(st.test, at=st)
            if any(hd == ("str", "vdims") for hd in ld.ctx.heads_in(ct)):
                raw = ld.spec("h5_field.attrs['vdims']")
                want = ld.spec("isinstance(x, str) and x == 'None'", env={"x": raw})
                chk.ob("io.hdf5._h5_load_field::labels-sentinel-decoded-for-the-word-only", cond_equiv(ld, ct, want), "C10.D7",
                       f"labels become None under {ld.show(ct)}; expected: the stored value is the string 'None' (label arrays "
                       "must not be compared with a string)", ld.f, st)
    # gates of the top-level reader
    f = FV(repo, H5 + "_FieldIO_HDF5._from_hdf5", self_type=FIELD)
    gates = 0
    for rs, name in f.raises():
        par = f.cfg.parent.get(id(rs))
        if par and isinstance(par[0], ast.If) and par[1] == "body":
            ct = f.ev.term(par[0].test, at=par[0])
            if any(hd == ("str", "type") for hd in f.ctx.heads_in(ct)):
                gates += 1
                hd = f.ctx.head_of(ct)
                ok = bool(hd and hd == ("cmp", "ne") and any(is_str(f.ctx, x, "discretisedfield.Field") for x in f.ctx.args_of(ct)))
                chk.ob("io.hdf5._from_hdf5::type-gate", ok, "C10.D7",
                       f"`{f.src(par[0].test)}` raises: files whose type attribute is NOT 'discretisedfield.Field' are refused", f.f, par[0])
    for st in f.stmts():
        if isinstance(st, ast.Assert):
            ct = f.ev.term(st.test, at=st)
            if any(hd == ("str", "ubermag-hdf5-file-version") for hd in f.ctx.heads_in(ct)):
                gates += 1
                hd = f.ctx.head_of(ct)
                ok = bool(hd and hd[0] == "cmp" and hd[1] in ("in", "eq"))
                lst = f.ctx.args_of(ct)[1] if ok else None
                ok = ok and "0.1" in f.show(lst)
                chk.ob("io.hdf5._from_hdf5::version-gate", ok, "C10.D7",
                       f"`{f.src(st.test)}`: the version the writer emits ('0.1') must be accepted", f.f, st)
    wv = FV(repo, H5 + "_FieldIO_HDF5._to_hdf5", self_type=FIELD)
    # legacy mesh
    lg = FV(repo, H5 + "_FieldIO_HDF5._h5_legacy_load_field", self_type=FIELD)
    ms = lg.ctor_sites(MESH)
    chk.require(ms, "legacy reader: no Mesh construction")
    for i, sm in enumerate(ms):
        reg = sm.args.get("region")
        d = decode_new(repo, lg.ctx, reg) if reg is not None else None
        ok = bool(d and d[0] == REGION and lg.eq(d[1].get("p1"), lg.spec("tuple(h5_file['field/mesh/region/p1'])")) and
                  lg.eq(d[1].get("p2"), lg.spec("tuple(h5_file['field/mesh/region/p2'])"))) and \
            sm.args.get("n") is not None and lg.eq(sm.args["n"], lg.spec("np.array(h5_file['field/mesh/n']).tolist()"))
        chk.ob(f"io.hdf5._h5_legacy_load_field::mesh#{i}", ok, "C10.D7",
               f"`{lg.src(sm.call)}`: the legacy mesh is Region(p1, p2) of the stored corners with the stored n", lg.f, sm.call)
