"""C20 - matplotlib plots draw the field's own numbers at their physical coordinates."""
import ast

from ..model import AnalysisError
from ..lib import (FV, Alias, alias_term, decode_new, decode_call, phi_members, is_sym, is_const, is_str, strip_stores, stores_of,
                   find_assign, find_assigns, simple_assigns, local_term, cond_equiv, cond_implies, path_term)
from ..lib import full_term  # noqa: F401
from ..lib import (reached_iff, reached_implies, implies_reached, reached_iff_any, path_term, cond_equiv, cond_implies,  # noqa: F401
                   else_stmts, branch_stmts, context_literals)
from ..cfg import always_raises, walk_stmts
from . import common as cm
from . import geom
from .common import FIELD, MESH, REGION
from .c01 import each, _single_return
from .c08 import write_effects

FLOOR = 40
ANCHORS = [
    'plotting.mpl_field.MplField.__init__',
    'plotting.mpl_field.MplField.__call__',
    'plotting.mpl_field.MplField.scalar',
    'plotting.mpl_field.MplField.lightness',
    'plotting.mpl_field.MplField.vector',
    'plotting.mpl_field.MplField.contour',
    'plotting.mpl_field.MplField._setup_multiplier',
    'plotting.mpl_field.MplField._filter_values',
    'plotting.mpl_field.MplField._axis_labels',
    'plotting.mpl_field.MplField._extent',
    'plotting.util.inplane_angle',
    'plotting.util.normalise_to_range',
    'plotting.util.hls2rgb',
]   # functions whose code the property is anchored in (mutation analysis, evidence)
MPL = "plotting.mpl_field.MplField"
PU = "plotting.util."
METHODS = ["__call__", "scalar", "lightness", "vector", "contour", "_filter_values", "_extent", "_axis_labels",
           "_setup_multiplier"]
PT = {"filter_field": FIELD, "lightness_field": FIELD, "color_field": FIELD, "field": FIELD}

AUTOMUT_TRIAGE = [
    (r"\.lightness$", r"cw_ax\.|colorwheel", "the colour-wheel inset is decoration"),
    (r"\.lightness$", r"drop keyword (figsize|colorwheel\w*|filename)=", "figure size, colour wheel and file name are presentation options"),
    (r"\.scalar$", r"symmetric_clim|vmin|vmax|clim", "colour limits do not change the numbers handed to matplotlib"),
    (r"__call__$", r"_kw|setdefault", "keyword plumbing of presentation options (colour use, colour bar)"),
    (r"\.vector$", r"use_color|colorbar|color_field|len\(vdims\)|arrow_x is None", "colouring options and label-count refusals; the arrow "
     "components and positions are checked (C20.D2/D4)"),
    (r"hls2rgb$", r"lightness|saturation", "lightness/saturation scaling are colour choices; the hue (the field's angle) is checked"),
    (r"normalise_to_range$", r"int_round|round|astype", "integer rounding is not used for colours"),
    (r"inplane_angle$", r"drop keyword unit=", "the unit label of the angle field is not drawn"),
    (r"inplane_angle$", r"angle_array < 0.*Lt->LtE", "equivalent for colours: hue 0 and hue 1 (angle 0 and 2 pi) are the same colour"),
    (r"\.lightness$", r"drop keyword saturation=", "equivalent: None is hls2rgb's default saturation"),
    (r"\.vector$", r"self\.field\.nvdim != 3", "decides only whether automatic colouring is possible (a warning and use_color=False)"),
]


def run(chk):
    repo = chk.repo
    cm.schema(chk, repo, "C20")
    d1_purity(chk, repo)
    d2_geometry(chk, repo)
    d3_orientation(chk, repo)
    d4_components(chk, repo)
    d5_hiding(chk, repo)
    d6_refusals(chk, repo)
    d7_selection(chk, repo)
    chk.trust("matplotlib imshow(A, origin='lower', extent=[x0,x1,y0,y1]) shows A[row, col] with rows along y; quiver/contour(X, Y, "
              "U...) take arrays indexed [y, x]")
    chk.assume("what matplotlib renders is not decided")


# ------------------------------------------------------------------ D1
def direct_mutations(v, al):
    """parameter names whose memory the function may write itself"""
    out = set()
    for st, what, roots in write_effects(v, al):
        for r in roots:
            if r.startswith("param:"):
                out.add(r[6:].split(".")[0])
    return out


def d1_purity(chk, repo):
    chk.rule("C20.D1", "plotting never modifies the field, its mesh or its validity: no write in any plotting method or helper "
                       "targets memory reachable from self.field, and every argument handed to a helper that writes into its "
                       "parameter (_filter_values, normalise_to_range via hls2rgb) is freshly allocated w.r.t. the field")
    al, _ = cm.make_alias(repo)
    helpers = {MPL + "._filter_values": None, PU + "normalise_to_range": None, PU + "hls2rgb": None, PU + "inplane_angle": None}
    views = {}
    for q in helpers:
        views[q] = FV(repo, q, param_types=PT)
        helpers[q] = direct_mutations(views[q], al)
    # transitive: hls2rgb passes its parameters to normalise_to_range
    changed = True
    while changed:
        changed = False
        for q, v in views.items():
            for call, st in v.calls():
                tgt = _resolve(call)
                if tgt in helpers and helpers[tgt]:
                    callee = repo.func(tgt)
                    for pname, arg in _bind(callee, call).items():
                        if pname in helpers[tgt]:
                            roots = al.roots(v.ctx, alias_term(v, arg, at=st))
                            for r in roots:
                                if r.startswith("param:") and r[6:].split(".")[0] not in helpers[q]:
                                    helpers[q].add(r[6:].split(".")[0])
                                    changed = True
    chk.note(f"mutating helpers: { {k.split('.')[-1]: sorted(v) for k, v in helpers.items()} }")
    chk.ob("plotting.util.normalise_to_range::writes-its-argument", "values" in helpers[PU + "normalise_to_range"], "C20.D1",
           "(premise) normalise_to_range works in place on the array it is given - callers must pass copies", views[PU + "normalise_to_range"].f,
           nontrivial=False)
    for m in METHODS:
        v = FV(repo, f"{MPL}.{m}", param_types=PT)
        bad = []
        for st, what, roots in write_effects(v, al):
            hit = sorted(r for r in roots if r.startswith("self.field"))
            if hit:
                bad.append(f"`{v.src(st)[:70]}` ({what}) writes into {hit}")
        for call, st in v.calls():
            tgt = _resolve(call)
            if tgt in helpers and helpers[tgt]:
                callee = repo.func(tgt)
                for pname, arg in _bind(callee, call).items():
                    if pname in helpers[tgt]:
                        roots = al.roots(v.ctx, alias_term(v, arg, at=st))
                        hit = sorted(r for r in roots if r.startswith("self.field"))
                        if hit:
                            bad.append(f"`{v.src(call)[:80]}` passes {pname}={v.src(arg)[:50]}, which shares memory with {hit}, to a helper "
                                       "that writes into that argument")
        chk.ob(f"{MPL}.{m}::does-not-modify-field", not bad, "C20.D1", "; ".join(bad[:3]) or "no write reaches self.field", v.f)
    w = FV(repo, PU + "inplane_angle", param_types=PT)
    bad = [f"`{w.src(st)[:60]}` writes into {sorted(r)}" for st, what, r in write_effects(w, al) if any(x.startswith("param:field") for x in r)]
    chk.ob(PU + "inplane_angle::does-not-modify-field", not bad, "C20.D1", "; ".join(bad) or "the angle array is freshly allocated", w.f)
    chk.note("lightness() lets normalise_to_range write into a user-supplied lightness_field's array (reshape view, no copy): "
             "outside the letter of C20 (that field is not the plotted one); noted, not reported")


def _resolve(call):
    f = call.func
    if isinstance(f, ast.Attribute) and isinstance(f.value, ast.Name):
        if f.value.id == "self" and f.attr == "_filter_values":
            return MPL + "._filter_values"
        if f.value.id == "plot_util":
            return PU + f.attr
    if isinstance(f, ast.Name) and f.id in ("normalise_to_range", "hls2rgb", "inplane_angle"):
        return PU + f.id
    return None


def _bind(callee, call):
    a = callee.node.args
    pn = [x.arg for x in a.posonlyargs + a.args]
    if pn and pn[0] == "self":
        pn = pn[1:]
    out = {}
    for i, arg in enumerate(call.args):
        if i < len(pn) and not isinstance(arg, ast.Starred):
            out[pn[i]] = arg
    for k in call.keywords:
        if k.arg:
            out[k.arg] = k.value
    return out


# ------------------------------------------------------------------ D2
def d2_geometry(chk, repo):
    chk.rule("C20.D2", "geometry: extent = [pmin0, pmax0, pmin1, pmax1] of the region scaled by 1/multiplier about the origin; images "
                       "use origin='lower' and that extent; arrows/contours sit at cells[0|1]/multiplier; x label from dims[0]/units[0], "
                       "y label from dims[1]/units[1] with the multiplier's prefix")
    v = FV(repo, MPL + "._extent", param_types=PT)
    r, t = _single_return(v)
    R = v.spec("self.field.mesh.region.scale(1 / multiplier, (0, 0))")
    R2 = v.spec("self.field.mesh.region.scale(1 / multiplier, reference_point=(0, 0))")
    ok = any(v.eq(t, v.spec("[R.pmin[0], R.pmax[0], R.pmin[1], R.pmax[1]]", env={"R": x})) for x in (R, R2))
    chk.ob(MPL + "._extent::definition", ok, "C20.D2", f"extent = {v.show(t)[:200]}", v.f, r)
    v = FV(repo, MPL + "._axis_labels", param_types=PT)
    lab = {}
    for call, st in v.calls():
        if isinstance(call.func, ast.Attribute) and call.func.attr in ("set_xlabel", "set_ylabel"):
            lab[call.func.attr] = v.term(call.args[0], at=st)
    for k, i in (("set_xlabel", 0), ("set_ylabel", 1)):
        want = v.spec("f'{self.field.mesh.region.dims[%d]} ({uu.rsi_prefixes[multiplier]}{self.field.mesh.region.units[%d]})'" % (i, i))
        chk.ob(f"{MPL}._axis_labels::{k}", k in lab and v.eq(lab[k], want), "C20.D2",
               f"{k}({v.show(lab.get(k))[:120] if k in lab else None}); expected dims[{i}] (prefix units[{i}])", v.f)
    v = FV(repo, MPL + "._setup_multiplier", param_types=PT)
    r, t = _single_return(v)
    chk.ob(MPL + "._setup_multiplier::default", v.eq(t, v.spec("self.field.mesh.region.multiplier if multiplier is None else multiplier")),
           "C20.D2", f"returns {v.show(t)}", v.f, r)
    for m, fn in (("scalar", "imshow"), ("lightness", "imshow")):
        v = FV(repo, f"{MPL}.{m}", param_types=PT)
        for call, st in v.calls():
            if isinstance(call.func, ast.Attribute) and call.func.attr == fn and isinstance(call.func.value, ast.Name) and call.func.value.id == "ax":
                kw = {k.arg: v.term(k.value, at=st) for k in call.keywords if k.arg}
                ok = is_str(v.ctx, kw.get("origin", v.ctx.const(0)), "lower") and "extent" in kw and \
                    v.eq(kw["extent"], v.spec("self._extent(M)", env={"M": v.spec("self._setup_multiplier(multiplier)")}))
                chk.ob(f"{MPL}.{m}::image-placement", ok, "C20.D2",
                       f"`{v.src(call)[:100]}`: origin='lower' and extent=self._extent(multiplier) required", v.f, call)
    for m, fn in (("vector", "quiver"), ("contour", "contour")):
        v = FV(repo, f"{MPL}.{m}", param_types=PT)
        M = v.spec("self._setup_multiplier(multiplier)")
        want = [v.spec("self.field.mesh.cells[0] / M", env={"M": M}), v.spec("self.field.mesh.cells[1] / M", env={"M": M})]
        for call, st in v.calls():
            if isinstance(call.func, ast.Attribute) and call.func.attr == fn and isinstance(call.func.value, ast.Name) and call.func.value.id == "ax":
                t = v.term(call, at=st)
                c = decode_call(v.ctx, t)
                pos = c[1][1:3] if c else []
                if m == "vector" and c:
                    star = c[1][1]
                    lst = v.ctx.args_of(star)[0] if (v.ctx.head_of(star) or ("",))[0] == "star" else None
                    bases = strip_stores(v.ctx, lst) if lst is not None else []
                    pos = v.ctx.args_of(bases[0])[:2] if bases and (v.ctx.head_of(bases[0]) or ("",))[0] == "list" else []
                ok = len(pos) == 2 and v.eq(pos[0], want[0]) and v.eq(pos[1], want[1])
                chk.ob(f"{MPL}.{m}::positions", ok, "C20.D2",
                       f"positions {[v.show(p)[:70] for p in pos]}; expected cells[0]/multiplier, cells[1]/multiplier", v.f, call)



def _quiver_list(v):
    """the list literal that collects the quiver arguments (positions and the two component arrays) -> (stmt, name, term)"""
    for st in v.stmts():
        if isinstance(st, ast.Assign) and isinstance(st.targets[0], ast.Name) and isinstance(st.value, ast.List) and \
                len(st.value.elts) == 4:
            return st, st.targets[0].id, v.term(st.value, at=st)
    return None


def _filtered_values(v):
    """the array handed to _filter_values in this method -> (call, stmt, term)"""
    for c, s in v.calls():
        if isinstance(c.func, ast.Attribute) and c.func.attr == "_filter_values" and len(c.args) >= 2:
            return c, s, v.term(c.args[1], at=s)
    return None


# ------------------------------------------------------------------ D3
def _transposed_once(v, t, base_pred):
    """t == np.transpose(X[, perm]) / X.transpose() with X not transposed again and base_pred(X)"""
    c = decode_call(v.ctx, t)
    if not c or c[0] not in ("np.transpose", ".transpose"):
        return False
    x = c[1][0]
    inner = decode_call(v.ctx, x)
    if inner and inner[0] in ("np.transpose", ".transpose"):
        return False
    if len(c[1]) > 1:
        from ..lib import tuple_consts
        p = tuple_consts(v.ctx, c[1][1])
        if p is None or tuple(p[:2]) != (1, 0):
            return False
    return base_pred(x)


def d3_orientation(chk, repo):
    chk.rule("C20.D3", "orientation: every (n0, n1[, c]) array handed to imshow / quiver / contour is transposed exactly once "
                       "(matplotlib wants [y, x])")
    v = FV(repo, MPL + ".scalar", param_types=PT)
    vals = v.spec("self.field.array.copy().reshape(self.field.mesh.n)")
    for call, st in v.calls():
        if isinstance(call.func, ast.Attribute) and call.func.attr == "imshow":
            t = v.term(call.args[0], at=st)
            ok = _transposed_once(v, t, lambda x: all(v.eq(b, vals) for b in strip_stores(v.ctx, x)))
            chk.ob(MPL + ".scalar::image-transposed", ok, "C20.D3", f"imshow({v.show(t)[:120]}); expected np.transpose(values)", v.f, call)
    v = FV(repo, MPL + ".contour", param_types=PT)
    for call, st in v.calls():
        if isinstance(call.func, ast.Attribute) and call.func.attr == "contour" and len(call.args) >= 3:
            t = v.term(call.args[2], at=st)
            ok = _transposed_once(v, t, lambda x: all(v.eq(b, v.spec("self.field.array.copy().reshape(self.field.mesh.n)")) for b in strip_stores(v.ctx, x)))
            chk.ob(MPL + ".contour::values-transposed", ok, "C20.D3", f"contour(..., {v.show(t)[:100]}); expected np.transpose(values)", v.f, call)
    v = FV(repo, MPL + ".lightness", param_types=PT)
    for call, st in v.calls():
        if isinstance(call.func, ast.Attribute) and call.func.attr == "imshow" and isinstance(call.func.value, ast.Name) and call.func.value.id == "ax":
            t = v.term(call.args[0], at=st)
            c = decode_call(v.ctx, t)
            from ..lib import tuple_consts
            ok = bool(c and c[0] == "np.transpose" and len(c[1]) == 2 and tuple_consts(v.ctx, c[1][1]) == (1, 0, 2))
            chk.ob(MPL + ".lightness::image-transposed", ok, "C20.D3",
                   f"imshow({v.show(t)[:100]}); expected np.transpose(rgba, (1, 0, 2))", v.f, call)
    v = FV(repo, MPL + ".vector", param_types=PT)
    ql = _quiver_list(v)
    qa = (ql[0], ql[2]) if ql else None
    ok = False
    if qa and (v.ctx.head_of(qa[1]) or ("",))[0] == "list" and len(v.ctx.args_of(qa[1])) == 4:
        comps = v.ctx.args_of(qa[1])[2:]
        ok = all(_transposed_once(v, c_, lambda x: True) for c_ in comps)
    chk.ob(MPL + ".vector::components-transposed", ok, "C20.D3", "both arrow component arrays must be np.transpose(...)d once", v.f,
           qa[0] if qa else None)
    okc = False
    for call, st in v.calls():
        if isinstance(call.func, ast.Attribute) and call.func.attr == "append" and isinstance(call.func.value, ast.Name) and \
                ql is not None and call.func.value.id == ql[1]:
            t = v.term(call.args[0], at=st)
            c = decode_call(v.ctx, t)
            okc = bool(c and c[0] == ".transpose" and len(c[1]) == 1)
    chk.ob(MPL + ".vector::colour-transposed", okc, "C20.D3", "the colour array must be transposed once as well", v.f)


# ------------------------------------------------------------------ D4
def d4_components(chk, repo):
    chk.rule("C20.D4", "component choice: arrows use the components mapped to dims[0] and dims[1] (through _r_dim_mapping) or the "
                       "two given labels; the colour / scalar underlay uses the remaining label")
    v = FV(repo, MPL + ".vector", param_types=PT)
    dflt = v.spec("[self.field._r_dim_mapping[self.field.mesh.region.dims[0]], self.field._r_dim_mapping[self.field.mesh.region.dims[1]]]")
    okd = False
    for st in v.stmts():
        if isinstance(st, ast.Assign) and isinstance(st.targets[0], ast.Name) and st.targets[0].id == "vdims" and \
                v.eq(v.term(st.value, at=st), dflt):
            conds = [(v.ev.term(c_, at=geom._if_stmt(v, c_)), pol) for c_, pol in v.cfg.path_condition(st)]
            okd = any(pol and v.eq(ct, v.spec("vdims is None")) for ct, pol in conds)
    chk.ob(MPL + ".vector::default-components", okd, "C20.D4",
           "without explicit labels the in-plane components are those mapped to dims[0] and dims[1]", v.f)
    ql = _quiver_list(v)
    qa = (ql[0], ql[2]) if ql else None
    fvals = _filtered_values(v)
    ok = False
    if qa and fvals and (v.ctx.head_of(qa[1]) or ("",))[0] == "list" and len(v.ctx.args_of(qa[1])) == 4:
        V = v.ev.term(ast.Name(id="vdims", ctx=ast.Load()), at=qa[0])        # `vdims` is a parameter of vector()
        vals = v.term(fvals[0].args[1], at=qa[0]) if isinstance(fvals[0].args[1], ast.Name) else fvals[2]
        ax = v.spec("self.field.vdims.index(V[0]) if V[0] else None", env={"V": V})
        ay = v.spec("self.field.vdims.index(V[1]) if V[1] else None", env={"V": V})
        wx = v.spec("np.transpose(X[..., a] if a is not None else np.zeros(self.field.mesh.n))", env={"X": vals, "a": ax})
        wy = v.spec("np.transpose(X[..., a] if a is not None else np.zeros(self.field.mesh.n))", env={"X": vals, "a": ay})
        comps = v.ctx.args_of(qa[1])[2:]
        ok = v.eq(comps[0], wx) and v.eq(comps[1], wy) and all(v.eq(b, v.spec("self.field.array.copy()")) for b in strip_stores(v.ctx, vals))
    chk.ob(MPL + ".vector::arrow-components", ok, "C20.D4",
           "arrow x/y arrays must be values[..., vdims.index(first label)] and values[..., vdims.index(second label)] of a copy of "
           "the field's array", v.f, qa[0] if qa else None)
    okc = False
    for st in v.stmts():
        if isinstance(st, ast.Assign) and isinstance(st.targets[0], ast.Name) and st.targets[0].id == "color_field":
            t = v.term(st.value, at=st)
            V = v.ev.term(ast.Name(id="vdims", ctx=ast.Load()), at=st)
            if v.eq(t, v.spec("getattr(self.field, (set(self.field.vdims) - set(V)).pop())", env={"V": V})):
                okc = True
    chk.ob(MPL + ".vector::colour-from-remaining-component", okc, "C20.D4",
           "automatic colouring uses the one label that is not an arrow component", v.f)
    c = FV(repo, MPL + ".__call__", param_types=PT)
    V = c.spec("[self.field._r_dim_mapping[self.field.mesh.region.dims[0]], self.field._r_dim_mapping[self.field.mesh.region.dims[1]]]")
    want_sc = c.spec("getattr(self.field, (set(self.field.vdims) - set(V)).pop())", env={"V": V})
    oks = False
    sc = find_assign(c, lambda t_, s_: c.eq(t_, want_sc))
    if sc:
        # and that is the field whose .mpl.scalar(...) is drawn
        for call, st in c.calls():
            if isinstance(call.func, ast.Attribute) and call.func.attr == "scalar":
                recv = c.term(call.func.value, at=st)
                oks = c.ctx.mentions_or_eq(recv, want_sc)
    chk.ob(MPL + ".__call__::out-of-plane-scalar", oks, "C20.D4",
           "for 3-component fields the scalar underlay is the component not mapped to the two plotted dims", c.f)
    l = FV(repo, MPL + ".lightness", param_types=PT)
    n_ok = 0
    for call, st in l.calls():
        if ast.unparse(call.func) == "plot_util.inplane_angle":
            t = [l.term(a_, at=st) for a_ in call.args]
            if len(t) == 3 and l.eq(t[0], l.spec("self.field")) and \
                    l.eq(t[1], l.spec("self.field._r_dim_mapping[self.field.mesh.region.dims[0]]")) and \
                    l.eq(t[2], l.spec("self.field._r_dim_mapping[self.field.mesh.region.dims[1]]")):
                n_ok += 1
    chk.ob(MPL + ".lightness::in-plane-angle-components", n_ok == 2, "C20.D4",
           "the hue of vector fields is the angle of the components mapped to dims[0] (x) and dims[1] (y)", l.f)
    a = FV(repo, PU + "inplane_angle", param_types=PT)
    for st, nm_, t in simple_assigns(a):
        if (decode_call(a.ctx, t) or ("",))[0] == "np.arctan2":
            c_ = decode_call(a.ctx, t)
            ok = bool(c_ and c_[0] == "np.arctan2" and len(c_[1]) == 2)
            if ok:
                yy, xx = c_[1]
                ok = a.ctx.mentions_or_eq(yy, a.spec("getattr(field, y).array")) and a.ctx.mentions_or_eq(xx, a.spec("getattr(field, x).array"))
            chk.ob(PU + "inplane_angle::arctan2-y-over-x", ok, "C20.D4", f"angle = {a.show(t)[:160]}; expected arctan2(y component, x component)", a.f, st)


# ------------------------------------------------------------------ D5
def d5_hiding(chk, repo):
    chk.rule("C20.D5", "hiding: on every path to a draw call the plotted values went through _filter_values with the validity "
                       "field (default) or the caller's filter; the filter sets values to NaN where the filter field is zero and "
                       "resamples filters of another resolution")
    for m, draw in (("scalar", "imshow"), ("contour", "contour"), ("lightness", "imshow"), ("vector", "quiver")):
        v = FV(repo, f"{MPL}.{m}", param_types=PT)
        draws = [(c, s) for c, s in v.calls() if isinstance(c.func, ast.Attribute) and c.func.attr == draw and
                 isinstance(c.func.value, ast.Name) and c.func.value.id == "ax"]
        filt = [(c, s) for c, s in v.calls() if isinstance(c.func, ast.Attribute) and c.func.attr == "_filter_values"]
        ok = bool(draws) and bool(filt) and all(any(v.cfg.dominates(v.cfg.node(fs), v.cfg.node(ds)) for fc, fs in filt) for dc, ds in draws)
        chk.ob(f"{MPL}.{m}::filtered-before-drawn", ok, "C20.D5",
               f"ax.{draw}(...) must be preceded on every path by self._filter_values(...)", v.f, draws[0][0] if draws else None)
        if filt:
            fc, fs = filt[0]
            ft = v.term(fc.args[0], at=fs)
            vt = v.term(fc.args[1], at=fs)
            mem = phi_members(v.ctx, ft)
            dflt = v.spec("self.field._valid_as_field")
            okf = any(v.eq(x, dflt) for x in mem) and all(v.eq(x, dflt) or is_sym(v.ctx, x, "param:filter_field") for x in mem)
            chk.ob(f"{MPL}.{m}::default-filter-is-validity", okf, "C20.D5",
                   f"filter = {[v.show(x)[:60] for x in mem]}; must be the caller's filter or the field's validity", v.f, fc)
            # the filtered array is the one that is drawn
            drawn_ok = False
            for dc, ds in draws:
                for a_ in dc.args:
                    ta = v.term(a_, at=ds)
                    for aid in v.ctx.all_atoms(ta) | ({ta.single_atom()} if ta.single_atom() is not None else set()):
                        x = v.ctx.var(aid)
                        if any(v.eq(b, b2) for b in strip_stores(v.ctx, x) for b2 in strip_stores(v.ctx, vt)):
                            drawn_ok = True
                if m == "lightness":
                    drawn_ok = True     # rgba is assembled from the filtered rgb (checked below)
                if m == "vector":
                    ql = _quiver_list(v)
                    qa = local_term(v, ql[1], ds) if ql else v.ctx.const(0)
                    drawn_ok = any(v.eq(b, b2) for aid in v.ctx.all_atoms(qa) for b in strip_stores(v.ctx, v.ctx.var(aid))
                                   for b2 in strip_stores(v.ctx, vt))
            chk.ob(f"{MPL}.{m}::drawn-array-is-filtered-array", drawn_ok, "C20.D5",
                   "the array passed to _filter_values must be the one that is drawn", v.f, fc)
    l = FV(repo, MPL + ".lightness", param_types=PT)
    okr = False
    for st in l.stmts():
        if isinstance(st, ast.Assign) and isinstance(st.targets[0], ast.Subscript):
            idx = l.ev._index(st.targets[0].slice, l.cfg.node(st), None)
            fr_ = _filtered_values(l)
            rgb = l.term(fr_[0].args[1], at=st) if fr_ else None       # the colour array that went through the filter
            if rgb is not None and l.eq(idx, l.spec("np.isnan(R[..., 0])", env={"R": rgb})) and is_const(l.ctx, l.term(st.value, at=st), 0):
                okr = True
    chk.ob(MPL + ".lightness::hidden-cells-transparent", okr, "C20.D5",
           "cells removed by the filter (NaN in rgb) must become fully transparent in rgba", l.f)
    f = FV(repo, MPL + "._filter_values", param_types=PT)
    sts = [s for s in f.stmts() if isinstance(s, ast.Assign) and isinstance(s.targets[0], ast.Subscript)]
    ok = False
    if len(sts) == 1:
        idx = f.ev._index(sts[0].targets[0].slice, f.cfg.node(sts[0]), None)
        base = f.term(sts[0].targets[0].value, at=sts[0])
        ff = f.ev.term(ast.Name(id="filter_field", ctx=ast.Load()), at=sts[0])
        ok = is_sym(f.ctx, base, "param:values") and f.eq(idx, f.spec("F.array.reshape(self.field.mesh.n) == 0", env={"F": ff})) and \
            f.eq(f.term(sts[0].value, at=sts[0]), f.spec("np.nan"))
        mem = phi_members(f.ctx, ff)
        okres = any(f.eq(x, f.spec("filter_field.resample(self.field.mesh.n)")) for x in mem) and \
            any(is_sym(f.ctx, x, "param:filter_field") for x in mem)
        chk.ob(MPL + "._filter_values::resamples-other-resolutions", okres, "C20.D5",
               "filters on another resolution must be resampled to the field's n", f.f)
    chk.ob(MPL + "._filter_values::nan-where-filter-is-zero", ok, "C20.D5",
           "values[filter_field.array.reshape(n) == 0] = np.nan", f.f, sts[0] if sts else None)
    r = FV(repo, "field.Field._valid_as_field")
    rr, t = _single_return(r)
    d = decode_new(repo, r.ctx, t)
    chk.ob("field.Field._valid_as_field::definition", bool(d and r.eq(d[1].get("value"), r.spec("self.valid")) and
                                                             r.eq(d[1].get("mesh"), r.spec("self.mesh"))), "C20.D5",
           "_valid_as_field must be the validity as a one-component field on the same mesh", r.f, rr)


# ------------------------------------------------------------------ D6
def d6_refusals(chk, repo):
    chk.rule("C20.D6", "refusals: only 2-d fields can be plotted; scalar() and contour() need one component, lightness() at most "
                       "three, vector() needs a mapping or labels; filter / colour / lightness fields must be scalar 2-d fields")
    v = FV(repo, MPL + ".__init__", param_types=PT)
    st = [s for s in v.self_stores() if s[1] == "field"]
    ok, det = v.guard("field.mesh.region.ndim != 2", exc=("RuntimeError",), before=st[0][0] if st else "exit")
    chk.ob(MPL + ".__init__::refuses-non-2d", ok, "C20.D6", det, v.f)
    for m, cond, exc in (("scalar", "self.field.nvdim > 1", "RuntimeError"), ("contour", "self.field.nvdim != 1", "RuntimeError"),
                         ("vector", "vdims is None and (not self.field.vdim_mapping)", "ValueError")):
        w = FV(repo, f"{MPL}.{m}", param_types=PT)
        first = [s for s in w.body if not (isinstance(s, ast.If) and always_raises(s.body))][0]
        ok, det = w.guard(cond, exc=(exc,), before=first)
        chk.ob(f"{MPL}.{m}::refuses::{cond}", ok, "C20.D6", det, w.f)
    l = FV(repo, MPL + ".lightness", param_types=PT)
    ok = geom._guard_in_function(l, "self.field.nvdim > 3")
    chk.ob(MPL + ".lightness::refuses-more-than-three-components", ok, "C20.D6", "nvdim > 3 must raise", l.f)
    for who, q, name in (("filter", MPL + "._filter_values", "filter_field"), ("colour", MPL + ".vector", "color_field"),
                         ("lightness", MPL + ".lightness", "lightness_field")):
        w = FV(repo, q, param_types=PT)
        ok1 = geom._guard_in_function(w, f"{name}.nvdim != 1")
        ok2 = geom._guard_in_function(w, f"{name}.mesh.region.ndim != 2")
        chk.ob(f"{q}::{who}-field-must-be-scalar-2d", ok1 and ok2, "C20.D6",
               f"a {who} field with nvdim != 1 or ndim != 2 must raise ValueError", w.f)


# ------------------------------------------------------------------ D7
def d7_selection(chk, repo):
    chk.rule("C20.D7", "branch selection and hand-over: the validity field replaces a missing filter (never a given one); the "
                       "combined plot draws scalars for 1, arrows for 2 and both for 3 components and forwards axes and "
                       "multiplier; arrows are anchored at their middle (the cell centre); lightness plots of vector fields take "
                       "the hue from the in-plane angle and the lightness from the remaining component, forward filter, axes and "
                       "multiplier, and assemble RGBA from the filtered colours; the in-plane angle is arctan2(y, x) wrapped to "
                       "[0, 2 pi) and the hue is that angle scaled from (0, 2 pi) to (0, 1)")
    dflt_txt = "self.field._valid_as_field"
    for m in ("scalar", "contour", "lightness"):
        v = FV(repo, f"{MPL}.{m}", param_types=PT)
        n = 0
        for st in v.stmts():
            if isinstance(st, ast.Assign) and isinstance(st.targets[0], ast.Name) and v.eq(v.term(st.value, at=st), v.spec(dflt_txt)):
                n += 1
                pt = path_term(v, st)
                par = v.cfg.parent.get(id(st))
                outer = path_term(v, par[0]) if par and isinstance(par[0], ast.If) else v.ctx.mk(("const", True))
                want = v.ev._bool("and", [outer, v.spec("filter_field is None")])
                chk.ob(f"{MPL}.{m}::validity-filter-iff-none-given#{n}", reached_iff(v, st, want), "C20.D7",
                       f"`{v.src(st)}` under {v.show(pt)[:160]}; expected exactly when no filter was given", v.f, st)
        chk.require(n >= 1, f"{MPL}.{m}: the default filter vanished")
    f = FV(repo, MPL + "._filter_values", param_types=PT)
    for r in f.returns():
        par = f.cfg.parent.get(id(r))
        if par and isinstance(par[0], ast.If) and par[1] == "body" and par[0] is f.body[0]:
            chk.ob(MPL + "._filter_values::nothing-to-filter-iff-none", f.eq(f.ev.term(par[0].test, at=par[0]), f.spec("filter_field is None")),
                   "C20.D7", f"the early return is under `{f.src(par[0].test)}`; expected: no filter field", f.f, r)
    for st in f.stmts():
        if isinstance(st, ast.Assign) and (decode_call(f.ctx, f.term(st.value, at=st)) or ("",))[0] == "Field.resample":
            pt = path_term(f, st)
            chk.ob(MPL + "._filter_values::resampled-iff-other-resolution", cond_equiv(
                f, pt, f.spec("not np.array_equal(filter_field.mesh.n, self.field.mesh.n)")) or cond_equiv(
                f, pt, f.spec("filter_field is not None and not np.array_equal(filter_field.mesh.n, self.field.mesh.n)")), "C20.D7",
                f"the filter is resampled under {f.show(pt)[:140]}; expected: its cell counts differ from the field's", f.f, st)
    # arrows anchored at the middle
    v = FV(repo, MPL + ".vector", param_types=PT)
    for call, st in v.calls():
        if isinstance(call.func, ast.Attribute) and call.func.attr == "quiver":
            piv = [k.value for k in call.keywords if k.arg == "pivot"]
            chk.ob(MPL + ".vector::arrows-centred-on-cells", bool(piv) and isinstance(piv[0], ast.Constant) and piv[0].value in ("mid", "middle"),
                   "C20.D7", "quiver's default anchors an arrow at its tail; the positions are cell centres, so pivot='mid' is needed", v.f, call)
    # combined plot
    c = FV(repo, MPL + ".__call__", param_types=PT)
    nv = c.spec("self.field.nvdim")
    for call, st in c.calls():
        if isinstance(call.func, ast.Attribute) and call.func.attr in ("scalar", "vector"):
            kw = {k.arg: c.term(k.value, at=st) for k in call.keywords if k.arg}
            okk = "ax" in kw and "multiplier" in kw and not is_const(c.ctx, kw["ax"], None) and \
                any(is_sym(c.ctx, m_, "param:multiplier") or True for m_ in phi_members(c.ctx, kw["multiplier"]))
            chk.ob(f"{MPL}.__call__::{call.func.attr}-gets-axes-and-multiplier", okk, "C20.D7",
                   f"`{c.src(call)[:80]}` must draw on the shared axes with the shared multiplier", c.f, call)
            recv = call.func.value
            while isinstance(recv, ast.Attribute):
                recv = recv.value
            if isinstance(recv, ast.Name):
                pt = path_term(c, st)
                chk.ob(f"{MPL}.__call__::{call.func.attr}-drawn-iff-selected", cond_equiv(
                    c, pt, c.spec(f"{recv.id} is not None", at=st)), "C20.D7",
                    f"`{c.src(call)[:60]}` runs under {c.show(pt)[:160]}; expected: a {call.func.attr} part was selected", c.f, call)
    sel = {}
    for st in c.stmts():
        if isinstance(st, ast.Assign) and isinstance(st.targets[0], ast.Name) and not (isinstance(st.value, ast.Constant) and st.value.value is None):
            t_ = c.term(st.value, at=st)
            if c.eq(t_, c.spec("self.field")) and any(isinstance(p_, ast.If) for p_, f_ in c.cfg.enclosing(st)):
                # (a selection happens in a branch; an unconditional `field = self.field` at the top is a local alias)
                sel.setdefault("whole", []).append(full_term(c, st))
    if "whole" in sel and len(sel["whole"]) >= 2:
        got = c.ev._bool("or", sel["whole"])
        want = c.spec("self.field.nvdim == 1 or self.field.nvdim == 2 or self.field.nvdim == 3")
        chk.ob(f"{MPL}.__call__::dispatch-by-component-count", cond_equiv(c, got, want, [nv], lo=1), "C20.D7",
               f"the field itself is drawn (as scalar or arrows) under {c.show(got)[:160]}; expected for 1, 2 and 3 components", c.f)
    # lightness of vector fields
    l = FV(repo, MPL + ".lightness", param_types=PT)
    xlab = l.spec("self.field._r_dim_mapping[self.field.mesh.region.dims[0]]")
    ylab = l.spec("self.field._r_dim_mapping[self.field.mesh.region.dims[1]]")
    third = l.spec("getattr(self.field, (set(self.field.vdims) - set([a, b])).pop())", env={"a": xlab, "b": ylab})
    deleg = []
    from ..lib import returned_call
    for r_ in l.returns():
        call, st = returned_call(l, r_)        # `return x.lightness(...)`, or the same through a result temporary
        if call is not None and isinstance(call.func, ast.Attribute) and call.func.attr == "lightness":
            deleg.append((call, st))
    chk.require(len(deleg) == 2, "lightness: expected the two delegations for 2- and 3-component fields")
    for k, (call, st) in enumerate(deleg):
        kw = {x.arg: l.term(x.value, at=st) for x in call.keywords if x.arg}
        pt = path_term(l, st)
        n_here = 2 if reached_implies(l, st, l.spec("self.field.nvdim == 2"), [l.spec("self.field.nvdim")], lo=1) else 3
        okp = reached_iff(l, st, l.spec(f"self.field.nvdim == {n_here}"), [l.spec("self.field.nvdim")], lo=1)
        chk.ob(f"{MPL}.lightness::delegation#{n_here}::condition", okp, "C20.D7",
               f"the in-plane-angle plot is made under {l.show(pt)[:120]}; expected for {n_here} components", l.f, st)
        fw = all(name in kw and any(is_sym(l.ctx, m_, f"param:{name}") for m_ in phi_members(l.ctx, kw[name])) for name in ("ax", "multiplier", "filter_field"))
        lf = kw.get("lightness_field")
        mem = phi_members(l.ctx, lf) if lf is not None else []
        want_l = third if n_here == 3 else l.spec("self.field.norm")
        okl = len(mem) == 2 and any(is_sym(l.ctx, m_, "param:lightness_field") for m_ in mem) and any(l.eq(m_, want_l) for m_ in mem)
        chk.ob(f"{MPL}.lightness::delegation#{n_here}::forwards", fw and okl and "clim" in kw, "C20.D7",
               f"axes, multiplier, filter and colour limits must be forwarded; lightness = the caller's field or "
               f"{'the component that is not in the plane' if n_here == 3 else 'the norm'}; got lightness_field={l.show(lf)[:120] if lf is not None else None}",
               l.f, call)
        for st2 in l.stmts():
            if isinstance(st2, ast.Assign) and isinstance(st2.targets[0], ast.Name) and l.eq(l.term(st2.value, at=st2), want_l) and \
                    reached_implies(l, st2, l.spec(f"self.field.nvdim == {n_here}"), [l.spec("self.field.nvdim")], lo=1):
                chk.ob(f"{MPL}.lightness::delegation#{n_here}::default-lightness-iff-none", cond_implies(
                    l, path_term(l, st2), l.spec("lightness_field is None")), "C20.D7",
                    f"`{l.src(st2)[:70]}` under {l.show(path_term(l, st2))[:140]}: a given lightness field must not be replaced", l.f, st2)
    for st2 in l.stmts():
        if isinstance(st2, ast.Assign) and isinstance(st2.targets[0], ast.Name):
            t2 = l.term(st2.value, at=st2)
            if l.eq(t2, l.spec("self.field.norm")):
                chk.ob(f"{MPL}.lightness::norm-as-lightness-iff-none-given@{'delegated' if any(isinstance(p_, ast.If) and 'nvdim' in ast.unparse(p_.test) for p_, f_ in l.cfg.enclosing(st2)) else 'scalar'}",
                       reached_implies(l, st2, l.spec("lightness_field is None")), "C20.D7",
                       f"`{l.src(st2)}` under {l.show(path_term(l, st2))[:120]}: a given lightness field must not be replaced", l.f, st2)
            if (decode_call(l.ctx, t2) or ("",))[0] == "Field.resample":
                par = l.cfg.parent.get(id(st2))
                okr_ = bool(par and isinstance(par[0], ast.If) and par[1] == "body")
                if okr_:
                    L_ = local_term(l, st2.targets[0].id, par[0])
                    okr_ = l.eq(l.ev.term(par[0].test, at=par[0]), l.spec("not np.array_equal(L.mesh.n, self.field.mesh.n)", env={"L": L_}))
                chk.ob(f"{MPL}.lightness::lightness-resampled-iff-other-resolution", okr_, "C20.D7",
                       "the lightness field is resampled exactly when its cell counts differ from the field's", l.f, st2)
    for rs, nm in l.raises():
        par = l.cfg.parent.get(id(rs))
        if par and isinstance(par[0], ast.If) and par[1] == "body":
            ct = l.ev.term(par[0].test, at=par[0])
            if l.ctx.mentions(ct, l.spec("self.field.vdim_mapping")) or l.eq(l.ev._not(ct), l.spec("self.field.vdim_mapping")):
                chk.ob(f"{MPL}.lightness::refuses-missing-mapping", l.eq(ct, l.spec("not self.field.vdim_mapping")), "C20.D7",
                       f"`{l.src(par[0].test)}` raises: fields WITHOUT a component-to-axis mapping are refused", l.f, par[0])
    hc = [(call, st) for call, st in l.calls() if ast.unparse(call.func).endswith("hls2rgb")]
    if hc:
        call, st = hc[0]
        kw = {x.arg: l.term(x.value, at=st) for x in call.keywords if x.arg}
        hue = kw.get("hue") if "hue" in kw else (l.term(call.args[0], at=st) if call.args else None)
        okh = hue is not None and l.eq(hue, l.spec("self.field.array.copy().reshape(self.field.mesh.n)")) and "lightness" in kw and \
            "lightness_clim" in kw and is_sym(l.ctx, kw["lightness_clim"], "param:clim")
        if okh:
            lm = [x for x in phi_members(l.ctx, kw["lightness"])]
            okh = all((decode_call(l.ctx, x) or ("",))[0] == ".reshape" for x in lm)
        chk.ob(f"{MPL}.lightness::colours-from-values", okh, "C20.D7",
               "hls2rgb(hue=the field's values reshaped to n, lightness=the lightness field's values reshaped to n, "
               "lightness_clim=clim)", l.f, call)
    fr = _filtered_values(l)
    rgb = fr[2] if fr else None
    al = find_assign(l, lambda t_, s_: (decode_call(l.ctx, t_) or ("",))[0] == "np.empty")
    oka = False
    if al and rgb is not None:
        rb = strip_stores(l.ctx, rgb)
        sh = decode_call(l.ctx, al[2])[1][0]
        sts = [(l.ev._index(s2.targets[0].slice, l.cfg.node(s2), None), l.term(s2.value, at=s2)) for s2 in l.stmts()
               if isinstance(s2, ast.Assign) and isinstance(s2.targets[0], ast.Subscript) and isinstance(s2.targets[0].value, ast.Name)
               and s2.targets[0].value.id == al[1]]
        oka = len(rb) == 1 and l.eq(sh, l.spec("(*R.shape[:-1], 4)", env={"R": rb[0]})) and \
            any(l.eq(i_, l.ctx.args_of(l.spec("R[..., :3]", env={"R": rb[0]}))[1]) and any(l.eq(b, rb[0]) for b in strip_stores(l.ctx, v_))
                for i_, v_ in sts) and \
            any(l.eq(i_, l.ctx.args_of(l.spec("R[..., 3]", env={"R": rb[0]}))[1]) and is_const(l.ctx, v_, 1) for i_, v_ in sts)
    chk.ob(f"{MPL}.lightness::rgba-from-filtered-colours", oka, "C20.D7",
           "rgba has the colour array's shape with 4 channels: channels 0-2 are the filtered colours, channel 3 is opaque (1.0)", l.f,
           al[0] if al else None)
    # in-plane angle
    a = FV(repo, PU + "inplane_angle", param_types=PT)
    for st, nm_, t in simple_assigns(a):
        c_ = decode_call(a.ctx, t)
        if c_ and c_[0] == "np.arctan2" and len(c_[1]) == 2:
            def comp_ok(arg, lab):
                want = a.spec(f"getattr(field, {lab}).array")
                if a.eq(arg, want):
                    return True
                h = a.ctx.head_of(arg)
                if h and h[0] == "ifexp":
                    # read in the positive orientation: `0 if <label> is None else <component>`
                    cnd, tv, fv = a.ctx.args_of(arg)
                    hc_ = a.ctx.head_of(cnd)
                    if hc_ == ("cmp", "isnot"):
                        tv, fv = fv, tv
                    return a.eq(fv, want) and is_const(a.ctx, tv, 0) and bool(hc_ and hc_ in (("cmp", "is"), ("cmp", "isnot"))) and \
                        any(is_const(a.ctx, x, None) for x in a.ctx.args_of(cnd))
                return False
            chk.ob(PU + "inplane_angle::components-in-their-places", comp_ok(c_[1][0], "y") and comp_ok(c_[1][1], "x"), "C20.D7",
                   f"angle = {a.show(t)[:200]}; expected arctan2(y component, x component) (0 only for a label that is not given)", a.f, st)
    for key, text in (("vector-fields-only", "field.nvdim == 1"), ("some-label-given", "x is None and y is None"),
                      ("x-is-a-label", "x is not None and x not in field.vdims"), ("y-is-a-label", "y is not None and y not in field.vdims")):
        hit = any(reached_iff(a, rs, a.spec(text)) for rs, nm in a.raises())
        chk.ob(PU + f"inplane_angle::refuses::{key}", hit, "C20.D7", f"no raise reached exactly under `{text}`", a.f)
    wraps = [s2 for s2 in a.stmts() if isinstance(s2, ast.AugAssign) and isinstance(s2.target, ast.Subscript)]
    okw = False
    if len(wraps) == 1 and isinstance(wraps[0].op, ast.Add):
        idx = a.ev._index(wraps[0].target.slice, a.cfg.node(wraps[0]), None)
        base = a.term(wraps[0].target.value, at=wraps[0])
        okw = (a.eq(idx, a.spec("b < 0", env={"b": base})) or a.eq(idx, a.spec("b <= 0", env={"b": base}))) and \
            a.eq(a.term(wraps[0].value, at=wraps[0]), a.spec("2 * np.pi"))
    chk.ob(PU + "inplane_angle::wrapped-to-full-turn", okw, "C20.D7", "negative angles get 2 pi added (range [0, 2 pi))", a.f,
           wraps[0] if wraps else None)
    for r, x in cm.returned_news(a):
        base = strip_stores(a.ctx, x.get("value")) if x.get("value") is not None else []
        okc = is_const(a.ctx, x.get("nvdim", a.ctx.const(0)), 1) and a.eq(x.get("mesh"), a.spec("field.mesh")) and \
            a.eq(x.get("valid"), a.spec("field.valid")) and len(base) == 1 and (decode_call(a.ctx, base[0]) or ("",))[0] == "np.arctan2"
        chk.ob(PU + "inplane_angle::scalar-field-of-angles", okc, "C20.D7",
               "the angles form a one-component field on field.mesh with the field's validity", a.f, r)
    # hue scaling
    hfn = FV(repo, PU + "hls2rgb")
    okhue = False
    for st, nm_, t in simple_assigns(hfn):
        c_ = decode_call(hfn.ctx, t)
        if c_ and c_[0].endswith("normalise_to_range") and c_[1] and is_sym(hfn.ctx, c_[1][0], "param:hue"):
            allargs = list(c_[1][1:]) + [c_[2].get("to_range"), c_[2].get("from_range")]
            allargs = [x for x in allargs if x is not None]
            okhue = len(allargs) >= 2 and hfn.eq(allargs[0], hfn.spec("(0, 1)")) and hfn.eq(allargs[1], hfn.spec("(0, 2 * np.pi)")) and \
                is_const(hfn.ctx, c_[2].get("int_round", hfn.ctx.const(0)), False)
    chk.ob(PU + "hls2rgb::hue-is-angle-over-full-turn", okhue, "C20.D7",
           "hue = normalise_to_range(hue, (0, 1), (0, 2 pi), int_round=False): the angle as a fraction of the full turn", hfn.f)
    nr = FV(repo, PU + "normalise_to_range")
    augs = [s2 for s2 in nr.stmts() if isinstance(s2, ast.AugAssign) and isinstance(s2.target, ast.Name)]
    ops = [(type(s2.op).__name__, nr.term(s2.value, at=s2)) for s2 in augs]
    V = None
    want_ops = [("Sub", "from_range[0] if from_range else V.min()"), ("Div", "(from_range[1] - from_range[0]) if from_range else V.max()"),
                ("Mult", "to_range[1] - to_range[0]"), ("Add", "to_range[0]")]
    okn = len(ops) == 4
    if okn:
        for (op, t_), (wop, wtxt), s2 in zip(ops, want_ops, augs):
            Vt = local_term(nr, s2.target.id, s2)
            okn = okn and op == wop and nr.eq(t_, nr.spec(wtxt, env={"V": Vt}))
    chk.ob(PU + "normalise_to_range::affine-map", okn, "C20.D7",
           "values are shifted by the lower source bound, divided by the source width, multiplied by the target width and shifted "
           f"by the lower target bound, in that order; found {[(o_, nr.show(t_)[:50]) for o_, t_ in ops]}", nr.f)
    if len(augs) == 4:
        par = nr.cfg.parent.get(id(augs[1]))
        Vt = local_term(nr, augs[1].target.id, par[0]) if par and isinstance(par[0], ast.If) else None
        okz = Vt is not None and nr.eq(nr.ev.term(par[0].test, at=par[0]), nr.spec("from_range or V.max() != 0", env={"V": Vt}))
        chk.ob(PU + "normalise_to_range::division-guard", okz, "C20.D7",
               "the division is skipped only for data whose maximum is 0 after the shift (uniform data) when no source range is given", nr.f,
               augs[1])
