"""C09 - OVF files round-trip fields and follow the OVF 1.0/2.0 format."""
import ast
import re

from ..model import AnalysisError
from ..lib import (FV, decode_new, decode_call, phi_members, is_sym, is_const, is_str, strip_stores, stores_of, tuple_consts,
                   find_assign, find_assigns, simple_assigns, local_term, call_name, cond_equiv, cond_implies, path_term)
from ..lib import (reached_iff, reached_implies, implies_reached, reached_iff_any, path_term, cond_equiv, cond_implies,  # noqa: F401
                   else_stmts, branch_stmts, context_literals)
from ..cfg import always_raises, walk_stmts
from . import common as cm
from . import geom
from .common import FIELD, MESH, REGION
from .c01 import each, _single_return

FLOOR = 45
ANCHORS = [
    'io.ovf._FieldIO_OVF._to_ovf',
    'io.ovf._FieldIO_OVF._from_ovf',
    'io._FieldIO.to_file',
    'io._FieldIO.from_file',
    'io._MeshIO.save_subregions',
    'io._MeshIO.load_subregions',
    'io._MeshIO._subregion_filename',
]   # functions whose code the property is anchored in (mutation analysis, evidence)
OVF = "io.ovf._FieldIO_OVF."
AUTOMUT_TRIAGE = [
    (r"_to_ovf$", r"chunksize = ", "equivalent: any chunk size writes the same bytes (C09.D5 ties count and slices to it)"),
    (r"_from_ovf$", r"read_csv.*drop keyword (nrows|comment)=", "equivalent one at a time: the row limit and the '#' comment rule each "
     "keep the footer out (C09.D9 demands at least one of them)"),
    (r"_from_ovf$", r"read_csv.*drop keyword dtype=", "changes the dtype of integer-looking text data, not the values within 1e-9"),
    (r"to_file$", r"_to_vtk", "options of the VTK writer are C16's subject"),
    (r"_subregions$", r"drop keyword (encoding|mode)=", "equivalent on this platform: UTF-8 default encoding / 'r' is open()'s default mode"),
]

# OVF 2.0 specification (OOMMF user guide, "OVF 2.0 format"): keys of a rectangular-mesh segment header
OVF2_REQUIRED = ["Title", "meshtype", "meshunit", "xbase", "ybase", "zbase", "xnodes", "ynodes", "znodes",
                 "xstepsize", "ystepsize", "zstepsize", "xmin", "ymin", "zmin", "xmax", "ymax", "zmax",
                 "valuedim", "valuelabels", "valueunits"]
OVF_CHECK = {4: 1234567.0, 8: 123456789012345.0}     # OVF specification: binary check values


def header_template(v):
    """parse the f-string of the header: -> (list of '# ...' lines as [(text, [expr nodes])], statement)
    The statement is found by its content (an f-string starting with the OVF magic line), not by a variable name."""
    for st in v.stmts():
        if isinstance(st, ast.Assign):
            for j in [n for n in ast.walk(st.value) if isinstance(n, ast.JoinedStr)]:
                if j.values and isinstance(j.values[0], ast.Constant) and "OOMMF OVF" in str(j.values[0].value):
                    lines = [["", []]]
                    for part in j.values:
                        if isinstance(part, ast.Constant):
                            segs = part.value.split("\n")
                            lines[-1][0] += segs[0]
                            for sg in segs[1:]:
                                lines.append([sg, []])
                        else:
                            lines[-1][0] += "{}"
                            lines[-1][1].append(part.value)
                    return [(t.strip(), e) for t, e in lines], st
    raise AnalysisError("_to_ovf: no f-string header starting with '# OOMMF OVF' found")


def label_decoder(repo, r):
    """the function that decodes one value label: a closure of the reader, or a module-level helper of io/ovf.py that the
    reader calls with one argument (a closure that was moved out)"""
    nested = [f for q, f in repo.funcs.items() if f.parent is not None and f.parent.qual == r.f.qual]
    for f in nested:
        if f.node.name == "convert":
            return f
    if nested:
        return nested[0]
    called = {n.func.id for n in ast.walk(r.f.node) if isinstance(n, ast.Call) and isinstance(n.func, ast.Name) and len(n.args) == 1}
    cands = [f for q, f in repo.funcs.items() if f.parent is None and f.cls is None and f.module is r.f.module
             and f.node.name in called and len(f.node.args.args) == 1
             and any(isinstance(n, ast.Constant) and n.value == "_" for n in ast.walk(f.node))]
    return cands[0] if cands else None


def reader_header_name(r):
    """name of the dictionary the reader fills with header entries (the one subscripted with 'valuedim')"""
    for n in ast.walk(r.f.node):
        if isinstance(n, ast.Subscript) and isinstance(n.value, ast.Name) and isinstance(n.slice, ast.Constant) and \
                n.slice.value == "valuedim":
            return n.value.id
    raise AnalysisError("_from_ovf: header dictionary (subscripted with 'valuedim') not found")


def run(chk):
    repo = chk.repo
    cm.schema(chk, repo, "C09")
    v = FV(repo, OVF + "_to_ovf", self_type=FIELD)
    r = FV(repo, OVF + "_from_ovf", self_type=FIELD)
    d1_header(chk, repo, v, r)
    d2_data_order(chk, repo, v, r)
    d3_framing(chk, repo, v, r)
    d4_damaged(chk, repo, r)
    d5_chunks(chk, repo, v)
    d6_codecs(chk, repo, v, r)
    d7_extend_scalar(chk, repo, v)
    d8_dispatch(chk, repo)
    d9_details(chk, repo, v, r)
    chk.trust("OVF 2.0 specification (OOMMF user guide): header keys of a rectangular mesh, x-fastest data order, check values "
              "1234567.0 (4 byte) and 123456789012345.0 (8 byte), little-endian for 2.0, big-endian for 1.0")
    chk.trust("struct format codes '<f' '<d' '>f' '>d'; ndarray.flat / reshape flatten in C order (last axis fastest)")
    chk.assume("bit-identity, float32 rounding, 1e-9 text precision, foreign writers' files beyond the header grammar and all "
               "truncation points are not decided")


# ------------------------------------------------------------------ D1
def d1_header(chk, repo, v, r):
    chk.rule("C09.D1", "header conformance: the writer's template holds every key OVF 2.0 requires and every key the reader "
                       "consults; each value has the right provenance and axis (xmin<-pmin[0] ... xnodes<-n[0], xstepsize<-cell[0], "
                       "xbase == pmin[0] + cell[0]/2); valuedim, labels and units all count write_dim")
    lines, st = header_template(v)
    keyed = {}
    for text, exprs in lines:
        m = re.match(r"#\s*([A-Za-z ]+?):\s*(.*)$", text)
        if m:
            keyed.setdefault(m.group(1).strip(), []).append((m.group(2), exprs))
    chk.ob("io.ovf._to_ovf::header::magic", bool(lines) and lines[0][0].startswith("# OOMMF OVF 2.0"), "C09.D1",
           f"first header line is {lines[0][0]!r}; OVF 2.0 files start with '# OOMMF OVF 2.0'", v.f, st)
    missing = [k for k in OVF2_REQUIRED if k not in keyed]
    chk.ob("io.ovf._to_ovf::header::required-keys", not missing, "C09.D1", f"header keys missing: {missing}", v.f, st)
    structure = [k for k in ("Segment count", "Begin", "End") if k not in keyed]
    chk.ob("io.ovf._to_ovf::header::structure", not structure and
           [x[0] for x in keyed.get("Begin", [])][:2] == ["Segment", "Header"] and
           any(x[0].startswith("Data") for x in keyed.get("Begin", [])) and
           any(x[0] == "Header" for x in keyed.get("End", [])), "C09.D1",
           "Segment count / Begin: Segment / Begin: Header / End: Header / Begin: Data must frame the header", v.f, st)
    spec = {}
    for i, ax in enumerate("xyz"):
        spec[f"{ax}min"] = f"self.mesh.region.pmin[{i}]"
        spec[f"{ax}max"] = f"self.mesh.region.pmax[{i}]"
        spec[f"{ax}nodes"] = f"self.mesh.n[{i}]"
        spec[f"{ax}stepsize"] = f"self.mesh.cell[{i}]"
        spec[f"{ax}base"] = f"self.mesh.region.pmin[{i}] + self.mesh.cell[{i}] / 2"
    spec["meshunit"] = "self.mesh.region.units[0]"
    for k, sp in spec.items():
        ent = keyed.get(k, [])
        ok = len(ent) == 1 and len(ent[0][1]) == 1 and ent[0][0] == "{}" and v.eq(v.term(ent[0][1][0], at=st), v.spec(sp, at=st))
        got = v.show(v.term(ent[0][1][0], at=st))[:80] if ent and ent[0][1] else "?"
        chk.ob(f"io.ovf._to_ovf::header::{k}", ok, "C09.D1", f"{k}: {got}; expected {sp}", v.f, st)
    wd = v.spec("3 if extend_scalar and self.nvdim == 1 else self.nvdim")
    ent = keyed.get("valuedim", [])
    okd = len(ent) == 1 and len(ent[0][1]) == 1 and v.eq(v.term(ent[0][1][0], at=st), wd)
    chk.ob("io.ovf._to_ovf::header::valuedim", okd, "C09.D1",
           "valuedim must be 3 for an extended scalar field and nvdim otherwise", v.f, st)
    # units: ' '.join([unit or 'None'] * write_dim)
    ent = keyed.get("valueunits", [])
    oku = False
    if len(ent) == 1 and len(ent[0][1]) == 1:
        t = v.term(ent[0][1][0], at=st)
        c = decode_call(v.ctx, t)
        if c and c[0] == ".join" and is_str(v.ctx, c[1][0], " "):
            hr = v.ctx.head_of(c[1][1])
            if hr and hr[0] == "repeat":
                lst, cnt = v.ctx.args_of(c[1][1])
                oku = v.eq(cnt, wd) and (v.ctx.head_of(lst) or ("",))[0] == "list" and len(v.ctx.args_of(lst)) == 1
    chk.ob("io.ovf._to_ovf::header::valueunits-count", oku, "C09.D1", "valueunits must list one unit per written component", v.f, st)
    # labels: three alternatives with 1, write_dim, nvdim entries
    ent = keyed.get("valuelabels", [])
    okl = False
    if len(ent) == 1 and len(ent[0][1]) == 1:
        mem = phi_members(v.ctx, v.term(ent[0][1][0], at=st))
        n_ok = 0
        for m_ in mem:
            c = decode_call(v.ctx, m_)
            if is_str(v.ctx, m_) and len(v.ctx.head_of(m_)[1].split()) == 1:
                n_ok += 1
            elif c and c[0] == ".join" and is_str(v.ctx, c[1][0], " "):
                hr = v.ctx.head_of(c[1][1])
                if hr and hr[0] == "repeat" and v.eq(v.ctx.args_of(c[1][1])[1], wd):
                    n_ok += 1
                elif hr and hr[0] == "seqcomp" and v.eq(v.ctx.args_of(v.ctx.args_of(c[1][1])[1])[0], v.spec("self.vdims")):
                    n_ok += 1
        okl = n_ok == len(mem) == 3
    chk.ob("io.ovf._to_ovf::header::valuelabels-count", okl, "C09.D1",
           "valuelabels must have exactly one entry per written component in each of the three cases", v.f, st)
    # the single-label case belongs to write_dim == 1, the repeated one to the extended scalar
    lab_name = ent[0][1][0].id if ent and ent[0][1] and isinstance(ent[0][1][0], ast.Name) else None
    for s_ in v.stmts():
        if isinstance(s_, ast.If) and s_.body and isinstance(s_.body[0], ast.Assign) and \
                isinstance(s_.body[0].targets[0], ast.Name) and s_.body[0].targets[0].id == lab_name:
            ct = v.ev.term(s_.test, at=s_)
            chk.ob("io.ovf._to_ovf::header::valuelabels-cases", v.eq(ct, v.ctx.mk(("cmp", "eq"), tuple(sorted(
                [v.ctx.const(1), wd], key=lambda x: x.key())))) or v.eq(ct, v.spec("W == 1", env={"W": wd})), "C09.D1",
                "the single label is used exactly when one component is written", v.f, s_)
            break
    # keys the reader needs
    need = set()
    hname = reader_header_name(r)
    for n in ast.walk(r.f.node):
        if isinstance(n, ast.Subscript) and isinstance(n.value, ast.Name) and n.value.id == hname:
            if isinstance(n.slice, ast.Constant):
                need.add(n.slice.value)
            elif isinstance(n.slice, ast.JoinedStr):
                suffix = "".join(p.value for p in n.slice.values if isinstance(p, ast.Constant))
                for ax in "xyz":
                    need.add(ax + suffix)
    lacking = sorted(k for k in need if k not in keyed)
    chk.ob("io.ovf::header::reader-keys-written", not lacking and len(need) >= 14, "C09.D1",
           f"reader consults {sorted(need)}; not written: {lacking}", r.f)
    # reader provenance: p1 <- min, p2 <- max, cell <- stepsize, units <- meshunit
    for ret, a in cm.returned_news(r):
        d = decode_new(repo, r.ctx, a.get("mesh")) if a.get("mesh") is not None else None
        ok = False
        if d and d[0] == MESH:
            rg = decode_new(repo, r.ctx, d[1].get("region")) if d[1].get("region") is not None else None
            mesh_st = find_assign(r, lambda t_, s_: (r.ctx.head_of(t_) or ("", ""))[:2] == ("new", MESH))
            hdr = local_term(r, hname, mesh_st[0] if mesh_st else ret)
            def per_axis(sfx):
                return r.spec("[float(H[f'{key}" + sfx + "']) for key in 'xyz']", env={"H": hdr})
            if rg:
                ok = r.eq(rg[1].get("p1"), per_axis("min")) and r.eq(rg[1].get("p2"), per_axis("max")) and \
                    r.eq(d[1].get("cell"), per_axis("stepsize")) and rg[1].get("units") is not None and \
                    r.eq(rg[1]["units"], r.spec("[H['meshunit']] * 3", env={"H": hdr}))
        chk.ob("io.ovf._from_ovf::mesh-from-header", ok, "C09.D1",
               "the mesh must be rebuilt as Region(p1=[x|y|z]min, p2=[x|y|z]max, units=[meshunit]*3), cell=[x|y|z]stepsize", r.f, ret)
    okg, det = v.guard("len(set(self.mesh.region.units)) > 1", exc=("ValueError",), before=st)
    chk.ob("io.ovf._to_ovf::single-mesh-unit", okg, "C09.D1", det, v.f)
    okg, det = v.guard("self.mesh.region.ndim != 3", exc=("RuntimeError",), before=st)
    chk.ob("io.ovf._to_ovf::three-dimensional-only", okg, "C09.D1", det, v.f)


# ------------------------------------------------------------------ D2
def d2_data_order(chk, repo, v, r):
    chk.rule("C09.D2", "data order: the writer permutes (x,y,z,c) -> (z,y,x,c) and flattens in C order (x fastest); the reader "
                       "reshapes to (*reversed(n), valuedim) and applies the inverse permutation")
    perms = []
    for st, nm, t_ in simple_assigns(v):
        c = decode_call(v.ctx, t_)
        if c and c[0] == ".transpose" and len(c[1]) == 2 and v.eq(c[1][0], v.spec("self.array")):
            perms.append((tuple_consts(v.ctx, c[1][1]), c[1][0], st))
    # the permuted array is what gets written: it must feed the binary chunks
    feeds = any(isinstance(c_.func, ast.Attribute) and c_.func.attr == "tobytes" and perms and
                any(v.eq(b, v.term(perms[0][2].value, at=perms[0][2]))
                    for aid in v.ctx.all_atoms(v.term(c_.func.value, at=s_)) for b in [v.ctx.var(aid)])
                for c_, s_ in v.calls())
    chk.ob("io.ovf._to_ovf::permuted-array-is-written", feeds, "C09.D2",
           "the binary chunks must be taken from the permuted array", v.f)
    # whatever is written (binary chunks, text rows) takes the field's values only through that permutation: an occurrence of
    # self.array outside transpose((2, 1, 0, 3)) in a written value is written in the wrong cell order
    written = []
    for c_, s_ in v.calls():
        if isinstance(c_.func, ast.Attribute) and c_.func.attr == "tobytes":
            written.append((v.term(c_.func.value, at=s_), s_))
        if ast.unparse(c_.func).endswith("DataFrame") and c_.args:
            written.append((v.term(c_.args[0], at=s_), s_))
    raw = v.spec("self.array").single_atom()

    def unguarded(t, seen):
        for a_ in t.atom_ids():
            if a_ in seen:
                continue
            seen.add(a_)
            if a_ == raw:
                return True
            hd_, ar_ = v.ctx.atoms[a_]
            if hd_[0] == "call" and hd_[1] == ".transpose" and len(ar_) >= 2 and tuple_consts(v.ctx, ar_[1]) == (2, 1, 0, 3):
                continue          # inside the permutation: fine
            if hd_[0] in ("carried", "rec"):
                continue
            if any(unguarded(x, seen) for x in ar_):
                return True
        return False
    bad_w = [s_ for t_, s_ in written if unguarded(t_, set())]
    chk.ob("io.ovf._to_ovf::values-written-in-file-order-only", bool(written) and not bad_w, "C09.D2",
           "every value written to the file must be taken from self.array.transpose((2, 1, 0, 3)) (z, y, x order, x fastest); "
           "self.array used directly is in the wrong cell order", v.f, bad_w[0] if bad_w else None)
    ok = len(perms) == 1 and perms[0][0] == (2, 1, 0, 3) and v.eq(perms[0][1], v.spec("self.array"))
    chk.ob("io.ovf._to_ovf::data-permutation", ok, "C09.D2",
           f"writer permutation {perms[0][0] if perms else None}; expected self.array.transpose((2, 1, 0, 3))", v.f,
           perms[0][2] if perms else None)
    for ret, a in cm.returned_news(r):
        val = a.get("value")
        c = decode_call(r.ctx, val) if val is not None else None
        okr = False
        if c and c[0] == ".transpose":
            p = tuple_consts(r.ctx, c[1][1])
            inner = decode_call(r.ctx, c[1][0])
            if p and inner and inner[0] == ".reshape" and perms:
                comp = cm.perm_compose(perms[0][0], p) if perms[0][0] else None
                d = decode_new(repo, r.ctx, a.get("mesh"))
                hdr = local_term(r, reader_header_name(r), ret)
                want_shape = r.spec("(*reversed(M.n), H['valuedim'])", env={"M": a.get("mesh"), "H": hdr})
                okr = comp is not None and cm.is_identity(comp) and r.eq(inner[1][1], want_shape)
        chk.ob("io.ovf._from_ovf::inverse-permutation", okr, "C09.D2",
               f"value={r.show(val)[:200] if val is not None else None}: expected reshape((*reversed(mesh.n), valuedim)) followed by "
               "the inverse of the writer's permutation", r.f, ret)
        chk.ob("io.ovf._from_ovf::nvdim-is-valuedim", a.get("nvdim") is not None and
               r.eq(a["nvdim"], r.spec("H['valuedim']", env={"H": local_term(r, reader_header_name(r), ret)})),
               "C09.D2", f"nvdim={r.show(a.get('nvdim'))[:80]}", r.f, ret)
    # text representation rows: one row per cell, nvdim columns, in the same order
    okt = False
    for st, nm, t in simple_assigns(v):
        c = decode_call(v.ctx, t)
        if c and c[0].endswith("DataFrame") and c[1]:
            okt = v.eq(c[1][0], v.spec("self.array.transpose((2, 1, 0, 3)).reshape((-1, self.nvdim))"))
    chk.ob("io.ovf._to_ovf::text-rows", okt, "C09.D2", "text rows must be the permuted array reshaped to (-1, nvdim)", v.f)
    # valuedim for OVF 1.0 input is 3
    ok1 = False
    for st in r.stmts():
        if isinstance(st, ast.Assign) and isinstance(st.targets[0], ast.Subscript):
            idx = r.ev._index(st.targets[0].slice, r.cfg.node(st), None)
            if is_str(r.ctx, idx, "valuedim"):
                t = r.term(st.value, at=st)
                h = r.ctx.head_of(t)
                if h and h[0] == "ifexp":
                    cnd, a_, b_ = r.ctx.args_of(t)
                    ok1 = is_const(r.ctx, b_, 3) and (decode_call(r.ctx, a_) or ("",))[0] == "int"
    chk.ob("io.ovf._from_ovf::ovf1-has-three-components", ok1, "C09.D2",
           "valuedim is read from the header for OVF 2.0 and is 3 for OVF 1.0", r.f)


# ------------------------------------------------------------------ D3
def _as_dict_display(x):
    """`dict(a=1, b=2)` read as the display `{"a": 1, "b": 2}` (keywords only); a display is returned as it is"""
    if isinstance(x, ast.Call) and isinstance(x.func, ast.Name) and x.func.id == "dict" and not x.args and x.keywords and \
            all(k.arg is not None for k in x.keywords):
        return ast.copy_location(ast.Dict(keys=[ast.Constant(k.arg) for k in x.keywords], values=[k.value for k in x.keywords]), x)
    return x


def _dict_literal(v, keys):
    """the statement `name = {<literal dict>}` whose keys are exactly `keys` -> (stmt, name, python value)"""
    for st in v.stmts():
        if isinstance(st, ast.Assign) and isinstance(st.targets[0], ast.Name) and isinstance(_as_dict_display(st.value), ast.Dict):
            try:
                val = ast.literal_eval(_with_named_constants(v, _as_dict_display(st.value)))
            except Exception:
                continue
            if set(val) == set(keys):
                return st, st.targets[0].id, val
    # a table that was given a name at module level (`_BINARY_FORMATS = {...}`)
    for st in v.f.module.tree.body:
        if isinstance(st, ast.Assign) and len(st.targets) == 1 and isinstance(st.targets[0], ast.Name) and \
                isinstance(_as_dict_display(st.value), ast.Dict):
            try:
                val = ast.literal_eval(_with_named_constants(v, _as_dict_display(st.value)))
            except Exception:
                continue
            if set(val) == set(keys) and any(isinstance(n, ast.Name) and n.id == st.targets[0].id for n in ast.walk(v.f.node)):
                return st, st.targets[0].id, val
    return None


def _with_named_constants(v, expr):
    """the expression with module-level named constants (`_CHECK8 = 123456789012345.0`) replaced by their literals"""
    import copy

    class _S(ast.NodeTransformer):
        def visit_Name(self, n):
            t = v.ev._module_constant(v.f.module, n.id) if isinstance(n.ctx, ast.Load) else None
            if t is not None and t.const() is not None:
                c = t.const()
                return ast.copy_location(ast.Constant(value=float(c) if c.denominator != 1 or True else int(c)), n)
            return n
    return _S().visit(copy.deepcopy(expr))


def _reader_roles(r):
    """locate the reader's working values by what they are, not by what they are called"""
    roles = {}
    hname = reader_header_name(r)
    roles["header"] = hname
    for st, nm, t in simple_assigns(r):
        c = decode_call(r.ctx, t)
        h = r.ctx.head_of(t)
        if c and c[0] == ".lower":
            inner = r.ctx.head_of(c[1][0])
            if inner and inner[0] == "sub" and (decode_call(r.ctx, r.ctx.args_of(c[1][0])[0]) or ("",))[0] == ".split":
                roles.setdefault("mode", (st, nm, t))
        if c and c[0] == "int" and len(c[1]) == 1:
            inner = r.ctx.head_of(c[1][0])
            if inner and inner[0] == "sub" and (decode_call(r.ctx, r.ctx.args_of(c[1][0])[0]) or ("",))[0] == ".split":
                roles.setdefault("nbytes", (st, nm, t))
        if h and h[0] == "fstr" and isinstance(st.value, ast.JoinedStr) and \
                sum(isinstance(p, ast.FormattedValue) and isinstance(p.value, ast.IfExp) for p in st.value.values) == 2:
            roles.setdefault("format", (st, nm, t))
        if h and h[0] == "sub" and (decode_call(r.ctx, r.ctx.args_of(t)[0]) or ("",))[0] == "struct.unpack":
            roles.setdefault("test_value", (st, nm, t))
        if c and c[0] == "math.prod":
            roles.setdefault("nodes", (st, nm, t))
        if h and h[0] == "cmp" and h[1] == "in" and any((r.ctx.head_of(x) or ("", ""))[0] == "const" and "2.0" in str((r.ctx.head_of(x))[1])
                                                        for x in r.ctx.args_of(t)):
            roles.setdefault("ovf_v2", (st, nm, t))
    return roles


def d3_framing(chk, repo, v, r):
    chk.rule("C09.D3", "binary framing: writer formats/check values ('<f', 1234567.0), ('<d', 123456789012345.0) follow the OVF "
                       "specification and equal the reader's table {4: ..., 8: ...}; the reader uses '<' for 2.0 and '>' for 1.0; "
                       "the 'Begin: Data' words match what the reader parses")
    wt = _dict_literal(v, ["bin4", "bin8"])
    table = wt[2] if wt else None
    ok = table == {"bin4": ("<f", OVF_CHECK[4]), "bin8": ("<d", OVF_CHECK[8])}
    chk.ob("io.ovf._to_ovf::binary-table", ok, "C09.D3", f"writer table {table}; OVF 2.0 requires little-endian floats/doubles "
           f"preceded by {OVF_CHECK}", v.f)
    rtab = _dict_literal(r, [4, 8])
    rt = rtab[2] if rtab else None
    chk.ob("io.ovf._from_ovf::check-table", rt == OVF_CHECK, "C09.D3", f"reader check values {rt}; specification {OVF_CHECK}", r.f)
    # check value written first, data written with the table's format
    packs = [c for c, s in v.calls() if ast.unparse(c.func) == "struct.pack"]
    okp = False
    okd = False
    if wt:
        T = local_term(v, wt[1], v.owner(packs[0])) if packs else None
        okp = len(packs) == 1 and (v.eq(v.term(packs[0]), v.spec("struct.pack(*T[representation])", env={"T": T})) or
                                   v.eq(v.term(packs[0]), v.spec("struct.pack(T[representation][0], T[representation][1])", env={"T": T})))
        for c, s in v.calls():
            if isinstance(c.func, ast.Attribute) and c.func.attr == "tobytes":
                t = v.term(c.func.value, at=s)
                cc = decode_call(v.ctx, t)
                if cc and cc[0] == "astype":
                    okd = v.eq(cc[1][1], v.spec("T[representation][0]", env={"T": local_term(v, wt[1], s)}))
    chk.ob("io.ovf._to_ovf::check-value-written", okp, "C09.D3",
           "the data block must start with struct.pack(*table[representation])", v.f)
    chk.ob("io.ovf._to_ovf::data-format", okd, "C09.D3", "chunks must be converted with dtype=table[representation][0]", v.f)
    roles = _reader_roles(r)
    # reader format string
    okf = False
    if "format" in roles and "ovf_v2" in roles and "nbytes" in roles:
        st, nm, t = roles["format"]
        want = r.spec("f\"{'<' if V else '>'}{'d' if N == 8 else 'f'}\"",
                      env={"V": local_term(r, roles["ovf_v2"][1], st), "N": local_term(r, roles["nbytes"][1], st)})
        okf = r.eq(t, want)
    chk.ob("io.ovf._from_ovf::format-string", okf, "C09.D3",
           "reader format must be ('<' for OVF 2.0 else '>') + ('d' for 8 bytes else 'f')", r.f)
    okv = "ovf_v2" in roles and any(is_str(r.ctx, x) is False and "2.0" in r.show(x) for x in r.ctx.args_of(roles["ovf_v2"][2]))
    chk.ob("io.ovf._from_ovf::version-from-first-line", bool(okv) and (decode_call(r.ctx, [x for x in r.ctx.args_of(roles["ovf_v2"][2])
                                                                                         if "next" in r.show(x)][0]) or ("",))[0] == "next"
           if okv else False, "C09.D3", "the OVF version is decided by '2.0' in the first line of the file", r.f)
    # representation words: the constant assigned for each value of `representation` (decided over the finite set of
    # representation names the function mentions, whatever the shape of the dispatch)
    from ..lib import values_reaching, _OTHER
    words = {}
    rep = v.ev._sym("param:representation")
    for st in v.stmts():
        if isinstance(st, ast.Assign) and isinstance(st.targets[0], ast.Name) and isinstance(st.value, ast.Constant) and \
                isinstance(st.value.value, str) and st.value.value.split()[0] in ("Binary", "Text", "binary", "text"):
            vals = values_reaching(v, st, rep)
            for k_ in (vals or {None}):
                words.setdefault(k_, set()).add(st.value.value)
    okw = words == {"bin4": {"Binary 4"}, "bin8": {"Binary 8"}, "txt": {"Text"}}
    words = {k_: sorted(x) for k_, x in words.items()}
    chk.ob("io.ovf._to_ovf::representation-words", okw, "C09.D3",
           f"representation words {words}; OVF: 'Binary 4', 'Binary 8', 'Text' (the reader takes token 3 as mode and the last token "
           "as byte count)", v.f)
    okm = okn = False
    if "mode" in roles and "nbytes" in roles:
        tm, tn = roles["mode"][2], roles["nbytes"][2]
        cm_ = decode_call(r.ctx, tm)
        line_m = decode_call(r.ctx, r.ctx.args_of(cm_[1][0])[0])[1][0]
        cn_ = decode_call(r.ctx, tn)
        line_n = decode_call(r.ctx, r.ctx.args_of(cn_[1][0])[0])[1][0]
        okm = r.eq(tm, r.spec("L.split()[3].lower()", env={"L": line_m}))
        okn = r.eq(tn, r.spec("int(L.split()[-1])", env={"L": line_m})) and r.eq(line_m, line_n)
    chk.ob("io.ovf._from_ovf::mode-tokens", okm and okn, "C09.D3",
           "'# Begin: Data Binary 8' -> mode = token 3 lower-cased, nbytes = int(last token) of the same line", r.f)
    has_else_raise = any(n == "ValueError" and "representation" in ast.unparse(x) for x, n in v.raises())
    chk.ob("io.ovf._to_ovf::unknown-representation-refused", has_else_raise, "C09.D3",
           "representations other than bin4/bin8/txt must raise ValueError", v.f)


# ------------------------------------------------------------------ D4
def d4_damaged(chk, repo, r):
    chk.rule("C09.D4", "damaged binary input: the refusal under `nbytes not in (4, 8) or test_value != check[nbytes]` dominates "
                       "the data read and the construction; the array reaches the constructor only through reshape((*reversed(n), "
                       "valuedim)), so a short data block cannot yield a field")
    # a read into a buffer allocated beforehand has the right size whatever the file holds: its return value (how much was
    # actually read) is the only witness of a truncated data block and must not be thrown away
    for st in r.stmts():
        if isinstance(st, ast.Expr) and isinstance(st.value, ast.Call) and isinstance(st.value.func, ast.Attribute) \
                and st.value.func.attr in ("readinto", "readinto1", "recv_into"):
            chk.ob("io.ovf._from_ovf::short-read-detected", False, "C09.D4",
                   f"`{r.src(st)}`: the number of bytes actually read is discarded, so a data block that is shorter than the "
                   "header promises still yields a field (of uninitialised memory)", r.f, st)
    reads = [s for c, s in r.calls() if ast.unparse(c.func) == "np.fromfile"]
    chk.require(len(reads) == 1, "_from_ovf: np.fromfile vanished")
    roles = _reader_roles(r)
    rtab = _dict_literal(r, [4, 8])
    need = [k for k in ("nbytes", "test_value", "format", "nodes") if k not in roles]
    if need or not rtab:
        chk.ob("io.ovf._from_ovf::check-value-guard", False, "C09.D4",
               f"the reader's {need or 'check table'} could not be located: the check-value test is gone or unrecognisable", r.f, reads[0])
        return
    env = {"N": local_term(r, roles["nbytes"][1], reads[0]), "TV": local_term(r, roles["test_value"][1], reads[0]),
           "CK": local_term(r, rtab[1], reads[0])}
    ok, det = r.guard("N not in (4, 8) or TV != CK[N]", exc=("ValueError",), before=reads[0], env=env)
    chk.ob("io.ovf._from_ovf::check-value-guard", ok, "C09.D4", det, r.f, reads[0])
    st, nm, t = roles["test_value"]
    c = decode_call(r.ctx, r.ctx.args_of(t)[0])
    okt = bool(c and len(c[1]) == 2 and r.eq(c[1][0], local_term(r, roles["format"][1], st)) and
               (decode_call(r.ctx, c[1][1]) or ("",))[0] == ".read" and
               r.eq(decode_call(r.ctx, c[1][1])[1][1], local_term(r, roles["nbytes"][1], st)) and
               is_const(r.ctx, r.ctx.args_of(t)[1], 0))
    chk.ob("io.ovf._from_ovf::check-value-read", okt, "C09.D4",
           "the check value is the first nbytes of the data block unpacked with the data format", r.f)
    c = None
    for call, s in r.calls():
        if ast.unparse(call.func) == "np.fromfile":
            c = decode_call(r.ctx, r.term(call, at=s))
            cs = s
    H = local_term(r, roles["header"], cs)
    okc = bool(c and "count" in c[2] and r.eq(c[2]["count"], r.spec("int(NO * H['valuedim'])", env={"NO": local_term(r, roles["nodes"][1], cs), "H": H}))
               and "dtype" in c[2] and r.eq(c[2]["dtype"], local_term(r, roles["format"][1], cs)))
    chk.ob("io.ovf._from_ovf::data-count", okc, "C09.D4", "exactly nodes*valuedim numbers of the data format are read", r.f)
    st, nm, t = roles["nodes"]
    okn = r.eq(t, r.spec("math.prod(int(H[f'{key}nodes']) for key in 'xyz')", env={"H": local_term(r, roles["header"], st)}))
    chk.ob("io.ovf._from_ovf::node-count", okn, "C09.D4", "nodes must be xnodes*ynodes*znodes", r.f)


# ------------------------------------------------------------------ D5
def d5_chunks(chk, repo, v):
    chk.rule("C09.D5", "chunked binary write covers the whole array exactly once: either chunk i of ceil(len/chunk) chunks is "
                       "[i*chunk, (i+1)*chunk), or the chunks start at range(0, len, chunk) and are [start, start+chunk)")
    okn = oks = False
    det = "no loop writing `<chunk>.tobytes()` found"
    for st in v.stmts():
        if not isinstance(st, ast.For):
            continue
        body = list(walk_stmts(st.body))
        for c, s_ in v.calls():
            if not (isinstance(c.func, ast.Attribute) and c.func.attr == "tobytes" and s_ in body):
                continue
            cc = decode_call(v.ctx, v.term(c.func.value, at=s_))
            if not (cc and cc[0] == "astype"):
                continue
            piece = cc[1][0]
            hp = v.ctx.head_of(piece)
            if not (hp and hp[0] == "sub"):
                det = f"the written chunk {v.show(piece)[:80]} is not a slice"
                continue
            F, sl = v.ctx.args_of(piece)
            hf = v.ctx.head_of(F)
            if not (hf == ("attr", "flat") and (v.ctx.head_of(sl) or ("",))[0] == "slice"):
                det = f"the written chunk {v.show(piece)[:80]} is not a slice of <array>.flat"
                continue
            X = v.ctx.args_of(F)[0]
            lo, hi, step = v.ctx.args_of(sl)
            rng = decode_call(v.ctx, v.term(st.iter, at=st))
            if not (rng and rng[0] == "range" and not rng[2]):
                det = f"the chunk loop runs over {v.show(v.term(st.iter, at=st))[:80]}, not over a range"
                continue
            i_ = each(v, v.term(st.iter, at=st))
            total = [v.spec("len(F)", env={"F": F}), v.spec("X.size", env={"X": X})]
            K = None
            if len(rng[1]) == 1:
                # idiom A: range(ceil(total / K)), slice [i*K, (i+1)*K)
                cn = decode_call(v.ctx, rng[1][0])
                if cn and cn[0] == "math.ceil" and len(cn[1]) == 1:
                    for tot in total:
                        for cand in _int_consts(v, cn[1][0]):
                            if v.eq(cn[1][0], v.spec("T / K", env={"T": tot, "K": v.ctx.const(cand)})):
                                K = v.ctx.const(cand)
                    okn = K is not None
                    if K is not None:
                        oks = v.eq(lo, v.spec("i * K", env={"i": i_, "K": K})) and v.eq(hi, v.spec("(i + 1) * K", env={"i": i_, "K": K}))
                det = f"chunks: range({v.show(rng[1][0])[:60]}), slice [{v.show(lo)[:30]} : {v.show(hi)[:30]}]"
            elif len(rng[1]) == 3:
                # idiom B: range(0, total, K), slice [start, start + K)
                K = rng[1][2]
                okn = is_const(v.ctx, rng[1][0], 0) and any(v.eq(rng[1][1], tot) for tot in total) and \
                    K.const() is not None and K.const() > 1
                oks = okn and v.eq(lo, i_) and v.eq(hi, v.spec("i + K", env={"i": i_, "K": K}))
                det = f"chunks: range({', '.join(v.show(x)[:30] for x in rng[1])}), slice [{v.show(lo)[:30]} : {v.show(hi)[:30]}]"
    chk.ob("io.ovf._to_ovf::chunk-count", okn, "C09.D5",
           f"the chunk starts must cover the whole flattened array (ceil(len/chunk) chunks, or range(0, len, chunk)); {det}", v.f)
    chk.ob("io.ovf._to_ovf::chunk-slices", oks, "C09.D5",
           f"each chunk must be the slice of length chunk that starts where the previous one ended; {det}", v.f)


def _int_consts(v, t):
    """integer constants > 1 occurring in a rational term (candidates for the chunk size)"""
    out = set()
    for p_ in (t.num, t.den):
        for mono, coef in p_.items():
            for x in (coef,):
                if x.denominator == 1 and abs(x) > 1:
                    out.add(int(abs(x)))
                if x.numerator == 1 and x.denominator > 1:
                    out.add(int(x.denominator))
    return sorted(out)


# ------------------------------------------------------------------ D6
def d6_codecs(chk, repo, v, r):
    chk.rule("C09.D6", "codec pairs: the unit None is written as the word 'None' and must be decoded back to None; labels are "
                       "written as field_<label> and the decoder must strip exactly the text up to the FIRST underscore")
    lines, hst = header_template(v)
    unit_expr = lab_expr = None
    for text, exprs in lines:
        if text.startswith("# valueunits:") and exprs:
            unit_expr = exprs[0]
        if text.startswith("# valuelabels:") and exprs:
            lab_expr = exprs[0]
    sent = None
    if unit_expr is not None:
        # the placeholder word: the one non-blank string constant in the value that is written for `valueunits` (followed
        # through temporaries - the value, not the statement that builds it)
        ut = v.term(unit_expr, at=hst)
        words = set()
        for a_id in v.ctx.all_atoms(ut):
            hd = v.ctx.atoms[a_id][0]
            if hd[0] == "str" and isinstance(hd[1], str) and hd[1].strip():
                words.add(hd[1])
        if len(words) == 1 and v.ctx.mentions(ut, v.spec("self.unit")):
            sent = words.pop()
    chk.ob("io.ovf._to_ovf::unit-sentinel", sent is not None, "C09.D6",
           "a field without unit needs a placeholder word in valueunits (one word per component)", v.f)
    # decided on the values that reach the `unit` argument of the returned field (gated reaching definitions: however the
    # decision tree is written): None is among them, and a word read from the file arrives only when it is not the placeholder
    from ..lib import gated_expr
    ok = False
    from ..lib import returned_call
    for ret_stmt in r.returns():
        call, ret_stmt = returned_call(r, ret_stmt)
        if call is None:
            continue
        kwn = [k.value for k in call.keywords if k.arg == "unit"]
        if not kwn or sent is None:
            continue
        alts = gated_expr(r, kwn[0], ret_stmt)
        if not alts:
            continue
        none_alt = [c_ for c_, v_, s_ in alts if is_const(r.ctx, v_, None)]
        words = [(c_, v_) for c_, v_, s_ in alts if not is_const(r.ctx, v_, None)]
        if none_alt and words:
            ok = all(cond_implies(r, c_, r.ev._cmpn("ne", v_, r.ctx.mk(("str", sent)))) for c_, v_ in words) and \
                all(any(hd == ("str", "valueunits") for hd in r.ctx.heads_in(v_)) for c_, v_ in words)
    chk.ob("io.ovf::unit::sentinel-decoded", ok, "C09.D6",
           f"the writer stores {sent!r} for unit=None; the reader must map that word back to None", r.f)
    # labels
    prefix = None
    if isinstance(lab_expr, ast.Name):
        for st in v.stmts():
            if isinstance(st, ast.Assign) and isinstance(st.targets[0], ast.Name) and st.targets[0].id == lab_expr.id:
                for n in ast.walk(st.value):
                    if isinstance(n, ast.JoinedStr) and n.values and isinstance(n.values[0], ast.Constant):
                        prefix = n.values[0].value
    chk.ob("io.ovf._to_ovf::label-prefix", prefix is not None and prefix.endswith("_") and prefix.count("_") == 1, "C09.D6",
           f"labels are written with prefix {prefix!r}", v.f)
    conv = label_decoder(repo, r)
    chk.require(conv is not None, "_from_ovf: label decoder (the function that turns a value label into a component name) vanished")
    okc = False
    det = "no decoding of the prefix found"
    for n in ast.walk(conv.node):
        if isinstance(n, ast.Subscript) and isinstance(n.value, ast.Call) and isinstance(n.value.func, ast.Attribute):
            call = n.value
            if call.func.attr == "split" and call.args and isinstance(call.args[0], ast.Constant) and call.args[0].value == "_":
                maxsplit = None
                if len(call.args) > 1 and isinstance(call.args[1], ast.Constant):
                    maxsplit = call.args[1].value
                for k in call.keywords:
                    if k.arg == "maxsplit" and isinstance(k.value, ast.Constant):
                        maxsplit = k.value.value
                idx = n.slice.value if isinstance(n.slice, ast.Constant) else None
                okc = maxsplit == 1 and idx in (1, -1)
                det = f"`{ast.unparse(n)}`: split('_') without maxsplit=1 cuts labels that themselves contain '_'" if not okc else "ok"
            if call.func.attr == "partition" and call.args and isinstance(call.args[0], ast.Constant) and call.args[0].value == "_":
                okc = isinstance(n.slice, ast.Constant) and n.slice.value == 2
                det = "partition form"
        if isinstance(n, ast.Call) and isinstance(n.func, ast.Attribute) and n.func.attr == "removeprefix":
            okc = True
    chk.ob("io.ovf._from_ovf.convert::strip-first-underscore-only", okc, "C09.D6", det, conv)
    for ret, a in cm.returned_news(r):
        vd = a.get("vdims")
        mem = phi_members(r.ctx, vd) if vd is not None else []
        okv = any(is_const(r.ctx, m, None) for m in mem) and any((r.ctx.head_of(m) or ("",))[0] == "seqcomp" for m in mem)
        chk.ob("io.ovf._from_ovf::labels-passed", okv, "C09.D6",
               "decoded labels (or None when absent / not unique) must be passed as vdims", r.f, ret)


# ------------------------------------------------------------------ D7
def d7_extend_scalar(chk, repo, v):
    chk.rule("C09.D7", "consistent qualification: extend_scalar only ever applies to scalar fields - every test of the flag is "
                       "qualified by nvdim == 1 (contradiction rule: it is qualified where write_dim is computed)")
    want = v.spec("extend_scalar and self.nvdim == 1")
    raw = v.spec("extend_scalar")
    n = 0
    for st in v.stmts():
        tests = []
        if isinstance(st, ast.If):
            tests.append(st.test)
        for sub in ast.walk(st) if isinstance(st, (ast.Assign, ast.Expr, ast.Return)) else []:
            if isinstance(sub, ast.IfExp):
                tests.append(sub.test)
        for te in tests:
            t = v.term(te, at=st)
            if not v.ctx.mentions_or_eq(t, raw):
                continue
            ok = v.ctx.mentions_or_eq(t, want) and not _mentions_raw(v, t, raw, want)
            n += 1
            chk.ob(f"io.ovf._to_ovf::extend-scalar-qualified#{n}", ok, "C09.D7",
                   f"`{v.src(te)}` (line {te.lineno}) tests the flag without requiring nvdim == 1: for a vector field with "
                   "extend_scalar=True the data block no longer matches the header", v.f, st)
    chk.require(n >= 3, f"_to_ovf: only {n} tests of extend_scalar found")


def _mentions_raw(v, t, raw, qualified):
    """does t use the bare flag outside the qualified conjunction"""
    stripped = v.ctx.subst(t, {qualified.single_atom(): v.ctx.mk(("sym", "QUALIFIED"))}) if qualified.single_atom() is not None else t
    if v.eq(t, qualified):
        return False
    return v.ctx.mentions_or_eq(stripped, raw)


# ------------------------------------------------------------------ D8
def d8_dispatch(chk, repo):
    chk.rule("C09.D8", "dispatch and side-car: every extension to_file writes is read by from_file; subregions are saved next to "
                       "the file iff they exist and save_subregions is set, and loaded when the side-car is present")
    w = FV(repo, "io._FieldIO.to_file", self_type=FIELD)
    r = FV(repo, "io._FieldIO.from_file", self_type=FIELD)

    from ..lib import reach_values, subject_constants, _OTHER

    def suffix_sets(v, names):
        """format call -> set of extensions under which it is reached (decided over the finitely many extension strings the
        suffix is compared with, plus one other value); also the set of values that end in ValueError"""
        subject = v.spec("pathlib.Path(filename).suffix")
        sites = {}
        for call, st in v.calls():
            if isinstance(call.func, ast.Attribute) and call.func.attr in names:
                sites[call.func.attr] = st
        conds = []
        for st in list(sites.values()) + [x for x, n in v.raises()]:
            conds += [path_term(v, st)] + context_literals(v, st)
        cands = sorted(subject_constants(v.ctx, conds, subject))
        out = {}
        for name, st in sites.items():
            rv = reach_values(v, st, subject, cands)
            out[name] = None if any(x is None for x in rv.values()) else {c for c, x in rv.items() if x}
        refused = set()
        for x, n in v.raises():
            if n == "ValueError":
                rv = reach_values(v, x, subject, cands)
                refused |= {c for c, b in rv.items() if b}
        return out, refused, cands
    ws, wref, wc = suffix_sets(w, ("_to_ovf", "_to_vtk", "_to_hdf5"))
    rs, rref, rc = suffix_sets(r, ("_from_ovf", "_from_vtk", "_from_hdf5"))
    pairs = {"_to_ovf": "_from_ovf", "_to_vtk": "_from_vtk", "_to_hdf5": "_from_hdf5"}
    for a, b in pairs.items():
        ok = bool(ws.get(a)) and bool(rs.get(b)) and ws[a] <= rs[b] and _OTHER not in ws[a]
        chk.ob(f"io._FieldIO::dispatch::{a[4:]}", ok, "C09.D8",
               f"to_file writes {sorted(ws[a]) if ws.get(a) else ws.get(a)} via {a}; from_file reads "
               f"{sorted(rs[b]) if rs.get(b) else rs.get(b)} via {b}", w.f)
    for q, ref in ((w, wref), (r, rref)):
        chk.ob(f"{q.f.qual}::unknown-extension-refused", _OTHER in ref, "C09.D8", "unknown extensions must raise ValueError", q.f)
    # forwarding of the writer's options
    for call, st in w.calls():
        if isinstance(call.func, ast.Attribute) and call.func.attr == "_to_ovf":
            kw = {k.arg: w.term(k.value, at=st) for k in call.keywords if k.arg}
            ok = all(is_sym(w.ctx, kw.get(n_, w.ctx.const(0)), f"param:{n_}") for n_ in ("representation", "extend_scalar", "save_subregions"))
            chk.ob("io._FieldIO.to_file::ovf-options-forwarded", ok, "C09.D8",
                   "representation, extend_scalar and save_subregions must be forwarded to _to_ovf", w.f, call)
    v = FV(repo, OVF + "_to_ovf", self_type=FIELD)
    ok = False
    for st in v.stmts():
        if isinstance(st, ast.If) and v.eq(v.ev.term(st.test, at=st), v.spec("save_subregions and self.mesh.subregions")):
            ok = any(isinstance(s2, ast.Expr) and v.eq(v.term(s2.value, at=s2), v.spec("self.mesh.save_subregions(filename)", at=s2))
                     for s2 in st.body)
    chk.ob("io.ovf._to_ovf::side-car-written", ok, "C09.D8",
           "self.mesh.save_subregions(filename) must run iff save_subregions and the mesh has subregions", v.f)
    rd = FV(repo, OVF + "_from_ovf", self_type=FIELD)
    ok = False
    for st in rd.stmts():
        if isinstance(st, ast.With) and "suppress(FileNotFoundError)" in ast.unparse(st.items[0].context_expr):
            ok = any(isinstance(s2, ast.Expr) and isinstance(s2.value, ast.Call) and isinstance(s2.value.func, ast.Attribute) and
                     s2.value.func.attr == "load_subregions" for s2 in st.body)
    chk.ob("io.ovf._from_ovf::side-car-loaded", ok, "C09.D8",
           "mesh.load_subregions(filename) must be attempted (a missing side-car is not an error)", rd.f)
    m = FV(repo, "io._MeshIO.save_subregions", self_type=MESH)
    l = FV(repo, "io._MeshIO.load_subregions", self_type=MESH)
    same = "_subregion_filename" in ast.unparse(m.f.node) and "_subregion_filename" in ast.unparse(l.f.node)
    chk.ob("io._MeshIO::side-car-name-shared", same, "C09.D8", "writer and reader must derive the side-car name the same way", m.f)


# ------------------------------------------------------------------ D9
def _calls_named(v, name):
    out = []
    for call, st in v.calls():
        c = decode_call(v.ctx, v.term(call, at=st))
        if c and c[0] == name:
            out.append((call, st, c))
    return out


def d9_details(chk, repo, v, r):
    chk.rule("C09.D9", "branch selection and format details: the binary block is written exactly for the binary representations "
                       "and read exactly for files whose data line says Binary; scalar fields extended to three components get "
                       "two zero components after the value; text rows are space separated without header or index; header "
                       "lines are split at the first colon into key and value; labels lose their prefix only when they have "
                       "one; the unit is the single repeated unit; every file extension is routed to its own format")
    # ---- writer: which block
    packs = _calls_named(v, "struct.pack")
    csvs = _calls_named(v, ".to_csv")
    chk.require(packs and csvs, "_to_ovf: the check-value write or the text writer vanished")
    tbl = _dict_literal(v, ["bin4", "bin8"])
    chk.require(tbl is not None, "_to_ovf: binary table vanished")
    want_bin = v.spec(f"representation in {tbl[1]}", at=packs[0][1])
    chk.ob("io.ovf._to_ovf::binary-block-iff-binary-representation", reached_iff(v, packs[0][1], want_bin), "C09.D9",
           f"the check value is written under {v.show(path_term(v, packs[0][1]))[:120]}; expected: representation is bin4 or bin8",
           v.f, packs[0][1])
    chk.ob("io.ovf._to_ovf::text-block-iff-text-representation",
           reached_iff(v, csvs[0][1], v.ev._not(want_bin)), "C09.D9",
           f"text rows are written under {v.show(path_term(v, csvs[0][1]))[:120]}; expected: representation is not a binary one",
           v.f, csvs[0][1])
    # ---- writer: scalar extended to three components
    stacks = _calls_named(v, "np.stack")
    chk.require(len(stacks) == 1, "_to_ovf: expected one np.stack (extension of scalar fields)")
    call, st, c = stacks[0]
    okx = False
    if c[1]:
        tup = v.ctx.args_of(c[1][0]) if (v.ctx.head_of(c[1][0]) or ("",))[0] == "tuple" else ()
        if len(tup) == 3:
            base = tup[0]
            z = v.spec("np.zeros_like(b)", env={"b": base})
            okx = v.eq(tup[1], z) and v.eq(tup[2], z) and "axis" in c[2] and is_const(v.ctx, c[2]["axis"], -1) and \
                v.eq(base, v.spec("self.array.transpose((2, 1, 0, 3)).reshape(list(reversed(self.mesh.n)))"))
    chk.ob("io.ovf._to_ovf::extended-scalar-binary", okx, "C09.D9",
           f"`{v.src(call)[:100]}`: expected the (z, y, x) array followed by two zero components along a new last axis", v.f, st)
    ins = _calls_named(v, ".insert")
    got = sorted((v.show(c_[2].get("loc")), v.show(c_[2].get("value"))) for _, _, c_ in ins)
    complete = all(len(c_[1]) - 1 + len(c_[2]) == 3 and ("column" in c_[2] or len(c_[1]) >= 3) for _, _, c_ in ins)
    chk.ob("io.ovf._to_ovf::text-columns", got == [("0", "''"), ("2", "0"), ("3", "0")] and complete, "C09.D9",
           f"text columns inserted at (position, value) {got}; expected an empty leading column and, for extended scalars, zero "
           "columns right after the value column", v.f, ins[0][1] if ins else None)
    for call, st, c_ in ins:
        if not is_const(v.ctx, c_[2].get("loc", v.ctx.const(-9)), 0):
            pt = path_term(v, st)
            chk.ob(f"io.ovf._to_ovf::text-extension-iff-extended@{v.show(c_[2].get('loc'))}",
                   reached_implies(v, st, v.spec("extend_scalar and self.nvdim == 1")) and
                   implies_reached(v, v.ev._bool("and", [v.spec("extend_scalar and self.nvdim == 1"), v.ev._not(want_bin)]), st),
                   "C09.D9", f"zero column inserted under {v.show(pt)[:140]}", v.f, st)
    call, st, c_ = csvs[0]
    okc = is_str(v.ctx, c_[2].get("sep", v.ctx.const(0)), " ") and is_const(v.ctx, c_[2].get("header", v.ctx.const(0)), False) and \
        is_const(v.ctx, c_[2].get("index", v.ctx.const(0)), False)
    chk.ob("io.ovf._to_ovf::text-format", okc, "C09.D9",
           f"`{v.src(call)}`: rows must be space separated, without a header row and without the row index", v.f, st)
    # ---- reader
    roles = _reader_roles(r)
    chk.require("mode" in roles and "nbytes" in roles, "_from_ovf: mode / nbytes assignments not found")
    mode_name = roles["mode"][1]
    ff = _calls_named(r, "np.fromfile")
    rc = _calls_named(r, "pandas.read_csv") or _calls_named(r, "pd.read_csv")
    chk.require(ff and rc, "_from_ovf: np.fromfile / read_csv vanished")
    is_bin = r.spec(f"{mode_name} == 'binary'", at=ff[0][1])
    chk.ob("io.ovf._from_ovf::binary-read-iff-binary-file", reached_iff(r, ff[0][1], is_bin), "C09.D9",
           f"np.fromfile runs under {r.show(path_term(r, ff[0][1]))[:140]}; expected: the data line says Binary", r.f, ff[0][1])
    chk.ob("io.ovf._from_ovf::text-read-iff-text-file", reached_iff(r, rc[0][1], r.ev._not(is_bin)), "C09.D9",
           f"read_csv runs under {r.show(path_term(r, rc[0][1]))[:140]}; expected: the data line does not say Binary", r.f, rc[0][1])
    nb = roles["nbytes"][0]
    par = r.cfg.parent.get(id(nb))
    oknb = bool(par and isinstance(par[0], ast.If) and par[1] == "body" and
                r.eq(r.ev.term(par[0].test, at=par[0]), r.spec(f"{mode_name} == 'binary'", at=par[0])))
    chk.ob("io.ovf._from_ovf::byte-count-iff-binary", oknb, "C09.D9",
           "the byte count is parsed from the data line exactly for binary files", r.f, nb)
    # fromfile result is one row per cell
    okrs = False
    for call, st, c_ in _calls_named(r, ".reshape"):
        inner = decode_call(r.ctx, c_[1][0])
        if inner and inner[0] == "np.fromfile":
            hdr = local_term(r, roles["header"], st)
            okrs = r.eq(c_[1][1], r.spec("(-1, H['valuedim'])", env={"H": hdr}))
    chk.ob("io.ovf._from_ovf::binary-rows", okrs, "C09.D9", "the binary block must be reshaped to (-1, valuedim)", r.f, ff[0][1])
    kw = rc[0][2][2]
    okk = is_str(r.ctx, kw.get("sep", r.ctx.const(0)), " ") and is_const(r.ctx, kw.get("header", r.ctx.const(0)), None) and \
        is_const(r.ctx, kw.get("skipinitialspace", r.ctx.const(0)), True) and \
        (is_str(r.ctx, kw.get("comment", r.ctx.const(0)), "#") or
         ("nrows" in kw and r.eq(kw["nrows"], local_term(r, roles["nodes"][1], rc[0][1]))))
    chk.ob("io.ovf._from_ovf::text-format", okk, "C09.D9",
           f"`{r.src(rc[0][0])[:120]}`: rows are space separated with leading blanks, there is no header row, and the footer "
           "must be kept out (row limit = number of nodes, or '#' comments)", r.f, rc[0][1])
    drops = _calls_named(r, ".drop")
    for call, st, c_ in drops:
        pt = r.ev.term(r.cfg.parent[id(st)][0].test, at=r.cfg.parent[id(st)][0]) if isinstance(r.cfg.parent.get(id(st), (None,))[0], ast.If) else None
        frame = c_[1][0]
        hdr = local_term(r, roles["header"], st)
        okd = pt is not None and r.eq(pt, r.spec("len(A.columns) == H['valuedim'] + 1", env={"A": frame, "H": hdr})) and \
            len(c_[1]) == 2 and r.eq(c_[1][1], r.spec("A.columns[-1]", env={"A": frame})) and \
            is_const(r.ctx, c_[2].get("axis", r.ctx.const(0)), 1) and is_const(r.ctx, c_[2].get("inplace", r.ctx.const(0)), True)
        chk.ob("io.ovf._from_ovf::trailing-column", okd, "C09.D9",
               f"`{r.src(call)}` under `{r.src(r.cfg.parent[id(st)][0].test) if pt is not None else '?'}`: exactly one surplus column "
               "(trailing blanks of foreign writers) is removed, the last one, in place", r.f, st)
    # header lines
    okh = False
    for st in r.stmts():
        if isinstance(st, ast.Assign) and isinstance(st.targets[0], ast.Subscript) and isinstance(st.targets[0].value, ast.Name) \
                and st.targets[0].value.id == roles["header"]:
            idx = r.ev._index(st.targets[0].slice, r.cfg.node(st), None)
            if is_str(r.ctx, idx):
                continue
            val = r.term(st.value, at=st)
            ci = decode_call(r.ctx, idx)
            if ci and ci[0] == ".strip":
                h0 = r.ctx.head_of(ci[1][0])
                if h0 and h0[0] == "sub":
                    parts = r.ctx.args_of(ci[1][0])[0]
                    cs = decode_call(r.ctx, parts)
                    line_ok = bool(cs and cs[0] == ".split" and len(cs[1]) == 2 and is_str(r.ctx, cs[1][1], ":"))
                    src_ = cs[1][0] if line_ok else None
                    hs = r.ctx.head_of(src_) if src_ is not None else None
                    okh = line_ok and r.eq(idx, r.spec("P[0].strip()", env={"P": parts})) and \
                        r.eq(val, r.spec("P[1].strip()", env={"P": parts})) and \
                        reached_iff(r, st, r.spec("len(P) > 1", env={"P": parts}), [r.spec("len(P)", env={"P": parts})]) \
                        and bool(hs and hs[0] == "sub" and r.eq(src_, r.spec("L[1:]", env={"L": r.ctx.args_of(src_)[0]})))
    chk.ob("io.ovf._from_ovf::header-lines", okh, "C09.D9",
           "a header line '# key: value' must be stored as key = text before the first colon (without the leading #), value = "
           "text after it, both stripped, for lines that contain a colon", r.f)
    # labels
    conv = label_decoder(repo, r)
    if conv is not None:
        w = FV(repo, conv.qual, ctx=r.ctx) if False else FV(repo, conv.qual)
        pname = conv.node.args.args[0].arg
        first = [s_ for s_ in w.stmts() if isinstance(s_, ast.Assign)]
        okl = bool(first) and w.eq(w.term(first[0].value, at=first[0]),
                                   w.spec(f"{pname}.split('_', 1)[1] if '_' in {pname} else {pname}"))
        if not okl and first:
            # the same decision written as a statement: `if '_' in p: p = p.split('_', 1)[1]`
            okl = w.eq(w.term(first[0].value, at=first[0]), w.spec(f"{pname}.split('_', 1)[1]")) and \
                isinstance(first[0].targets[0], ast.Name) and first[0].targets[0].id == pname and \
                reached_iff(w, first[0], w.spec(f"'_' in {pname}"))
        chk.ob("io.ovf._from_ovf.convert::prefix-only-when-present", okl, "C09.D9",
               f"`{w.src(first[0]) if first else '?'}`: the part before the first underscore is dropped exactly when there is an "
               "underscore; other labels are kept whole", w.f, first[0] if first else None)
    # labels unique or none; units - decided on the gated values that reach the constructor (however the decision trees are
    # written): a label list arrives only when its entries are distinct, a unit word only when the list of unit words is
    # non-empty and all its entries agree
    from ..lib import gated_expr

    def kw_alts(kwname):
        from ..lib import returned_call
        for ret_stmt in r.returns():
            call, ret_stmt = returned_call(r, ret_stmt)
            if call is not None:
                kwn = [k.value for k in call.keywords if k.arg == kwname]
                if kwn:
                    return gated_expr(r, kwn[0], ret_stmt) or [], ret_stmt
        return [], None
    alts, ret_stmt = kw_alts("vdims")
    lists = [(c_, v_) for c_, v_, s_ in alts if not is_const(r.ctx, v_, None)]
    oklab = any(is_const(r.ctx, v_, None) for c_, v_, s_ in alts) and bool(lists) and \
        all(cond_implies(r, c_, r.spec("len(L) == len(set(L))", env={"L": v_})) for c_, v_ in lists)
    chk.ob("io.ovf._from_ovf::duplicate-labels-dropped", oklab, "C09.D9",
           "labels that are not unique must be discarded (vdims=None): the decoded list may reach the constructor only when "
           "len(labels) == len(set(labels))", r.f, ret_stmt)
    alts, ret_stmt = kw_alts("unit")
    words = [(c_, v_) for c_, v_, s_ in alts if not is_const(r.ctx, v_, None)]
    U = None
    oku = bool(words)
    for c_, w_ in words:
        hw = r.ctx.head_of(w_)
        if not (hw and hw[0] == "sub" and is_const(r.ctx, r.ctx.args_of(w_)[1], 0)):
            oku = False
            break
        U = r.ctx.args_of(w_)[0]
        nU = r.spec("len(U)", env={"U": U})
        nS = r.spec("len(set(U))", env={"U": U})
        # len(set(U)) <= len(U), and one is 0 exactly when the other is
        pre = (lambda vals: vals[1] <= vals[0] and (vals[0] == 0) == (vals[1] == 0))
        oku = oku and cond_implies(r, c_, r.spec("len(U) != 0 and len(set(U)) == 1", env={"U": U}), [nU, nS], pre=pre)
    chk.ob("io.ovf._from_ovf::unit-is-the-single-repeated-unit", oku, "C09.D9",
           "a unit word may reach the constructor only when the list of unit words is non-empty and all its entries agree "
           "(then it is the first entry)", r.f, ret_stmt)
    okf = U is not None and any(hd == ("str", "valueunits") for hd in r.ctx.heads_in(U)) and \
        any(hd[0] == "call" and hd[1] == ".split" for hd in r.ctx.heads_in(U))
    chk.ob("io.ovf._from_ovf::unit-list-found", okf, "C09.D9", "the unit words must be header['valueunits'].split()", r.f)
    # ---- dispatch: each extension set selects its own format (decided over the finite set of extension strings)
    from ..lib import reach_values, subject_constants, _OTHER
    own_ext = {"ovf": {".omf", ".ovf", ".ohf"}, "vtk": {".vtk"}, "hdf5": {".hdf5", ".h5"}}
    for q, calls in (("io._FieldIO.to_file", ("_to_ovf", "_to_vtk", "_to_hdf5")),
                     ("io._FieldIO.from_file", ("_from_ovf", "_from_vtk", "_from_hdf5"))):
        d = FV(repo, q)
        subject = d.spec("pathlib.Path(filename).suffix")
        sites = {}
        for call, st in d.calls():
            if isinstance(call.func, ast.Attribute) and call.func.attr in calls:
                sites[call.func.attr] = st
        chk.require(len(sites) == 3, f"{q}: the three format calls were not found")
        conds = []
        for st in sites.values():
            conds += [path_term(d, st)] + context_literals(d, st)
        cands = sorted(subject_constants(d.ctx, conds, subject))
        got = {}
        for name, st in sites.items():
            rv = reach_values(d, st, subject, cands)
            got[name] = None if any(x is None for x in rv.values()) else {c for c, x in rv.items() if x}
        for name, st in sites.items():
            fmt = name.split("_")[-1]
            mine = got[name]
            oks = mine is not None and own_ext[fmt] <= mine and _OTHER not in mine and \
                not any(mine & own_ext[f2] for f2 in own_ext if f2 != fmt)
            if q.endswith("to_file"):
                oks = oks and mine == own_ext[fmt]
            chk.ob(f"{q}::{name}::selected-by-its-extensions", oks, "C09.D9",
                   f"{name} runs for the extensions {sorted(mine) if mine is not None else 'undecided'}; it must run for the "
                   f"extensions of its own format {sorted(own_ext[fmt])} and for none of another format", d.f, st)
    d9_sidecar(chk, repo)


def d9_sidecar(chk, repo):
    """side-car writer opens for writing and knows how to encode regions (shared with C14)"""
    chk.rule("C09.D9", "the side-car file is opened for writing and regions are encoded by the Region JSON encoder")
    m = FV(repo, "io._MeshIO.save_subregions")
    opens = [(call, st) for call, st in m.calls() if isinstance(call.func, ast.Attribute) and call.func.attr == "open"]
    okm = False
    for call, st in opens:
        md = [k.value for k in call.keywords if k.arg == "mode"] + list(call.args[:1])
        okm = any(isinstance(x, ast.Constant) and isinstance(x.value, str) and "w" in x.value for x in md)
    chk.ob("io._MeshIO.save_subregions::opened-for-writing", okm, "C09.D9", "the side-car file must be opened in a write mode", m.f)
    dumps = _calls_named(m, "json.dump")
    okj = bool(dumps) and m.eq(dumps[0][2][1][0], m.spec("self.subregions")) and "cls" in dumps[0][2][2] and \
        "JSONEncoder" in m.show(dumps[0][2][2]["cls"])
    chk.ob("io._MeshIO.save_subregions::regions-encoded", okj, "C09.D9",
           "json.dump(self.subregions, f, cls=<the Region JSON encoder>): plain json cannot serialise Region objects", m.f,
           dumps[0][1] if dumps else None)
