"""C17 - xarray export/import is lossless and uses cell centres as coordinates."""
import ast

from ..model import AnalysisError
from ..lib import FV, decode_new, decode_call, phi_members, is_sym, is_const, is_str, strip_stores, stores_of
from ..lib import (reached_iff, reached_implies, implies_reached, reached_iff_any, path_term, cond_equiv, cond_implies,  # noqa: F401
                   else_stmts, branch_stmts, context_literals)
from ..cfg import always_raises, walk_stmts
from . import common as cm
from . import geom
from .common import FIELD, MESH, REGION
from .c01 import each, _single_return

FLOOR = 20
ANCHORS = [
    'field.Field.to_xarray',
    'field.Field.from_xarray',
]   # functions whose code the property is anchored in (mutation analysis, evidence)


def run(chk):
    repo = chk.repo
    cm.schema(chk, repo, "C17")
    d1_export(chk, repo)
    d2_refusals(chk, repo)
    d3_reconstruction(chk, repo)
    d4_construction(chk, repo)
    chk.trust("xarray.DataArray(data, dims, coords, attrs) keeps data, coordinates and attributes as given; DataArray.values / "
              ".attrs / .dims / .coords return them")
    chk.assume("equality of the round-tripped field and the np.allclose spacing decision are not decided")


def d1_export(chk, repo):
    chk.rule("C17.D1", "export: every spatial coordinate is mesh.cells.<dim>; vector fields get a 'vdims' dimension whose "
                       "coordinate lists the labels; scalar fields squeeze the component axis; attrs carry units, cell, pmin, pmax, "
                       "nvdim, tolerance_factor; every spatial coordinate carries the region's unit of that axis")
    v = FV(repo, "field.Field.to_xarray")
    rets = [r for r in v.returns() if r.value is not None]
    chk.require(rets, "to_xarray: no return")
    da = None
    for st in v.stmts():
        if isinstance(st, ast.Assign) and isinstance(st.targets[0], ast.Name):
            c = decode_call(v.ctx, v.term(st.value, at=st))
            if c and c[0].endswith("DataArray"):
                da = (st, c)
    chk.require(da is not None, "to_xarray: DataArray construction vanished")
    st, c = da
    kw = c[2]
    data = c[1][0] if c[1] else kw.get("data")
    mem = phi_members(v.ctx, data)
    okd = len(mem) == 2 and any(v.eq(m, v.spec("self.array")) for m in mem) and \
        any(v.eq(m, v.spec("np.squeeze(self.array, axis=-1)")) for m in mem)
    chk.ob("field.Field.to_xarray::data", okd, "C17.D1",
           f"data alternatives {[v.show(m) for m in mem]}; expected self.array (vectors) or squeeze(self.array, -1) (scalars)", v.f, st)
    sq_ok = False
    for s in v.stmts():
        if isinstance(s, ast.If) and v.eq(v.ev.term(s.test, at=s), v.spec("self.nvdim > 1")):
            tb = [v.term(x.value, at=x) for x in s.body if isinstance(x, ast.Assign) and isinstance(x.targets[0], ast.Name)]
            te = [v.term(x.value, at=x) for x in s.orelse if isinstance(x, ast.Assign) and isinstance(x.targets[0], ast.Name)]
            sq_ok = any(v.eq(t, v.spec("self.array")) for t in tb) and any(v.eq(t, v.spec("np.squeeze(self.array, axis=-1)")) for t in te) \
                and any(v.eq(t, v.spec("self.mesh.region.dims + ('vdims',)")) for t in tb) and \
                any(v.eq(t, v.spec("self.mesh.region.dims")) for t in te)
    chk.ob("field.Field.to_xarray::vector-scalar-layout", sq_ok, "C17.D1",
           "nvdim > 1: dims + ('vdims',) with the full array; scalar: dims with the squeezed array", v.f)
    coords = kw.get("coords")
    base = strip_stores(v.ctx, coords) if coords is not None else []
    okc = len(base) == 1 and v.eq(base[0], v.spec("{axis: getattr(self.mesh.cells, axis) for axis in self.mesh.region.dims}"))
    chk.ob("field.Field.to_xarray::cell-centre-coordinates", okc, "C17.D1",
           f"coords base {v.show(base[0])[:160] if base else None}; expected {{dim: mesh.cells.<dim>}}", v.f, st)
    sts = stores_of(v.ctx, coords) if coords is not None else []
    okl = any(is_str(v.ctx, i, "vdims") and v.eq(val, v.spec("self.vdims")) for i, val in sts)
    chk.ob("field.Field.to_xarray::label-coordinate", okl, "C17.D1", "coords['vdims'] must be the component labels", v.f, st)
    from ..lib import cond_equiv, path_term
    for s2 in v.stmts():
        if isinstance(s2, ast.Assign) and isinstance(s2.targets[0], ast.Subscript):
            idx = v.ev._index(s2.targets[0].slice, v.cfg.node(s2), None)
            if is_str(v.ctx, idx, "vdims"):
                pt = path_term(v, s2)
                chk.ob("field.Field.to_xarray::labels-exported-iff-present", cond_equiv(
                    v, pt, v.spec("self.nvdim > 1 and self.vdims is not None"), [v.spec("self.nvdim")]), "C17.D1",
                    f"the label coordinate is set under {v.show(pt)}; expected: vector field with labels", v.f, s2)
    okdn = kw.get("dims") is not None and kw.get("name") is not None and is_sym(v.ctx, kw["name"], "param:name")
    if okdn:
        md = phi_members(v.ctx, kw["dims"])
        okdn = len(md) == 2 and any(v.eq(m, v.spec("self.mesh.region.dims + ('vdims',)")) for m in md) and \
            any(v.eq(m, v.spec("self.mesh.region.dims")) for m in md)
    chk.ob("field.Field.to_xarray::dimension-names", okdn, "C17.D1",
           "the DataArray must be built with dims = the region's dims (+ 'vdims' for vectors) and the requested name", v.f, st)
    for text, key in (("not isinstance(name, str)", "name-is-a-string"),
                      ("unit is not None and not isinstance(unit, str)", "unit-is-a-string-or-none")):
        okg, det = v.guard(text, exc=("TypeError",), before=st)
        chk.ob(f"field.Field.to_xarray::refuses::{key}", okg, "C17.D1", det, v.f)
    at = kw.get("attrs")
    from ..lib import mapping_entries
    ents = {}
    for k_, v_, c_ in (mapping_entries(v.ctx, at) if at is not None else []):
        hk = v.ctx.head_of(k_)
        if hk and hk[0] == "str" and not c_:
            ents[hk[1]] = v_
    want = {"cell": "self.mesh.cell", "pmin": "self.mesh.region.pmin", "pmax": "self.mesh.region.pmax", "nvdim": "self.nvdim",
            "tolerance_factor": "self.mesh.region.tolerance_factor"}
    oka = bool(ents) and all(k in ents and v.eq(ents[k], v.spec(s_)) for k, s_ in want.items()) and "units" in ents
    chk.ob("field.Field.to_xarray::attributes", oka, "C17.D1",
           f"attrs {sorted(ents) if ents else None}; expected units, cell, pmin, pmax, nvdim, tolerance_factor from the field", v.f, st)
    if "units" in ents:
        # `unit or self.unit`: the explicit argument wins, otherwise the field's unit
        oku = v.eq(ents["units"], v.spec("unit or self.unit"))
        chk.ob("field.Field.to_xarray::unit-attribute", oku, "C17.D1",
               f"units attribute is {v.show(ents['units'])[:80]}; must be `unit or self.unit`", v.f, st)
    # per-dimension units
    oku = False
    for s in v.stmts():
        if isinstance(s, ast.For):
            it = v.term(s.iter, at=s)
            if v.eq(it, v.spec("dict(zip(self.mesh.region.dims, self.mesh.region.units))")):
                d = each(v, it)
                for s2 in s.body:
                    if isinstance(s2, ast.Assign) and isinstance(s2.targets[0], ast.Subscript):
                        idx = v.ev._index(s2.targets[0].slice, v.cfg.node(s2), None)
                        val = v.term(s2.value, at=s2)
                        tgt = s2.targets[0].value
                        oku = is_str(v.ctx, idx, "units") and v.eq(val, v.ctx.mk(("sub",), (it, d))) and \
                            isinstance(tgt, ast.Attribute) and tgt.attr == "attrs" and isinstance(tgt.value, ast.Subscript) and \
                            v.eq(v.ev._index(tgt.value.slice, v.cfg.node(s2), None), d)
    chk.ob("field.Field.to_xarray::coordinate-units", oku, "C17.D1",
           "data_array[dim].attrs['units'] must be the region's unit of that same dim", v.f)
    # reader consumes only what the writer provides
    r = FV(repo, "field.Field.from_xarray")
    read = set()
    for n in ast.walk(r.f.node):
        if isinstance(n, ast.Subscript) and isinstance(n.value, ast.Attribute) and n.value.attr == "attrs" and \
                isinstance(n.slice, ast.Constant) and ast.unparse(n.value.value) == "xa":
            read.add(n.slice.value)
    chk.ob("field.Field::xarray-attribute-names-agree", bool(ents) and read <= set(ents) and len(read) >= 4, "C17.D1",
           f"from_xarray reads attrs {sorted(read)}; to_xarray writes {sorted(ents) if ents else None}", r.f)


def d2_refusals(chk, repo):
    chk.rule("C17.D2", "import refuses, before anything is built: non-DataArray input, missing nvdim, nvdim < 1, non-integer nvdim, "
                       "vector data without a 'vdims' dimension, unevenly spaced coordinates, single-cell directions without 'cell'")
    v = FV(repo, "field.Field.from_xarray")
    rets = [r for r in v.returns() if r.value is not None]
    first_build = None
    for call, st in v.calls():
        t = v.term(call, at=st)
        if (v.ctx.head_of(t) or ("",))[0] == "new" and first_build is None:
            first_build = st
    chk.require(first_build is not None, "from_xarray: no construction")
    for cond, exc, key in (("not isinstance(xa, xr.DataArray)", ("TypeError",), "type"),
                           ("'nvdim' not in xa.attrs", ("KeyError",), "nvdim-missing"),
                           ("xa.attrs['nvdim'] > 1 and 'vdims' not in xa.dims", ("ValueError",), "vdims-missing")):
        ok, det = v.guard(cond, exc=exc, before=first_build)
        chk.ob(f"field.Field.from_xarray::refuses::{key}", ok, "C17.D2", det, v.f)
    for cond, exc, key in (("xa.attrs['nvdim'] < 1", ("ValueError",), "nvdim-positive"),
                           ("not isinstance(xa.attrs['nvdim'], numbers.Integral)", ("TypeError",), "nvdim-integer")):
        ok = geom._guard_in_function(v, cond) and all(v.cfg.reachable(v.cfg.node(r_), v.cfg.node(first_build)) is False
                                                      for r_, n_ in v.raises() if False)
        chk.ob(f"field.Field.from_xarray::refuses::{key}", ok, "C17.D2", f"`{cond}` must raise {exc[0]}", v.f)
    # ... and the importer accepts exactly the integer types the constructor accepts (numpy integers come out of HDF5 / netCDF
    # attributes: a field loaded from such a file must still round-trip)
    ci = FV(repo, "field.Field.__init__")
    same_t = geom._guard_in_function(ci, "not isinstance(nvdim, numbers.Integral)") and \
        geom._guard_in_function(v, "not isinstance(xa.attrs['nvdim'], numbers.Integral)")
    chk.ob("field.Field.from_xarray::nvdim-type-as-constructor", same_t, "C17.D2",
           "Field.__init__ accepts any numbers.Integral as nvdim (numpy integers included); from_xarray must test the attribute "
           "with the same type, otherwise a field whose nvdim is a numpy integer exports but cannot be imported", v.f)
    # uneven spacing inside the loop over the spatial dims
    oks = False
    dims_list = v.spec("[dim for dim in xa.dims if dim != 'vdims']")
    # (an element-wise guard loop `for i in dims: if bad(i): raise` is read as `if any(bad(i) for i in dims): raise`)
    want = v.spec("any(xa[i].values.size > 1 and (not np.allclose(np.diff(xa[i].values), np.diff(xa[i].values).mean(), atol=0)) "
                  "for i in D)", env={"D": dims_list})
    ves = [r_ for r_, n_ in v.raises() if n_ == "ValueError"]
    hit = [r_ for r_ in ves if v.cfg.dominates(v.cfg.node(v.cfg.parent[id(r_)][0]), v.cfg.node(first_build))
           and v.cfg.parent.get(id(r_), (None,))[0] is not None
           and v.eq(v.ev.term(v.cfg.parent[id(r_)][0].test, at=v.cfg.parent[id(r_)][0]), want)]
    oks = bool(hit)
    for r_ in ves:
        par = v.cfg.parent.get(id(r_))
        if par and isinstance(par[0], ast.If):
            ct = v.ev.term(par[0].test, at=par[0])
            if any(v.ctx.atoms[a_][0][:2] == ("call", "np.allclose") for a_ in v.ctx.all_atoms(ct)):
                # a purely relative comparison: the absolute tolerance must be switched off (or scaled by the spacing)
                abs_tol = [a_ for a_ in v.ctx.all_atoms(ct) if v.ctx.atoms[a_][0][:2] == ("call", "np.allclose")
                           and "atol" not in v.ctx.atoms[a_][0][3]]
                chk.ob("field.Field.from_xarray::spacing-test-is-scale-free", not abs_tol, "C17.D2",
                       "np.allclose with its default absolute tolerance 1e-8 accepts ANY spacing for coordinates of the order of "
                       "1e-9 (nanometre meshes): unevenly spaced coordinates would not be rejected", v.f, par[0])
    chk.ob("field.Field.from_xarray::refuses::uneven-spacing", oks, "C17.D2",
           "every spatial coordinate with more than one entry must be equally spaced (np.allclose of the differences with their mean)", v.f)
    okk = False
    for r_, n_ in v.raises():
        if n_ == "KeyError":
            par = v.cfg.parent.get(id(r_))
            if par and isinstance(par[0], ast.If):
                ct = v.ev.term(par[0].test, at=par[0])
                if (decode_call(v.ctx, ct) or ("",))[0] == "any":
                    # must live in the `except KeyError` of the cell lookup
                    enc = v.cfg.enclosing(par[0])
                    okk = any(isinstance(p, ast.ExceptHandler) for p, f_ in enc) and par[1] == "body" and \
                        v.eq(ct, v.spec("any(len_ == 1 for len_ in xa.values.shape[:-1])"))
    chk.ob("field.Field.from_xarray::refuses::single-cell-without-cell", okk, "C17.D2",
           "without a 'cell' attribute a direction with a single coordinate cannot be reconstructed and must raise KeyError", v.f)


def d3_reconstruction(chk, repo):
    chk.rule("C17.D3", "attribute-free reconstruction: cell = mean(diff(coordinate)) per dim, corners first - cell/2 and last + "
                       "cell/2 of the same dim; attributes, when present, take precedence")
    v = FV(repo, "field.Field.from_xarray")
    sites = v.ctor_sites(MESH)
    chk.require(len(sites) == 2, "from_xarray: expected two Mesh constructions (with and without units)")
    dims_list = v.spec("[dim for dim in xa.dims if dim != 'vdims']")
    for k, s in enumerate(sites):
        cell = s.args.get("cell")
        mem = phi_members(v.ctx, cell) if cell is not None else []
        want_c = v.spec("[np.diff(xa[i].values).mean() for i in D]", env={"D": dims_list})
        okc = len(mem) == 2 and any(v.eq(m, v.spec("xa.attrs['cell']")) for m in mem) and any(v.eq(m, want_c) for m in mem)
        chk.ob(f"field.Field.from_xarray::mesh#{k}::cell", okc, "C17.D3",
               f"cell alternatives {[v.show(m)[:90] for m in mem]}; expected attrs['cell'] or the mean coordinate spacing", v.f, s.call)
        rg = decode_new(repo, v.ctx, s.args.get("region")) if s.args.get("region") is not None else None
        okp = False
        if rg and cell is not None:
            z = v.spec("zip(D, C)", env={"D": dims_list, "C": cell})
            e0 = v.ctx.mk(("iter", ()), (dims_list,))
            e1 = v.ctx.mk(("iter", ()), (cell,))
            lo = v.spec("xa.attrs['pmin'] if 'pmin' in xa.attrs else [xa[i].values[0] - c / 2 for i, c in zip(D, C)]", env={"D": dims_list, "C": cell})
            hi = v.spec("xa.attrs['pmax'] if 'pmax' in xa.attrs else [xa[i].values[-1] + c / 2 for i, c in zip(D, C)]", env={"D": dims_list, "C": cell})
            okp = v.eq(rg[1].get("p1"), lo) and v.eq(rg[1].get("p2"), hi) and v.eq(rg[1].get("dims"), dims_list)
        chk.ob(f"field.Field.from_xarray::mesh#{k}::corners", okp, "C17.D3",
               "corners must be attrs pmin/pmax, else half a cell beyond the outermost centres of the same dimension; dims = the "
               "spatial dimension names", v.f, s.call)
    withu = [s for s in sites if "units" in (decode_new(repo, v.ctx, s.args["region"])[1] if s.args.get("region") is not None else {})]
    oku = False
    if len(withu) == 1:
        rg = decode_new(repo, v.ctx, withu[0].args["region"])
        oku = v.eq(rg[1]["units"], v.spec("[xa[i].units for i in D]", env={"D": dims_list}))
        conds = [(v.ev.term(c_, at=geom._if_stmt(v, c_)), pol) for c_, pol in v.cfg.path_condition(withu[0].stmt)]
        oku = oku and any((not pol) and v.eq(ct, v.spec("any('units' not in xa[i].attrs for i in D)", env={"D": dims_list})) for ct, pol in conds)
    chk.ob("field.Field.from_xarray::units-restored", oku, "C17.D3",
           "when every spatial coordinate has a units attribute the region must be built with them", v.f)
    okt = False
    for st in v.stmts():
        if isinstance(st, ast.If) and v.eq(v.ev.term(st.test, at=st), v.spec("'tolerance_factor' in xa.attrs")):
            for s2 in st.body:
                if isinstance(s2, ast.Assign) and isinstance(s2.targets[0], ast.Attribute) and s2.targets[0].attr == "tolerance_factor":
                    okt = v.eq(v.term(s2.value, at=s2), v.spec("xa.attrs['tolerance_factor']"))
    chk.ob("field.Field.from_xarray::tolerance-restored", okt, "C17.D3", "the tolerance factor attribute must be applied to the region", v.f)


def d4_construction(chk, repo):
    chk.rule("C17.D4", "the imported field is built with nvdim from the attribute, the values re-expanded for scalars, the labels "
                       "from the 'vdims' coordinate and the data's dtype")
    v = FV(repo, "field.Field.from_xarray")
    for r, a in cm.returned_news(v):
        ok = v.eq(a.get("nvdim"), v.spec("xa.attrs['nvdim']")) and \
            v.eq(a.get("value"), v.spec("np.expand_dims(xa.values, axis=-1) if xa.attrs['nvdim'] == 1 else xa.values")) and \
            v.eq(a.get("vdims"), v.spec("xa.vdims.values if 'vdims' in xa.coords else None")) and \
            v.eq(a.get("dtype"), v.spec("xa.values.dtype")) and a.get("mesh") is not None
        chk.ob("field.Field.from_xarray::construction", ok, "C17.D4",
               f"nvdim={v.show(a.get('nvdim'))}, value={v.show(a.get('value'))[:80]}, vdims={v.show(a.get('vdims'))[:80]}, "
               f"dtype={v.show(a.get('dtype'))}", v.f, r)
