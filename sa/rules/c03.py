"""C03 - field algebra is cell-wise numpy algebra on one mesh; operands stay untouched."""
import ast

from ..model import AnalysisError
from ..lib import (FV, alias_term, decode_new, decode_call, phi_members, is_sym, is_const, is_str, simple_assigns,
                   order_equiv, call_name)
from ..lib import full_term  # noqa: F401
from ..lib import (reached_iff, reached_implies, implies_reached, reached_iff_any, path_term, cond_equiv, cond_implies,  # noqa: F401
                   else_stmts, branch_stmts, context_literals)
from ..cfg import always_raises, walk_stmts
from . import common as cm
from .common import FIELD, MESH, REGION
from .c08 import write_effects

FLOOR = 60
ANCHORS = [
    'field.Field._check_same_mesh_and_field_dim',
    'field.Field.is_same_vectorspace',
    'field.Field._apply_operator',
    'field.Field.__pos__',
    'field.Field.__neg__',
    'field.Field.__abs__',
    'field.Field.__pow__',
    'field.Field.__add__',
    'field.Field.__radd__',
    'field.Field.__sub__',
    'field.Field.__rsub__',
    'field.Field.__mul__',
    'field.Field.__rmul__',
    'field.Field.__truediv__',
    'field.Field.__rtruediv__',
    'field.Field.dot',
    'field.Field.__matmul__',
    'field.Field.__rmatmul__',
    'field.Field.cross',
    'field.Field.__and__',
    'field.Field.__rand__',
    'field.Field.__lshift__',
    'field.Field.__rlshift__',
    'field.Field.angle',
    'field.Field.real',
    'field.Field.imag',
    'field.Field.phase',
    'field.Field.abs',
    'field.Field.conjugate',
    'field.Field.__array_ufunc__',
    'mesh.Mesh.allclose',
    'mesh.Mesh.__eq__',
    'region.Region.allclose',
    'region.Region.__eq__',
]   # functions whose code the property is anchored in (mutation analysis, evidence)

# survivors of the single-edit mutation analysis that are not violations of THIS property (function regex, edit regex, why)
AUTOMUT_TRIAGE = [
    (r".", r"drop keyword valid=|logical_and->logical_or", "the RESULT's validity is C08's subject (C08.D1/D2 report it); C03 speaks of operands' validity only"),
    (r"__(pos|neg|abs)__|\.(real|imag|phase|abs|conjugate|cross|angle|__array_ufunc__)$", r"drop keyword (unit|vdim_mapping|vdims)=",
     "labels/mapping/unit of non-commutative and unary results are not part of the statement (a mapping without its labels IS reported, D6)"),
    (r"\.cross$", r"nvdim != 3.*and<->or", "equivalent: the compatibility test before it makes both component counts equal"),
]

OPS = {"__add__": ("np.add", "+"), "__sub__": ("np.subtract", "-"), "__mul__": ("np.multiply", "*"),
       "__truediv__": ("np.divide", "/"), "__pow__": ("np.power", "**")}
REFLECTED = {"__radd__": "other + self", "__rmul__": "other * self", "__rsub__": "other - self"}
UNARY_VALUE = {"field.Field.__neg__": "-self.array", "field.Field.__abs__": "np.abs(self.array)",
               "field.Field.__pos__": "self.array", "field.Field.real": "self.array.real",
               "field.Field.imag": "self.array.imag", "field.Field.phase": "np.angle(self.array)",
               "field.Field.abs": "np.abs(self.array)", "field.Field.conjugate": "self.array.conjugate()"}
PURE = ["field.Field.__pos__", "field.Field.__neg__", "field.Field.__abs__", "field.Field.__add__",
        "field.Field.__radd__", "field.Field.__sub__", "field.Field.__rsub__", "field.Field.__mul__",
        "field.Field.__rmul__", "field.Field.__truediv__", "field.Field.__rtruediv__", "field.Field.__pow__",
        "field.Field.__matmul__", "field.Field.__rmatmul__", "field.Field.__and__", "field.Field.__rand__",
        "field.Field.__lshift__", "field.Field.__rlshift__", "field.Field.dot", "field.Field.cross",
        "field.Field.angle", "field.Field.real", "field.Field.imag", "field.Field.phase", "field.Field.abs",
        "field.Field.conjugate", "field.Field._apply_operator", "field.Field._check_same_mesh_and_field_dim",
        "field.Field.is_same_vectorspace", "field.Field.norm", "field.Field.__array_ufunc__",
        "mesh.Mesh.allclose", "mesh.Mesh.__eq__", "region.Region.allclose", "region.Region.__eq__",
        "field.Field.__eq__", "field.Field.allclose"]
CTOR_PATH = ["field.Field.__init__", "field.Field.update_field_values", "field.Field.array.setter",
             "field.Field.valid.setter", "field.Field.unit.setter", "field.Field.vdims.setter",
             "field.Field.vdim_mapping.setter", "field.Field.norm.setter"]


def run(chk):
    repo = chk.repo
    cm.schema(chk, repo, "C03")
    d1_operator_table(chk, repo)
    d2_cellwise(chk, repo)
    d3_purity(chk, repo)
    d4_rejection(chk, repo)
    d5_commutative_metadata(chk, repo)
    d6_label_mapping(chk, repo)
    d7_ctor_conformance(chk, repo)
    d8_conditions(chk, repo)
    cm.no_dtype_narrowing(chk, repo, "C03", "C03.D2",
                          ["field.Field._apply_operator", "field.Field.dot", "field.Field.cross", "field.Field.angle",
                           "field.Field.__abs__", "field.Field.__neg__", "field.Field.phase", "field.Field.abs",
                           "field.Field.real", "field.Field.imag", "field.Field.conjugate"],
                          "numpy decides the result type of the operation (int/2 is float, abs of complex is real) - casting "
                          "back to the operand's dtype changes the values")
    chk.trust("numpy ufuncs np.add/subtract/multiply/divide/power/abs/angle/cross/einsum/stack compute cell-wise with "
              "broadcasting as documented")
    chk.assume("numerical equality with numpy broadcasting for all dtypes is not decided; only that each operator applies "
               "the documented numpy function to (self.array, other array) in that order on self.mesh")


def _ret_term(v):
    rets = [r for r in v.returns() if r.value is not None]
    if len(rets) != 1:
        raise AnalysisError(f"{v.f.qual}: expected exactly one return")
    return rets[0], v.ev.term(rets[0].value, at=rets[0])


# ------------------------------------------------------------------ D1
def d1_operator_table(chk, repo):
    chk.rule("C03.D1", "operator table: each arithmetic dunder delegates to _apply_operator with the matching numpy function; "
                       "reflected forms have the normal form of `other op self`; @ -> dot, & -> cross, reflected & -> -cross")
    for name, (npf, sym) in OPS.items():
        v = FV(repo, f"field.Field.{name}")
        r, t = _ret_term(v)
        c = decode_call(v.ctx, t)
        ok = bool(c and c[0] == "Field._apply_operator" and len(c[1]) >= 3 and is_sym(v.ctx, c[1][0], "self")
                  and is_sym(v.ctx, c[1][1], "param:other") and is_sym(v.ctx, c[1][2], npf))
        chk.ob(f"field.Field.{name}::delegate", ok, "C03.D1",
               f"returns {v.show(t)}; expected self._apply_operator(other, {npf}, ...)", v.f, r)
    for name, spec in REFLECTED.items():
        v = FV(repo, f"field.Field.{name}")
        r, t = _ret_term(v)
        want = v.spec(spec)
        chk.ob(f"field.Field.{name}::reflected-form", v.eq(t, want), "C03.D1",
               f"returns {v.show(t)}; expected the normal form of `{spec}` = {v.show(want)}", v.f, r)
    v = FV(repo, "field.Field.__rtruediv__")
    r, t = _ret_term(v)
    c = decode_call(v.ctx, t)
    ok = False
    if c and c[0] == "Field._apply_operator" and len(c[1]) >= 3 and is_sym(v.ctx, c[1][1], "param:other"):
        lam = c[1][2]
        h = v.ctx.head_of(lam)
        if h and h[0] == "lambda" and h[1] == 2:
            body = v.ctx.args_of(lam)[0]
            a0 = v.ctx.mk(("lam", 0, 0))
            a1 = v.ctx.mk(("lam", 0, 1))
            from ..terms import r_div
            ok = v.eq(body, r_div(a1, a0))
        elif is_sym(v.ctx, lam, "np.divide"):
            ok = False
    chk.ob("field.Field.__rtruediv__::reflected-form", ok, "C03.D1",
           f"returns {v.show(t)}; the applied function must compute other / self (second argument divided by first)", v.f, r)
    for name, callee, neg in (("__matmul__", "Field.dot", False), ("__rmatmul__", "Field.dot", False),
                              ("__and__", "Field.cross", False), ("__rand__", "Field.cross", True)):
        v = FV(repo, f"field.Field.{name}")
        r, t = _ret_term(v)
        from ..terms import r_neg
        tt = r_neg(t) if neg else t
        c = decode_call(v.ctx, tt)
        ok = bool(c and c[0] == callee and is_sym(v.ctx, c[1][0], "self") and len(c[1]) == 2
                  and is_sym(v.ctx, c[1][1], "param:other"))
        chk.ob(f"field.Field.{name}::delegate", ok, "C03.D1",
               f"returns {v.show(t)}; expected {'-' if neg else ''}self.{callee.split('.')[1]}(other)", v.f, r)
    # exhaustiveness: every arithmetic dunder the class defines is in the table
    fcls = repo.cls(FIELD)
    known = set(OPS) | set(REFLECTED) | {"__rtruediv__", "__matmul__", "__rmatmul__", "__and__", "__rand__", "__lshift__",
                                         "__rlshift__", "__pos__", "__neg__", "__abs__"}
    arith = {m for m in fcls.methods if m.startswith("__") and m.endswith("__") and m[2:-2].lstrip("ri") in
             ("add", "sub", "mul", "truediv", "floordiv", "mod", "pow", "matmul", "and", "or", "xor", "lshift", "rshift",
              "neg", "pos", "abs", "invert")}
    extra = sorted(arith - known)
    chk.ob("field.Field::operator-table-exhaustive", not extra, "C03.D1",
           f"operator methods without a table entry: {extra}", repo.func("field.Field.__init__"))


# ------------------------------------------------------------------ D2
def d2_cellwise(chk, repo):
    chk.rule("C03.D2", "results are built on self.mesh from the numpy function applied to (self.array, other's array) in "
                       "that order; unary/complex parts apply the documented numpy function to self.array")
    for q, spec in UNARY_VALUE.items():
        v = FV(repo, q)
        news = cm.returned_news(v)
        chk.require(news, f"{q}: no returned Field construction")
        want = v.spec(spec)
        for r, a in news:
            ok = a.get("value") is not None and v.eq(a["value"], want) and v.eq(a.get("mesh"), v.spec("self.mesh")) and \
                a.get("nvdim") is not None and v.eq(a["nvdim"], v.spec("self.nvdim"))
            chk.ob(f"{q}::value", ok, "C03.D2",
                   f"value={v.show(a.get('value'))} on mesh={v.show(a.get('mesh'))}; expected {spec} on self.mesh with "
                   "nvdim=self.nvdim", v.f, r)
    # generic binary path
    v = FV(repo, "field.Field._apply_operator", param_types={"other": FIELD})
    ifst, first = cm.field_branch_stmt(v, "other")
    other = cm.typed_param(v, "other", FIELD)
    for r, a in cm.returned_news(v, via=[first]):
        val = a.get("value")
        c = decode_call(v.ctx, val) if val is not None else None
        ok = bool(c and c[0] == "param:function" and len(c[1]) == 2 and v.eq(c[1][0], v.spec("self.array"))
                  and v.eq(c[1][1], v.spec("o.array", env={"o": other})) and v.eq(a.get("mesh"), v.spec("self.mesh")))
        chk.ob("field.Field._apply_operator::field-branch::value", ok, "C03.D2",
               f"value={v.show(val)}; expected function(self.array, other.array) on self.mesh", v.f, r)
        nv = a.get("nvdim")
        okn = nv is not None and val is not None and v.eq(nv, v.ctx.mk(("sub",), (v.ctx.mk(("attr", "shape"), (val,)), v.ctx.const(-1))))
        chk.ob("field.Field._apply_operator::nvdim", okn, "C03.D2",
               f"nvdim={v.show(nv)}; expected the last-axis length of the result array", v.f, r)
    # number / array operand: function(self.array, other) - on the paths that do not pass the field branch the second
    # argument is the operand itself (whatever the nesting of the alternatives)
    for r, a in cm.returned_news(v):
        val = a.get("value")
        c = decode_call(v.ctx, val) if val is not None else None
        ok = False
        if c and c[0] == "param:function" and len(c[1]) == 2 and v.eq(c[1][0], v.spec("self.array")):
            mem = phi_members(v.ctx, c[1][1])
            plain = [m for m in mem if is_sym(v.ctx, m, "param:other")]
            fld = [m for m in mem if v.eq(m, v.spec("o.array", env={"o": other}))]
            ok = bool(plain) and len(plain) + len(fld) == len(mem)
        chk.ob("field.Field._apply_operator::plain-branches::value", ok, "C03.D2",
               f"value={v.show(val)}; expected function(self.array, other) for numbers and array-likes", v.f, r)
    # dot
    v = FV(repo, "field.Field.dot", param_types={"other": FIELD})
    ifst, first = cm.field_branch_stmt(v, "other")
    other = cm.typed_param(v, "other", FIELD)
    for r, a in cm.returned_news(v, via=[first]):
        want = v.spec("np.einsum('...l,...l->...', self.array, o.array)[..., np.newaxis]", env={"o": other})
        ok = a.get("value") is not None and v.eq(a["value"], want) and v.eq(a.get("mesh"), v.spec("self.mesh")) and \
            is_const(v.ctx, a.get("nvdim", v.ctx.const(0)), 1)
        chk.ob("field.Field.dot::value", ok, "C03.D2",
               f"value={v.show(a.get('value'))}; expected the last-axis contraction of self.array and other.array, nvdim=1",
               v.f, r)
    v = FV(repo, "field.Field.cross", param_types={"other": FIELD})
    ifst, first = cm.field_branch_stmt(v, "other")
    other = cm.typed_param(v, "other", FIELD)
    for r, a in cm.returned_news(v, via=[first]):
        want = v.spec("np.cross(self.array, o.array)", env={"o": other})
        ok = a.get("value") is not None and v.eq(a["value"], want) and v.eq(a.get("mesh"), v.spec("self.mesh")) and \
            is_const(v.ctx, a.get("nvdim", v.ctx.const(0)), 3)
        chk.ob("field.Field.cross::value", ok, "C03.D2",
               f"value={v.show(a.get('value'))}; expected np.cross(self.array, other.array), nvdim=3", v.f, r)
    # angle
    v = FV(repo, "field.Field.angle", param_types={"vector": FIELD})
    ifst, first = cm.field_branch_stmt(v, "vector")
    other = cm.typed_param(v, "vector", FIELD)
    for r, a in cm.returned_news(v, via=[first]):
        want = v.spec("np.arccos((self.dot(o) / (self.norm * o.norm)).array)", env={"o": other})
        ok = a.get("value") is not None and v.eq(a["value"], want) and v.eq(a.get("mesh"), v.spec("self.mesh"))
        chk.ob("field.Field.angle::value", ok, "C03.D2",
               f"value={v.show(a.get('value'))}; expected arccos(self.dot(v)/(|self| |v|))", v.f, r)
    # stacking
    v = FV(repo, "field.Field.__lshift__", param_types={"other": FIELD})
    ifst, first = cm.field_branch_stmt(v, "other")
    other = cm.typed_param(v, "other", FIELD)
    for r, a in cm.returned_news(v, via=[first]):
        if not v.cfg.reachable(v.cfg.node(first), v.cfg.node(r)):
            continue
        val = a.get("value")
        c = decode_call(v.ctx, val) if val is not None else None
        ok = False
        if c and c[0] == "np.stack" and "axis" in c[2] and is_const(v.ctx, c[2]["axis"], -1) and c[1]:
            lst = c[1][0]
            want = v.spec("[self.array[..., i] for i in range(self.nvdim)] + [o.array[..., i] for i in range(o.nvdim)]",
                          env={"o": other})
            ok = v.eq(lst, want)
        elif c and c[0] == "np.concatenate" and "axis" in c[2] and is_const(v.ctx, c[2]["axis"], -1) and c[1]:
            # both arrays have shape (*n, nvdim) on the same mesh (verified schema; the mesh test precedes): joining them along
            # the last axis IS the stack of self's components followed by other's
            ok = any(v.eq(c[1][0], v.spec(t_, env={"o": other})) for t_ in ("(self.array, o.array)", "[self.array, o.array]"))
        chk.ob("field.Field.__lshift__::value", ok, "C03.D2",
               f"value={v.show(val)}; expected np.stack(self's components then other's components, axis=-1) or the two arrays "
               "joined along the last axis", v.f, r)
        nv = a.get("nvdim")
        chk.ob("field.Field.__lshift__::mesh", v.eq(a.get("mesh"), v.spec("self.mesh")), "C03.D2",
               f"mesh={v.show(a.get('mesh'))}", v.f, r)


# ------------------------------------------------------------------ D3
def d3_purity(chk, repo):
    chk.rule("C03.D3", "operands untouched: no write in any operator, its helpers, or the mesh/region comparison methods "
                       "targets memory reachable from self or another operand; the constructor path writes only the new "
                       "object and the array setter never keeps a view of its argument")
    al, _ = cm.make_alias(repo)
    for q in PURE:
        v = FV(repo, q, param_types={"other": FIELD, "vector": FIELD})
        effs = write_effects(v, al)
        kwarg = v.f.node.args.kwarg.arg if v.f.node.args.kwarg else None
        vararg = v.f.node.args.vararg.arg if v.f.node.args.vararg else None
        bad = []
        for st, what, roots in effs:
            roots = {r for r in roots if not (kwarg and r == f"param:{kwarg}") and not (vararg and r == f"param:{vararg}")}
            if q == "field.Field.__array_ufunc__" and what == "out= argument":
                continue
            if roots:
                bad.append((st, what, roots))
        chk.ob(f"{q}::pure", not bad, "C03.D3",
               "; ".join(f"`{v.src(st)}` ({what}) writes into {sorted(r)}" for st, what, r in bad[:3]) or "no operand writes",
               v.f, bad[0][0] if bad else None)
    for q in CTOR_PATH:
        v = FV(repo, q)
        effs = write_effects(v, al)
        bad = [(st, what, r) for st, what, r in effs if any(not x.startswith("self") for x in r)]
        chk.ob(f"{q}::writes-own-object-only", not bad, "C03.D3",
               "; ".join(f"`{v.src(st)}` ({what}) writes into {sorted(r)}" for st, what, r in bad[:3]) or "writes only self",
               v.f, bad[0][0] if bad else None)
    keeps = cm.array_setter_stores_alias(repo)
    chk.ob("field.Field.array.setter::stores-fresh-array", not keeps, "C03.D3",
           "the array setter may store a view of the value it is given: a result built from an operand's array would "
           "share its memory", repo.func("field.Field.array.setter"))
    chk.note("__array_ufunc__'s out= path writes where the caller asked numpy to write (exempt by name)")


# ------------------------------------------------------------------ D4
def d4_rejection(chk, repo):
    chk.rule("C03.D4", "fields on different meshes or with incompatible component counts are rejected before their arrays "
                       "are combined; unsupported operand types reach a TypeError")
    for q, pname, extra in (("field.Field._apply_operator", "other", {"ignore_scalar": True}),
                            ("field.Field.dot", "other", {}), ("field.Field.cross", "other", {}),
                            ("field.Field.angle", "vector", {})):
        v = FV(repo, q, param_types={pname: FIELD})
        ifst, first = cm.field_branch_stmt(v, pname)
        found = None
        for st in ifst.body:
            if isinstance(st, ast.Expr) and isinstance(st.value, ast.Call):
                t = v.term(st.value, at=st)
                c = decode_call(v.ctx, t)
                if c and c[0] == "Field._check_same_mesh_and_field_dim" and is_sym(v.ctx, c[1][0], "self") and \
                        len(c[1]) >= 2 and is_sym(v.ctx, c[1][1], f"param:{pname}"):
                    found = (st, c)
                    break
            if isinstance(st, (ast.Return, ast.Assign)):
                # an array combination before the check would defeat it
                pass
        ok = found is not None and ifst.body.index(found[0]) == 0
        chk.ob(f"{q}::mesh-check-first", ok, "C03.D4",
               f"the field-operand branch must start with self._check_same_mesh_and_field_dim({pname}...)", v.f, ifst)
        if found:
            c = found[1]
            ign = c[2].get("ignore_scalar")
            want_ign = extra.get("ignore_scalar", False)
            is_true = ign is not None and is_const(v.ctx, ign, True)
            chk.ob(f"{q}::scalar-exemption", is_true == want_ign, "C03.D4",
                   f"ignore_scalar={v.show(ign)}; only the generic operator path may exempt scalar fields from the "
                   "component-count test", v.f, found[0])
    # the checker itself
    v = FV(repo, "field.Field._check_same_mesh_and_field_dim", param_types={"other": FIELD})
    ok, det = v.guard("not isinstance(other, self.__class__)", exc=("TypeError",))
    chk.ob("field.Field._check_same_mesh_and_field_dim::type-guard", ok, "C03.D4", det, v.f)
    ok, det = v.guard("not self.mesh.allclose(other.mesh)", exc=("ValueError",))
    chk.ob("field.Field._check_same_mesh_and_field_dim::mesh-guard", ok, "C03.D4", det, v.f)
    # component guard: allowed bypass = `return` under ignore_scalar and (nvdim==1 or other.nvdim==1)
    bypass = []
    for r in v.returns():
        par = v.cfg.parent.get(id(r))
        if par and isinstance(par[0], ast.If) and par[1] == "body":
            ct = v.ev.term(par[0].test, at=par[0])
            want = v.spec("ignore_scalar and (self.nvdim == 1 or other.nvdim == 1)", at=par[0])
            good = v.eq(ct, want)
            chk.ob("field.Field._check_same_mesh_and_field_dim::scalar-bypass-condition", good, "C03.D4",
                   f"early return under `{v.src(par[0].test)}`; only `ignore_scalar and (one operand is scalar)` may skip "
                   "the component-count test", v.f, r)
            if good:
                bypass.append(r)
        else:
            chk.ob("field.Field._check_same_mesh_and_field_dim::unconditional-return", False, "C03.D4",
                   "an unguarded return skips the compatibility tests", v.f, r)
    ok, det = guard_with_bypass(v, "not self.is_same_vectorspace(other)", ("ValueError",), bypass)
    chk.ob("field.Field._check_same_mesh_and_field_dim::component-guard", ok, "C03.D4", det, v.f)
    v = FV(repo, "field.Field.is_same_vectorspace", param_types={"other": FIELD})
    r, t = _ret_term(v)
    chk.ob("field.Field.is_same_vectorspace::definition", v.eq(t, v.spec("self.nvdim == other.nvdim")), "C03.D4",
           f"returns {v.show(t)}; expected self.nvdim == other.nvdim", v.f, r)
    # Mesh.allclose / Region.allclose
    v = FV(repo, "mesh.Mesh.allclose", param_types={"other": MESH})
    rets = [r for r in v.returns() if r.value is not None]
    want = v.spec("self.region.allclose(other.region, rtol=rtol, atol=atol) and np.array_equal(self.n, other.n)")
    chk.ob("mesh.Mesh.allclose::definition", len(rets) == 1 and v.eq(v.ev.term(rets[0].value, at=rets[0]), want),
           "C03.D4", "Mesh.allclose must compare regions (allclose) and cell counts (array_equal)", v.f,
           rets[0] if rets else None)
    v = FV(repo, "region.Region.allclose", param_types={"other": REGION})
    rets = [r for r in v.returns() if r.value is not None]
    ok = False
    det = ""
    for r in rets:
        t = v.ev.term(r.value, at=r)
        h = v.ctx.head_of(t)
        if h and h[0] == "and":
            parts = [decode_call(v.ctx, p) for p in v.ctx.args_of(t)]
            names = sorted((v.show(p[1][0]), v.show(p[1][1])) for p in parts if p and p[0] == "np.allclose")
            det = str(names)
            ok = names == sorted([("self._pmin", "param:other._pmin"), ("self._pmax", "param:other._pmax")])
    chk.ob("region.Region.allclose::definition", ok, "C03.D4",
           f"Region.allclose must be np.allclose of both corner pairs; found {det}", v.f)
    # equality of meshes / regions (what `<<` relies on)
    v = FV(repo, "mesh.Mesh.__eq__", param_types={"other": MESH})
    rets = [r for r in v.returns() if r.value is not None]
    want = v.spec("self.region == other.region and all(self.n == other.n)")
    want2 = v.spec("self.region == other.region and np.array_equal(self.n, other.n)")
    chk.ob("mesh.Mesh.__eq__::definition", any(v.eq(v.ev.term(r.value, at=r), want) or v.eq(v.ev.term(r.value, at=r), want2) for r in rets),
           "C03.D4", "meshes are equal iff their regions are equal and all cell counts agree", v.f)
    v = FV(repo, "region.Region.__eq__", param_types={"other": REGION})
    rets = [r for r in v.returns() if r.value is not None]
    want = v.spec("np.array_equal(self.pmin, other.pmin) and np.array_equal(self.pmax, other.pmax) and self.dims == other.dims "
                  "and self.units == other.units")
    chk.ob("region.Region.__eq__::definition", any(v.eq(v.ev.term(r.value, at=r), want) for r in rets), "C03.D4",
           "regions are equal iff both corners, the dimension names and the units agree", v.f)
    # stacking
    v = FV(repo, "field.Field.__lshift__", param_types={"other": FIELD})
    ifst, first = cm.field_branch_stmt(v, "other")
    from ..lib import reached_iff_any, reached_iff, reached_implies, implies_reached, path_term
    other_is_field = v.spec("isinstance(other, self.__class__)")
    ves = [r for r, n in v.raises() if n == "ValueError"]
    g_hit = reached_iff_any(v, ves, v.ev._bool("and", [other_is_field, v.spec("self.mesh != other.mesh")])) or \
        reached_iff_any(v, ves, v.ev._bool("and", [other_is_field, v.spec("not self.mesh.allclose(other.mesh)")]))
    comb = [st for st, nm, t in simple_assigns(v) if call_name(v, t) in ("np.logical_and", "np.stack")]
    g_ok = False
    if g_hit:
        gpar = v.cfg.parent.get(id(g_hit[0]), (None,))[0]
        gnode = v.cfg.node(gpar if gpar is not None else g_hit[0])
        fnode = v.cfg.node(first)
        g_ok = all(v.cfg.dominates(gnode, v.cfg.node(c)) for c in comb
                   if c is first or v.cfg.reachable(fnode, v.cfg.node(c)))
    chk.ob("field.Field.__lshift__::mesh-guard", g_ok, "C03.D4",
           "a field operand on another mesh must be refused (ValueError) before the validities and arrays are combined", v.f,
           g_hit[0] if g_hit else first)
    # TypeError exactly for the operand types outside the supported set (reached-iff: independent of nesting and order)
    SEQ_ = "(tuple, list, np.ndarray)"
    unsupported = {
        "field.Field._apply_operator": f"not isinstance(other, self.__class__) and not isinstance(other, numbers.Complex) "
                                       f"and not isinstance(other, {SEQ_})",
        "field.Field.dot": f"not isinstance(other, self.__class__) and not isinstance(other, {SEQ_})",
        "field.Field.cross": f"not isinstance(other, self.__class__) and not isinstance(other, {SEQ_})",
        "field.Field.__lshift__": f"not isinstance(other, self.__class__) and not isinstance(other, numbers.Complex) "
                                  f"and not isinstance(other, {SEQ_})",
        "field.Field.angle": f"not isinstance(vector, self.__class__) and not ((self.nvdim == 1 and "
                             f"isinstance(vector, numbers.Complex)) or isinstance(vector, {SEQ_}))",
        "field.Field.__rlshift__": f"not isinstance(other, numbers.Complex) and not isinstance(other, {SEQ_})",
    }
    for q, text in unsupported.items():
        v = FV(repo, q)
        tes = [r for r, n in v.raises() if n == "TypeError"]
        got = reached_iff_any(v, tes, v.spec(text)) if tes else []
        chk.ob(f"{q}::unsupported-type-raises", bool(got), "C03.D4",
               f"operand types outside the supported set must end in a TypeError, exactly: `{text}`; TypeErrors are reached "
               f"under {[v.show(path_term(v, r))[:100] for r in tes][:3]}", v.f, got[0] if got else None)
    # numpy ufunc entry point
    v = FV(repo, "field.Field.__array_ufunc__")
    apply_call = None
    for call, st in v.calls():
        if isinstance(call.func, ast.Call) and isinstance(call.func.func, ast.Name) and call.func.func.id == "getattr":
            apply_call = st
    chk.require(apply_call is not None, "__array_ufunc__: the ufunc application getattr(ufunc, method)(...) vanished")
    ok = False
    det = "no test compares the meshes of the Field inputs before the ufunc is applied to their arrays"
    for st in v.stmts():
        if not isinstance(st, ast.If):
            continue
        refuses = always_raises(st.body) or (st.body and isinstance(st.body[-1], ast.Return))
        if not refuses:
            continue
        t = v.ev.term(st.test, at=st)
        heads = v.ctx.heads_in(t)
        mentions_mesh = any(h[0] in ("attr", "prop") and h[1] in ("mesh", "_mesh") for h in heads)
        compares = any((h[0] == "call" and h[1].endswith("allclose")) or (h[0] == "cmp" and h[1] in ("eq", "ne")) for h in heads)
        heads_nodes = [v.cfg.node(st)]
        for par, fld in v.cfg.enclosing(st):
            if isinstance(par, (ast.For, ast.While)):
                heads_nodes.append(v.cfg.node(par))     # the loop that visits every input's mesh
        if mentions_mesh and compares and any(v.cfg.dominates(hn, v.cfg.node(apply_call)) for hn in heads_nodes):
            ok = True
            det = f"mesh comparison at line {st.lineno}"
    chk.ob("field.Field.__array_ufunc__::mesh-check", ok, "C03.D4", det, v.f, apply_call)


def guard_with_bypass(v, cond_text, exc, bypass):
    """guard() where the listed return statements are accepted alternative exits"""
    cfg = v.cfg
    saved = {}
    for r in bypass:
        n = cfg.node(r)
        saved[n.id] = list(cfg.succ[n.id])
        for s in cfg.succ[n.id]:
            cfg.pred[s].remove(n.id)
        cfg.succ[n.id] = []
    cfg._dom = None
    cfg._reach = {}
    try:
        return v.guard(cond_text, exc=exc)
    finally:
        for nid, ss in saved.items():
            cfg.succ[nid] = ss
            for s in ss:
                cfg.pred[s].append(nid)
        cfg._dom = None
        cfg._reach = {}


# ------------------------------------------------------------------ D5
def d5_commutative_metadata(chk, repo):
    chk.rule("C03.D5", "a*b and b*a carry the same labels and mapping: in the field-operand branch of the generic operator "
                       "path the vdims and vdim_mapping of the result must depend on the labels/mapping of BOTH operands "
                       "(the compatibility test admits scalar x vector pairs, so one-sided metadata cannot be symmetric)")
    v = FV(repo, "field.Field._apply_operator", param_types={"other": FIELD})
    ifst, first = cm.field_branch_stmt(v, "other")
    other = cm.typed_param(v, "other", FIELD)
    o_vd = v.spec("o.vdims", env={"o": other})
    o_vm = v.spec("o.vdim_mapping", env={"o": other})
    s_vd = v.spec("self.vdims")
    s_vm = v.spec("self.vdim_mapping")
    for r, a in cm.returned_news(v, via=[first]):
        for kw, mine, theirs in (("vdims", s_vd, o_vd), ("vdim_mapping", s_vm, o_vm)):
            t = a.get(kw)
            ok = t is not None and v.ctx.mentions(t, mine) and v.ctx.mentions(t, theirs)
            chk.ob(f"field.Field._apply_operator::field-branch::kw={kw}::both-operands", ok, "C03.D5",
                   f"{kw}={v.show(t)} is a function of the left operand alone: scalar*vector and vector*scalar get "
                   "different labels/mapping", v.f, r)
        # operands with equally many components but different labels: symmetric treatment needs a comparison of the
        # two label lists (or dropping them); taking one side unconditionally cannot be symmetric
        t = a.get("vdims")
        cmp_labels = False
        if t is not None:
            for aid in v.ctx.all_atoms(t):
                hd, ar = v.ctx.atoms[aid]
                if hd[0] == "cmp" and hd[1] in ("eq", "ne") and any(v.ctx.mentions(x, s_vd) or v.eq(x, s_vd) for x in ar) \
                        and any(v.ctx.mentions(x, o_vd) or v.eq(x, o_vd) for x in ar):
                    cmp_labels = True
        drops = t is not None and not (v.ctx.mentions(t, s_vd) or v.eq(t, s_vd) or v.ctx.mentions(t, o_vd) or v.eq(t, o_vd))
        chk.ob("field.Field._apply_operator::field-branch::kw=vdims::label-conflict", cmp_labels or drops, "C03.D5",
               "for two fields with the same component count but different labels the left operand's labels win: "
               "a+b and b+a differ in their labels (no comparison of self.vdims with other.vdims decides the result's labels)",
               v.f, r)


# ------------------------------------------------------------------ D6
def d6_label_mapping(chk, repo):
    chk.rule("C03.D6", "label/mapping precondition: a construction that forwards X.vdim_mapping with nvdim = X.nvdim must "
                       "forward X.vdims too (the mapping setter rejects keys that are not the labels)")
    n = 0
    for fi in sorted(repo.funcs.values(), key=lambda f: f.qual):
        if not fi.qual.startswith("field.Field.") or fi.parent is not None or fi.qual.startswith("field.Field._diff_old"):
            continue
        v = FV(repo, fi.qual, param_types={"other": FIELD, "vector": FIELD})
        for i, s in enumerate(v.ctor_sites(FIELD)):
            vm = s.args.get("vdim_mapping")
            if vm is None:
                continue
            for X, xt in (("self", v.spec("self")),):
                if v.eq(vm, v.spec("self.vdim_mapping", at=s.stmt)):
                    nv = s.args.get("nvdim")
                    same_n = nv is not None and v.eq(nv, v.spec("self.nvdim", at=s.stmt))
                    if not same_n:
                        continue
                    vd = s.args.get("vdims")
                    ok = vd is not None and v.eq(vd, v.spec("self.vdims", at=s.stmt))
                    n += 1
                    chk.ob(f"{fi.qual}::ctor#{i}::mapping-needs-labels", ok, "C03.D6",
                           f"passes vdim_mapping=self.vdim_mapping with nvdim=self.nvdim but vdims={v.show(vd)}: with "
                           "non-default labels the mapping's keys are rejected (ValueError)", v.f, s.call)
    chk.require(n >= 12, f"C03.D6: only {n} constructions forwarding the mapping were found (floor 12)")


# ------------------------------------------------------------------ D7
def d7_ctor_conformance(chk, repo):
    chk.rule("C03.D7", "no Field construction inside field.py can fail by construction: nvdim is always supplied and no "
                       "keyword falls into **kwargs")
    n = 0
    for fi in sorted(repo.funcs.values(), key=lambda f: f.qual):
        if not fi.module.name == "field" or fi.parent is not None:
            continue
        v = FV(repo, fi.qual)
        for i, s in enumerate(v.ctor_sites(FIELD)):
            n += 1
            ok = ("nvdim" in s.args or s.has_starstar) and not s.unbound_kw
            chk.ob(f"{fi.qual}::ctor#{i}::signature", ok, "C03.D7",
                   f"`{v.src(s.call)}`: nvdim supplied={'nvdim' in s.args}, keywords swallowed by **kwargs={s.unbound_kw}",
                   v.f, s.call, nontrivial=False)
    chk.require(n >= 30, f"C03.D7: only {n} Field constructions in field.py (floor 30)")


# ------------------------------------------------------------------ D8
def _raise_conds(v, stmts, exc=None):
    """[(If stmt, condition term under which the block raises)] for the directly raising Ifs among stmts"""
    out = []
    for st in stmts:
        if not isinstance(st, ast.If):
            continue
        if always_raises(st.body):
            r = st.body[-1]
            name = None
            if isinstance(r, ast.Raise) and r.exc is not None:
                e = r.exc.func if isinstance(r.exc, ast.Call) else r.exc
                name = ast.unparse(e).split(".")[-1]
            if exc is None or name in exc:
                out.append((st, v.ev.term(st.test, at=st)))
    return out


def _elementwise(v, c):
    """a guard `any(bad(x) for x in xs)` (also the canonical reading of `for x in xs: if bad(x): raise`) -> bad(x); any
    other condition is returned unchanged"""
    d = decode_call(v.ctx, c)
    if d and d[0] == "any" and len(d[1]) == 1:
        hs = v.ctx.head_of(d[1][0])
        if hs and hs[0] == "seqcomp":
            return v.ctx.args_of(d[1][0])[0]
    return c


def _none_conds(v, stmts):
    """[(If stmt, condition term under which a local is reset to None)]"""
    out = []
    for st in walk_stmts(stmts):
        if not isinstance(st, ast.If):
            continue
        for fld, neg in (("body", False), ("orelse", True)):
            blk = getattr(st, fld)
            if any(isinstance(x, ast.Assign) and isinstance(x.value, ast.Constant) and x.value.value is None for x in blk):
                t = v.ev.term(st.test, at=st)
                out.append((st, v.ev._not(t) if neg else t))
    return out


def d8_conditions(chk, repo):
    chk.rule("C03.D8", "the conditions that select metadata and refuse operands are the documented ones (decided up to the "
                       "normal form, and for component-count comparisons up to the finitely many order types admitted by the "
                       "compatibility test that dominates them); results of << wrappers, angle and the ufunc protocol are "
                       "built from the computed array")
    # ---- generic operator path
    v = FV(repo, "field.Field._apply_operator", param_types={"other": FIELD})
    ifst, first = cm.field_branch_stmt(v, "other")
    other = cm.typed_param(v, "other", FIELD)
    s_n = v.spec("self.nvdim")
    o_n = v.spec("o.nvdim", env={"o": other})
    o_vd = v.spec("o.vdims", env={"o": other})
    o_vm = v.spec("o.vdim_mapping", env={"o": other})
    want = v.spec("self.nvdim == 1 and o.nvdim > 1", env={"o": other})
    compat = lambda vals: vals[0] == vals[1] or vals[0] == 1 or vals[1] == 1    # established by the mesh/dim check (D4)
    for st in walk_stmts(ifst.body):
        if not isinstance(st, ast.If):
            continue
        takes = [a for a in simple_assigns(v, list(walk_stmts(st.body))) if v.eq(a[2], o_vd) or v.eq(a[2], o_vm)]
        if not takes:
            continue
        cond = v.ev.term(st.test, at=st)
        ok = v.eq(cond, want) or order_equiv(v.ctx, cond, want, [s_n, o_n], pre=compat) is True
        chk.ob("field.Field._apply_operator::field-branch::takes-right-metadata-iff-scalar-times-vector", ok, "C03.D8",
               f"the right operand's labels/mapping are taken under `{v.src(st.test)}`; they must be taken exactly when the "
               "left operand is a scalar field and the right one is not (otherwise a*b and b*a differ, or a vector "
               "field's labels are replaced by a scalar field's)", v.f, st)
    for r, a in cm.returned_news(v, via=[first]):
        val = a.get("value")
        for st, cond in _none_conds(v, [s for s in v.body if s is not ifst]):
            cond = v.ev.term(st.test, at=st, via=[first])
            h = v.ctx.head_of(cond)
            ok = False
            if h and h[0] == "cmp" and h[1] == "ne" and val is not None:
                last = v.spec("a.shape[-1]", env={"a": val})
                sides = list(v.ctx.args_of(cond))
                for i in (0, 1):
                    if v.eq(sides[i], last):
                        mem = phi_members(v.ctx, sides[1 - i])
                        ok = all(v.eq(m, s_n) or v.eq(m, o_n) for m in mem) and any(v.eq(m, s_n) for m in mem)
            chk.ob("field.Field._apply_operator::labels-dropped-iff-component-count-changes", ok, "C03.D8",
                   f"labels are reset under `{v.src(st.test)}` = {v.show(cond)}; expected: the tracked component count differs "
                   "from the result array's last axis", v.f, st)
    # constant-vector operand: incompatible component counts refused (reached-iff, independent of how the alternatives nest)
    from ..lib import cond_implies, path_term
    w = FV(repo, "field.Field._apply_operator")
    bad_shape = w.spec("not (self.array.shape == np.shape(other) or self.nvdim == len(other) or self.nvdim == 1)")
    is_seq = w.spec("isinstance(other, (tuple, list, np.ndarray))")
    others = w.spec("not isinstance(other, self.__class__) and not isinstance(other, numbers.Complex)")
    hit = None
    seen = []
    for r_, n_ in w.raises():
        if n_ not in ("TypeError", "ValueError"):
            continue
        pt = path_term(w, r_)
        seen.append(w.show(pt)[:140])
        if reached_implies(w, r_, w.ev._bool("and", [is_seq, bad_shape])) and \
                implies_reached(w, w.ev._bool("and", [others, is_seq, bad_shape]), r_):
            hit = r_
    chk.ob("field.Field._apply_operator::array-operand-shape-guard", hit is not None, "C03.D8",
           "array-like operands must be refused exactly when they are neither a per-cell array of the field's shape, nor one "
           f"value per component, nor combined with a scalar field; refusals are reached under {seen[:4]}", w.f, hit)
    # ---- cross: 3-component operands only
    v = FV(repo, "field.Field.cross", param_types={"other": FIELD})
    ifst, first = cm.field_branch_stmt(v, "other")
    other = cm.typed_param(v, "other", FIELD)
    s_n = v.spec("self.nvdim")
    o_n = v.spec("o.nvdim", env={"o": other})
    want = v.spec("self.nvdim != 3 or o.nvdim != 3", env={"o": other})
    ok = False
    seen = []
    for st, cond in _raise_conds(v, ifst.body, ("ValueError", "TypeError")):
        seen.append(v.show(cond))
        if v.eq(cond, want) or order_equiv(v.ctx, cond, want, [s_n, o_n], pre=lambda x: x[0] == x[1]) is True:
            ok = True
    chk.ob("field.Field.cross::three-component-guard", ok, "C03.D8",
           f"the field-operand branch must refuse operands that do not have three components; raising conditions found: {seen}",
           v.f, ifst)
    # ---- unsupported operand types: the TypeError is reached exactly by the types no branch accepts
    for q, pname in (("field.Field.dot", "other"), ("field.Field.cross", "other")):
        v = FV(repo, q)
        for r, name in v.raises():
            if name != "TypeError":
                continue
            par = v.cfg.parent.get(id(r))
            if not par or not isinstance(par[0], ast.If) or par[1] != "body":
                continue
            t = v.ev._not(v.ev.term(par[0].test, at=par[0]))
            from ..lib import type_test
            c = type_test(v, t)
            ok = bool(c and is_sym(v.ctx, c[0], f"param:{pname}"))
            chk.ob(f"{q}::typeerror-for-unsupported-only", ok, "C03.D8",
                   f"TypeError is raised under `{v.src(par[0].test)}`; it must be the negation of a type test of the operand "
                   "(otherwise supported constant vectors are refused and unsupported objects reach numpy)", v.f, par[0])
    for q, guards in (("field.Field.is_same_vectorspace", [("not isinstance(other, self.__class__)", "TypeError")]),
                      ("mesh.Mesh.allclose", [("not isinstance(other, df.Mesh)", "TypeError"),
                                              ("self.region.dims != other.region.dims", "ValueError")])):
        v = FV(repo, q, param_types={"other": FIELD if q.startswith("field") else MESH})
        for text, exc in guards:
            ok, det = v.guard(text, exc=(exc,))
            if not ok and "df.Mesh" in text:
                ok, det = v.guard("not isinstance(other, self.__class__)", exc=(exc,))
            chk.ob(f"{q}::guard[{text}]", ok, "C03.D8", det, v.f)
    for q in ("mesh.Mesh.__eq__", "region.Region.__eq__"):
        v = FV(repo, q)
        for r in v.returns():
            if isinstance(r.value, ast.Constant):
                # the constant answer is given exactly for objects that fail the type test (whichever way it is nested)
                from ..lib import if_stmt_of
                for test, pol, syn in v.cfg.must_literals(r):
                    ifs = if_stmt_of(v, test)
                    c = v.ev.term(test, at=ifs)
                    _isinstance_polarity(chk, v, q, ifs, c if pol else v.ev._not(c), "is declared unequal")
            if isinstance(r.value, ast.Constant):
                chk.ob(f"{q}::foreign-type-is-unequal", r.value.value is False, "C03.D8",
                       f"`{v.src(r)}`: the fallback for objects that are not compared attribute by attribute must be False",
                       v.f, r)
    # ---- Region.allclose: tolerances scale with the region
    v = FV(repo, "region.Region.allclose", param_types={"other": REGION})
    d_atol = v.spec("np.min(self.edges) * self.tolerance_factor")
    d_rtol = v.spec("self.tolerance_factor")
    n = 0
    for r in v.returns():
        if r.value is None:
            continue
        t = v.ev.term(r.value, at=r)
        for aid in v.ctx.find_atoms(t, lambda h, a: h[0] == "call" and h[1] == "np.allclose"):
            c = decode_call(v.ctx, v.ctx.var(aid))
            n += 1
            for kw, default in (("atol", d_atol), ("rtol", d_rtol)):
                x = c[2].get(kw)
                mem = phi_members(v.ctx, x) if x is not None else []
                ok = len(mem) == 2 and any(is_sym(v.ctx, m, f"param:{kw}") for m in mem) and any(v.eq(m, default) for m in mem)
                chk.ob(f"region.Region.allclose::np.allclose#{n}::{kw}", ok, "C03.D8",
                       f"{kw}={v.show(x)}; expected the caller's {kw} or the default {v.show(default)} (numpy's absolute "
                       "default 1e-8 is larger than nanometre-sized regions: different meshes would compare equal)", v.f, r)
    chk.require(n >= 2, "Region.allclose: the two corner comparisons vanished")
    conds = _none_or_default_conds(v)
    for kw in ("atol", "rtol"):
        want = v.spec(f"{kw} is None")
        ok = any(v.eq(c, want) for st, c in conds)
        chk.ob(f"region.Region.allclose::default-{kw}-iff-none", ok, "C03.D8",
               f"the default {kw} must be chosen exactly when the caller passed None; conditions found: "
               f"{[v.show(c) for st, c in conds]}", v.f)
    # ---- stacking
    v = FV(repo, "field.Field.__lshift__", param_types={"other": FIELD})
    ifst, first = cm.field_branch_stmt(v, "other")
    other = cm.typed_param(v, "other", FIELD)
    wraps = {"field.Field.__lshift__": ["self << self.__class__(self.mesh, nvdim=1, value=other)",
                                        "self << self.__class__(self.mesh, nvdim=len(other), value=other)"],
             "field.Field.__rlshift__": ["self.__class__(self.mesh, nvdim=1, value=other) << self",
                                         "self.__class__(self.mesh, nvdim=len(other), value=other) << self"]}
    for q, specs in wraps.items():
        w = FV(repo, q)
        got = []
        for r in w.returns():
            if r.value is None:
                continue
            t = w.ev.term(r.value, at=r)
            h = w.ctx.head_of(t)
            if h and h[0] == "binop" and h[1] == "LShift":
                # a helper that wraps the operand returns one of the two fields: one alternative per kind of operand
                a_, b_ = w.ctx.args_of(t)
                alts = [(x, y) for x in phi_members(w.ctx, a_) for y in phi_members(w.ctx, b_)]
                if len(alts) > 1:
                    got.extend((r, w.spec("x << y", env={"x": x, "y": y})) for x, y in alts)
                else:
                    got.append((r, t))
        wants = [w.spec(x) for x in specs]
        for r, t in got:
            chk.ob(f"{q}::wraps-plain-operand", any(w.eq(t, x) for x in wants), "C03.D8",
                   f"returns {w.show(t)}; numbers become a 1-component and sequences a len()-component field on self.mesh "
                   "holding that value, stacked on the side the operand was written on", w.f, r)
        chk.ob(f"{q}::both-plain-operand-kinds", all(any(w.eq(t, x) for r, t in got) for x in wants), "C03.D8",
               "number and sequence operands must both be wrapped and stacked", w.f)
    for r, a in cm.returned_news(v, via=[first]):
        if not v.cfg.reachable(v.cfg.node(first), v.cfg.node(r)):
            continue
        cat = v.spec("self.vdims + o.vdims", env={"o": other})
        mem = phi_members(v.ctx, a["vdims"]) if a.get("vdims") is not None else []
        ok = bool(mem) and all(is_const(v.ctx, m, None) or v.eq(m, cat) for m in mem) and any(v.eq(m, cat) for m in mem)
        chk.ob("field.Field.__lshift__::labels-concatenated", ok, "C03.D8",
               f"vdims={v.show(a.get('vdims'))}; expected self's labels followed by other's (or None)", v.f, r)
        mm = phi_members(v.ctx, a["vdim_mapping"]) if a.get("vdim_mapping") is not None else []
        merged = None
        for m in mm:
            h = v.ctx.head_of(m)
            if h and h[0] == "mut" and h[1] == "update":
                ar = v.ctx.args_of(m)
                if len(ar) == 2 and v.eq(ar[0], v.spec("self.vdim_mapping")) and \
                        v.eq(ar[1], v.spec("o.vdim_mapping", env={"o": other})):
                    merged = m
        ok = merged is not None and all(m is merged or is_const(v.ctx, m, None) for m in mm)
        chk.ob("field.Field.__lshift__::mapping-merged", ok, "C03.D8",
               f"vdim_mapping={v.show(a.get('vdim_mapping'))}; expected self's mapping updated with other's (or None)", v.f, r)
        # labels / mapping are kept exactly when they can be: gated reaching definitions of the two constructor arguments
        # (independent of `x = None; if ok: x = v` versus `if bad: x = None else: x = v`)
        from ..lib import gated_expr, value_iff, returned_call
        call, r_at = returned_call(v, r)
        kws = {k.arg: k.value for k in call.keywords} if call is not None else {}
        both = v.spec("self.vdims is not None and o.vdims is not None", env={"o": other})
        distinct = v.spec("len(c) == len(set(c))", env={"c": cat})
        g = gated_expr(v, kws["vdims"], r_at, via=[first]) if "vdims" in kws else None
        reach_r = full_term(v, r_at)
        okl = g is not None and value_iff(v, g, lambda t_: v.eq(t_, cat), v.ev._bool("and", [both, distinct]), assume=reach_r) and \
            all(v.eq(t_, cat) or is_const(v.ctx, t_, None) for c_, t_, s_ in g)
        chk.ob("field.Field.__lshift__::labels-kept-iff-both-labelled-and-distinct", okl, "C03.D8",
               "the concatenated labels must be used exactly when both operands have labels and no label occurs twice (None "
               f"otherwise); alternatives: {[(v.show(c_)[:90], v.show(t_)[:40]) for c_, t_, s_ in (g or [])][:4]}", v.f, r)
        if merged is not None and a.get("nvdim") is not None:
            complete = v.spec("len(m) == n", env={"m": merged, "n": a["nvdim"]})
            g = gated_expr(v, kws["vdim_mapping"], r_at, via=[first]) if "vdim_mapping" in kws else None
            okm = g is not None and value_iff(v, g, lambda t_: t_ is merged or v.eq(t_, merged), complete, assume=reach_r) and \
                all(v.eq(t_, merged) or is_const(v.ctx, t_, None) for c_, t_, s_ in g)
            chk.ob("field.Field.__lshift__::mapping-kept-iff-complete", okm, "C03.D8",
                   "the merged mapping must be used exactly when it has one entry per component (None otherwise); "
                   f"alternatives: {[(v.show(c_)[:90], v.show(t_)[:40]) for c_, t_, s_ in (g or [])][:4]}", v.f, r)
    # ---- angle
    v = FV(repo, "field.Field.angle", param_types={"vector": FIELD})
    ifst, first = cm.field_branch_stmt(v, "vector")
    for r, a in cm.returned_news(v, via=[first]):
        chk.ob("field.Field.angle::scalar-result", a.get("nvdim") is not None and is_const(v.ctx, a["nvdim"], 1), "C03.D8",
               f"nvdim={v.show(a.get('nvdim'))}; an angle field has one component", v.f, r)
    w = FV(repo, "field.Field.angle")
    want = w.spec("not isinstance(vector, self.__class__) and ((self.nvdim == 1 and isinstance(vector, numbers.Complex)) "
                  "or isinstance(vector, (tuple, list, np.ndarray)))")
    want_new = w.spec("self.__class__(self.mesh, nvdim=self.nvdim, value=vector)")
    conv = [st for st, nm, t in simple_assigns(w) if w.eq(t, want_new)]
    chk.ob("field.Field.angle::plain-operand-conversion", bool(conv), "C03.D8",
           "a plain operand must become a field on self.mesh with self.nvdim components holding that value", w.f,
           conv[0] if conv else None)
    for st in conv:
        chk.ob("field.Field.angle::plain-operand-condition", reached_iff(w, st, want), "C03.D8",
               f"plain operands are converted under {w.show(path_term(w, st))[:160]}; expected: a number for scalar fields, or a "
               "sequence (and not a field)", w.f, st)
    chk.ob("field.Field.angle::plain-operands-supported", len(conv) >= 1, "C03.D8", "numbers/sequences are no longer converted", w.f)
    # ---- numpy ufunc protocol
    d8_ufunc(chk, repo)


def _isinstance_polarity(chk, v, q, st, cond, what):
    """an operand that fails a type test is refused / unequal; one that passes it must not be"""
    from ..lib import type_test
    d_pos = type_test(v, cond)
    d_neg = type_test(v, v.ev._not(cond))
    if d_pos:
        chk.ob(f"{q}::type-test-polarity@{v.show(d_pos[0])[:40]}", False, "C03.D8",
               f"`{v.src(st.test)}`: an object that HAS one of the accepted types {what}", v.f, st)
    elif d_neg:
        chk.ob(f"{q}::type-test-polarity@{v.show(d_neg[0])[:40]}", True, "C03.D8", "", v.f, st)


def _none_or_default_conds(v):
    out = []
    for st in v.stmts():
        if isinstance(st, ast.If) and not always_raises(st.body) and any(isinstance(x, ast.Assign) for x in st.body):
            out.append((st, v.ev.term(st.test, at=st)))
    return out


def d8_ufunc(chk, repo):
    v = FV(repo, "field.Field.__array_ufunc__")
    apply_st = None
    for call, st in v.calls():
        if isinstance(call.func, ast.Call) and isinstance(call.func.func, ast.Name) and call.func.func.id == "getattr":
            apply_st = st
            apply_call = call
    chk.require(apply_st is not None, "__array_ufunc__: the ufunc application vanished")
    res = v.ev.term(apply_call, at=apply_st)
    # inputs: fields are replaced by their arrays, everything else is passed on
    want_in = v.spec("tuple(x.array if isinstance(x, Field) else x for x in inputs)")
    stars = v.ctx.find_atoms(res, lambda h, a: h[0] == "star")
    ok = len(stars) == 1 and v.eq(v.ctx.args_of(v.ctx.var(stars[0]))[0], want_in)
    chk.ob("field.Field.__array_ufunc__::inputs-unwrapped", ok, "C03.D8",
           f"the ufunc is applied to {v.show(res)[:160]}; expected each Field input replaced by its array and every other input "
           "passed unchanged", v.f, apply_st)
    # input type filter
    conds = _raise_conds(v, [s for s in v.stmts() if isinstance(s, ast.If)], None)
    shown = []
    hit = False
    conds = [(st, _elementwise(v, c)) for st, c in conds]
    for st, c in conds:
        shown.append(v.show(c))
        nt = v.ev._not(c)
        from ..lib import type_test
        d = type_test(v, nt)
        if d:
            h0 = v.ctx.head_of(d[0])
            if h0 and h0[0] == "iter" and is_sym(v.ctx, v.ctx.args_of(d[0])[0], "param:inputs"):
                hit = True
    chk.ob("field.Field.__array_ufunc__::input-type-filter", hit, "C03.D8",
           f"inputs must be refused exactly when they are NOT of a supported type; raising conditions: {shown[:4]}", v.f)
    for st, c in conds:
        _isinstance_polarity(chk, v, "field.Field.__array_ufunc__", st, c, "is refused")
    w = FV(repo, "region.Region.allclose")
    for st, c in _raise_conds(w, [x for x in w.stmts() if isinstance(x, ast.If)], None):
        _isinstance_polarity(chk, w, "region.Region.allclose", st, c, "is refused")
    # None is returned for the in-place `at` method only; a tuple result must match the Field inputs one to one
    for r in v.returns():
        if r.value is None or (isinstance(r.value, ast.Constant) and r.value.value is None):
            par = v.cfg.parent.get(id(r))
            ok = False
            if par and isinstance(par[0], ast.If) and par[1] == "body":
                ok = v.eq(v.ev.term(par[0].test, at=par[0]), v.spec("method == 'at'"))
            chk.ob("field.Field.__array_ufunc__::none-only-for-at", ok, "C03.D8",
                   "no field is returned on this path; only ufunc.at (which works in place) may return None", v.f, r)
    meshes = None
    for st, nm, t in simple_assigns(v):
        h = v.ctx.head_of(t)
        if h and h[0] == "seqcomp" and v.ctx.head_of(v.ctx.args_of(t)[0]) in (("attr", "mesh"), ("prop", "mesh")):
            meshes = t          # the list of the inputs' meshes: a comprehension whose element IS a `.mesh`
    if meshes is not None:
        want = v.spec("len(r) != len(m)", env={"r": res, "m": meshes})
        lens = [(st, c) for st, c in conds if v.ctx.mentions(c, res) and any(hd[0] == "call" and hd[1] == "len" for hd in v.ctx.heads_in(c))
                and not any(hd[0] == "call" and hd[1].endswith("array_equal") for hd in v.ctx.heads_in(c))]
        for st, c in lens:
            chk.ob("field.Field.__array_ufunc__::tuple-result-count-guard", v.eq(c, want), "C03.D8",
                   f"a tuple result is refused under {v.show(c)[:100]}; expected: its length differs from the number of Field inputs",
                   v.f, st)
    # mesh comparison polarity
    okp = False
    for st, c in conds:
        nt = v.ev._not(c)
        d = decode_call(v.ctx, nt)
        if d and d[0] == "Mesh.allclose" and any(v.eq(x, v.spec("self.mesh")) for x in d[1]):
            okp = True
        h = v.ctx.head_of(c)
        if h and h[0] == "cmp" and h[1] == "ne" and any(v.eq(x, v.spec("self.mesh")) for x in v.ctx.args_of(c)):
            okp = True
    chk.ob("field.Field.__array_ufunc__::mesh-check-polarity", okp, "C03.D8",
           f"fields must be refused when their mesh is NOT close to self.mesh; raising conditions: {shown[:6]}", v.f)
    # results
    news = []
    for r in v.returns():
        if r.value is None:
            continue
        t = v.ev.term(r.value, at=r)
        for aid in v.ctx.find_atoms(t, lambda h, a: h[0] == "new" and h[1] == FIELD):
            d = decode_new(repo, v.ctx, v.ctx.var(aid))
            news.append((r, d[1], t))
    chk.require(len(news) >= 2, "__array_ufunc__: expected a tuple-result and a single-result construction")
    for r, a, t in news:
        val = a.get("value")
        single = v.eq(val, res) if val is not None else False
        h = v.ctx.head_of(val) if val is not None else None
        elem = bool(h and h[0] == "iter" and v.eq(v.ctx.args_of(val)[0], res)) if val is not None and not single else False
        chk.ob(f"field.Field.__array_ufunc__::result-value@{'single' if single or not elem else 'tuple'}", single or elem, "C03.D8",
               f"value={v.show(val)[:120]}; the returned field must hold the ufunc's result", v.f, r)
        nv = a.get("nvdim")
        okn = nv is not None and val is not None and v.eq(nv, v.spec("a.shape[-1]", env={"a": val}))
        chk.ob("field.Field.__array_ufunc__::result-nvdim", okn, "C03.D8",
               f"nvdim={v.show(nv)[:120]}; expected the last-axis length of the result", v.f, r)
        if single:
            chk.ob("field.Field.__array_ufunc__::result-mesh", v.eq(a.get("mesh"), v.spec("self.mesh")), "C03.D8",
                   f"mesh={v.show(a.get('mesh'))}", v.f, r)
            ok, det = v.guard("not np.array_equal(r.shape[:-1], self.mesh.n)", exc=("NotImplementedError", "ValueError"),
                              before=r, env={"r": res})
            chk.ob("field.Field.__array_ufunc__::result-shape-guard", ok, "C03.D8", det, v.f, r)
