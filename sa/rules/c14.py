"""C14 - subregions always stay inside, aligned with and measured in cells of their mesh."""
import ast

from ..model import AnalysisError
from ..lib import (FV, decode_new, decode_call, phi_members, is_sym, is_const, is_str, strip_stores, stores_of,
                   find_assign, find_assigns, simple_assigns, local_term)
from ..lib import (reached_iff, reached_implies, implies_reached, reached_iff_any, path_term, cond_equiv, cond_implies,  # noqa: F401
                   else_stmts, branch_stmts, context_literals)
from ..cfg import always_raises, walk_stmts
from . import common as cm
from . import geom
from . import c07
from .common import FIELD, MESH, REGION
from .c01 import each, _single_return

FLOOR = 40
ANCHORS = [
    'mesh.Mesh.subregions.setter',
    'mesh.Mesh.is_aligned',
    'mesh.Mesh.sel',
    'mesh.Mesh.scale',
    'mesh.Mesh.translate',
    'mesh.Mesh.rotate90',
    'mesh.Mesh.__getitem__',
    'io._MeshIO.save_subregions',
    'io._MeshIO.load_subregions',
    'region.Region.to_dict',
    'io.hdf5._MeshIO_HDF5._h5_save',
    'io.hdf5._MeshIO_HDF5._h5_load',
]   # functions whose code the property is anchored in (mutation analysis, evidence)

AUTOMUT_TRIAGE = [
    (r"Mesh\.sel$", r"dtype, type\(.*attribute (pmin->pmax|pmax->pmin)", "equivalent: both corners of a region have one dtype (np.minimum/np.maximum of the same pair)"),
    (r"subregions\.setter$", r"\"default\" in subregions", "only a warning about the special name; nothing about containment or alignment"),
    (r"_subregions$", r"drop keyword (encoding|mode)=", "equivalent on this platform (UTF-8 default; 'r' is open()'s default); the write "
     "mode of the writer IS checked"),
]


def run(chk):
    repo = chk.repo
    cm.schema(chk, repo, "C14")
    d1_setter(chk, repo)
    d3_transformations(chk, repo)
    d4_is_aligned(chk, repo)
    d5_persistence(chk, repo)
    chk.assume("alignment decisions at the tolerance and whether a clipped subregion is still on the lattice in floating point are "
               "not decided; the subregions getter hands out the internal dict (by design), so user code can bypass the setter")


def d1_setter(chk, repo):
    chk.rule("C14.D1", "_subregions is written only by its setter (the constructor goes through it); inside / whole-cells / "
                       "on-the-lattice are each tested with a raise for every candidate and all tests precede the single store, so "
                       "a rejected assignment keeps the previous subregions; stored regions are re-created with the mesh's dims, "
                       "units and tolerance")
    from ..lib import cond_equiv, path_term
    sv = FV(repo, "mesh.Mesh.subregions.setter")
    for st in sv.stmts():
        if isinstance(st, ast.Assign) and isinstance(st.targets[0], ast.Name) and isinstance(st.value, ast.Dict) and not st.value.keys:
            chk.ob("mesh.Mesh.subregions.setter::empty-iff-none", reached_iff(sv, st, sv.spec("subregions is None")),
                   "C14.D1", f"`{sv.src(st)}` under {sv.show(path_term(sv, st))}: given subregions must not be replaced by {{}}", sv.f, st)
    writers = []
    for fi in repo.funcs.values():
        for st in walk_stmts(fi.node.body):
            tg = st.targets if isinstance(st, ast.Assign) else ([st.target] if isinstance(st, (ast.AugAssign, ast.AnnAssign)) else [])
            for t in tg:
                for n in ast.walk(t):
                    if isinstance(n, ast.Attribute) and n.attr == "_subregions" and isinstance(n.ctx, ast.Store):
                        writers.append((fi, st))
    chk.require(writers, "no store to _subregions")
    for fi, st in writers:
        chk.ob(f"{fi.qual}::store::_subregions::owner", fi.qual == "mesh.Mesh.subregions.setter", "C14.D1",
               "only the subregions setter may write _subregions", fi, st)
    init = FV(repo, "mesh.Mesh.__init__")
    via_setter = [s for s in init.self_stores() if s[1] == "subregions"]
    chk.ob("mesh.Mesh.__init__::subregions-through-setter", len(via_setter) == 1 and
           is_sym(init.ctx, init.term(via_setter[0][2], at=via_setter[0][0]), "param:subregions"), "C14.D1",
           "the constructor must assign self.subregions = subregions (validated)", init.f)
    v = FV(repo, "mesh.Mesh.subregions.setter")
    stores = [s for s in v.self_stores() if s[1] == "_subregions"]
    chk.require(stores, "subregions setter: store vanished")
    chk.ob("mesh.Mesh.subregions.setter::single-store", len(stores) == 1, "C14.D1",
           f"{len(stores)} stores to _subregions: the setter must store exactly once, after every test", v.f, stores[0][0])
    store = stores[0][0]
    loops = [s for s in v.stmts() if isinstance(s, ast.For)]
    chk.require(loops, "subregions setter: validation loop vanished")
    lp = loops[0]
    S = v.ev.term(ast.Name(id="subregions", ctx=ast.Load()), at=lp)
    it = v.term(lp.iter, at=lp)
    chk.ob("mesh.Mesh.subregions.setter::every-candidate-visited", v.eq(it, v.spec("S.items()", env={"S": S})) and
           v.cfg.dominates(v.cfg.node(lp), v.cfg.node(store)), "C14.D1",
           "validation must loop over all items of the new dictionary before the store", v.f, lp)
    val = v.ctx.mk(("unpack", 1), (each(v, it),))
    probe = v.spec("self.__class__(region=x, cell=self.cell)", env={"x": val})
    tests = {"inside": False, "whole-cells": False, "on-lattice": False}
    for s2 in walk_stmts(lp.body):
        if isinstance(s2, ast.If) and always_raises(s2.body):
            ct = v.ev.term(s2.test, at=s2)
            if v.eq(ct, v.spec("x not in self.region", env={"x": val})):
                tests["inside"] = True
            if v.eq(ct, v.spec("not self.is_aligned(P)", env={"P": probe})):
                tests["on-lattice"] = True
        if isinstance(s2, ast.Try):
            body_ok = any(isinstance(b, ast.Expr) and v.eq(v.term(b.value, at=b), probe) for b in s2.body)
            h_ok = any(h.type is not None and ast.unparse(h.type) == "ValueError" and always_raises(h.body) for h in s2.handlers)
            tests["whole-cells"] = body_ok and h_ok
    for k, ok in tests.items():
        chk.ob(f"mesh.Mesh.subregions.setter::test::{k}", ok, "C14.D1",
               {"inside": "every candidate must be refused unless `value in self.region`",
                "whole-cells": "every candidate must be refused unless Mesh(region=value, cell=self.cell) can be built "
                               "(a whole number of cells)",
                "on-lattice": "every candidate must be refused unless the mesh is aligned with Mesh(region=value, cell=self.cell)"}[k],
               v.f, lp)
    bad = [(r, n) for r, n in v.raises() if v.cfg.reachable(v.cfg.node(store), v.cfg.node(r))]
    chk.ob("mesh.Mesh.subregions.setter::no-raise-after-store", not bad, "C14.D1",
           "a refusal after the store would leave the mesh with the rejected subregions", v.f, bad[0][0] if bad else None)
    okg, det = v.guard("not isinstance(subregions, dict)", exc=("TypeError",), before=store)
    chk.ob("mesh.Mesh.subregions.setter::dict-required", okg, "C14.D1", det, v.f)
    okg, det = v.guard("not all((isinstance(key, str) for key in subregions))", exc=("TypeError",), before=store)
    chk.ob("mesh.Mesh.subregions.setter::string-keys", okg, "C14.D1", det, v.f)
    t = v.term(stores[0][2], at=store)
    want = v.spec("{name: df.Region(p1=sr.pmin, p2=sr.pmax, dims=self.region.dims, units=self.region.units, "
                  "tolerance_factor=self.region.tolerance_factor) for name, sr in S.items()}", env={"S": S})
    chk.ob("mesh.Mesh.subregions.setter::stored-with-mesh-names", v.eq(t, want), "C14.D1",
           f"stores {v.show(t)[:240]}; expected fresh Regions with the candidate's corners and the MESH's dims, units, tolerance",
           v.f, store)
    mem = phi_members(v.ctx, S)
    chk.ob("mesh.Mesh.subregions.setter::none-means-empty", any((v.ctx.head_of(m) or ("",))[0] == "dict" and not v.ctx.args_of(m)
                                                               for m in mem), "C14.D1", "None must mean no subregions", v.f)


def d3_transformations(chk, repo):
    chk.rule("C14.D3", "transformations apply the identical step to region and subregions (C13 sibling rules); plane/range "
                       "selection keeps exactly the overlapping subregions, clipped to the selection (C07.D3 rules); the mesh of a "
                       "named subregion has that subregion as region and the parent's cell")
    geom.mesh_siblings(chk, "C14")
    geom.affine_maps(chk, "C14")       # the step itself (keeps n and bc: otherwise the cell the subregions are measured in changes)
    c07.d3_mesh_sel(chk, repo)
    c07.d5_getitem(chk, repo)          # mesh[region]: what mesh[name] delegates to
    c07.d8_wiring_and_dispatch(chk, repo)
    c07.corner_copies_hold_floats(chk, repo, "C14", ["mesh.Mesh.sel"], floor=4)
    v = FV(repo, "mesh.Mesh.__getitem__")
    news = cm.returned_news(v, cls=MESH)
    byname = [(r, a) for r, a in news if a.get("region") is not None and v.eq(a["region"], v.spec("self.subregions[item]"))]
    ok = len(byname) == 1 and v.eq(byname[0][1].get("cell"), v.spec("self.cell"))
    if ok:
        conds = [(v.ev.term(c_, at=geom._if_stmt(v, c_)), pol) for c_, pol in v.cfg.path_condition(byname[0][0])]
        ok = any(pol and v.eq(ct, v.spec("isinstance(item, str)")) for ct, pol in conds)
    chk.ob("mesh.Mesh.__getitem__::named-subregion", ok, "C14.D3",
           "mesh[name] must be Mesh(region=self.subregions[name], cell=self.cell)", v.f)


def d4_is_aligned(chk, repo):
    chk.rule("C14.D4", "is_aligned: cell sizes are compared first (np.allclose with the tolerance); then for both corners the "
                       "remainder of |difference| modulo cell must not lie strictly between tol and cell - tol on any axis")
    v = FV(repo, "mesh.Mesh.is_aligned", param_types={"other": MESH})
    okc = False
    for r_ in v.returns():
        if r_.value is not None and is_const(v.ctx, v.ev.term(r_.value, at=r_), False) and \
                not any(isinstance(p_, ast.For) for p_, f_ in v.cfg.enclosing(r_)):
            if reached_iff(v, r_, v.spec("not np.allclose(self.cell, other.cell, atol=tolerance)")):
                okc = True
    w = FV(repo, "mesh.Mesh.is_aligned")
    for text, key in (("not isinstance(other, df.Mesh)", "other-is-a-mesh"), ("not isinstance(tolerance, numbers.Real)", "real-tolerance")):
        okg, det = w.guard(text, exc=("TypeError",))
        chk.ob(f"mesh.Mesh.is_aligned::refuses::{key}", okg, "C14.D4", det, w.f)
    chk.ob("mesh.Mesh.is_aligned::cells-compared", okc, "C14.D4",
           "different cell sizes (beyond the tolerance) must give False", v.f)
    # (a loop over the literal list ['pmin', 'pmax'] is read as its two iterations)
    tol = v.spec("tolerance")      # a local alias of the parameter resolves to the parameter itself
    falses = [r for r in v.returns() if r.value is not None and is_const(v.ctx, v.ev.term(r.value, at=r), False)]
    found = set()
    for corner in ("pmin", "pmax"):
        diff = v.spec(f"np.subtract(self.region.{corner}, other.region.{corner})")
        rem = v.spec("np.remainder(abs(D), self.cell)", env={"D": diff})
        want = v.spec("np.logical_and(np.greater(R, t), np.less(R, np.subtract(self.cell, t))).any()", env={"R": rem, "t": tol})
        for r in falses:
            par = v.cfg.parent.get(id(r))
            if par and isinstance(par[0], ast.If) and par[1] == "body" and v.eq(v.ev.term(par[0].test, at=par[0]), want):
                found.add(corner)
    ok = found == {"pmin", "pmax"} and is_sym(v.ctx, tol, "param:tolerance")
    chk.ob("mesh.Mesh.is_aligned::corner-remainders", ok, "C14.D4",
           "both pmin and pmax differences must be whole multiples of the cell size up to the tolerance", v.f)
    rets = [r for r in v.returns() if r.value is not None and is_const(v.ctx, v.ev.term(r.value, at=r), True)]
    chk.ob("mesh.Mesh.is_aligned::otherwise-true", len(rets) == 1 and
           not any(isinstance(p_, ast.For) for p_, f_ in v.cfg.enclosing(rets[0])) and
           reached_iff(v, rets[0], v.spec("np.allclose(self.cell, other.cell, atol=tolerance)")), "C14.D4",
           "meshes passing both tests are aligned", v.f)
    okg, det = v.guard("not isinstance(other, df.Mesh)", exc=("TypeError",))
    chk.ob("mesh.Mesh.is_aligned::type-checked", okg, "C14.D4", det, v.f)


def d5_persistence(chk, repo):
    chk.rule("C14.D5", "persistence: Region.to_dict only uses keys Region.__init__ understands; the JSON encoder covers regions, "
                       "arrays and numpy scalars; loading assigns through the validating setter; HDF5 as in C10")
    v = FV(repo, "region.Region.to_dict")
    r, t = _single_return(v)
    keys = {}
    from ..lib import mapping_entries
    for k, val, conds in mapping_entries(v.ctx, t):       # a dict display, dict(key=value, ...), element stores ...
        if is_str(v.ctx, k) and not conds:
            keys[v.ctx.head_of(k)[1]] = val
    init = repo.func("region.Region.__init__")
    named = set(init.named_params) - {"self"}
    kw_read = set()
    for n in ast.walk(init.node):
        if isinstance(n, ast.Subscript) and isinstance(n.value, ast.Name) and n.value.id == "kwargs" and isinstance(n.slice, ast.Constant):
            kw_read.add(n.slice.value)
    ok = set(keys) == {"pmin", "pmax", "dims", "units", "tolerance_factor"} and all(k in named or k in kw_read for k in keys) and \
        all(v.eq(val, v.spec(f"self.{k}")) for k, val in keys.items())
    chk.ob("region.Region.to_dict::complete-and-loadable", ok, "C14.D5",
           f"to_dict keys {sorted(keys)}; each must carry self.<key> and be accepted by Region(**dict)", v.f, r)
    enc = repo.func("io._RegionIO._JSONEncoder.default")
    src = ast.unparse(enc.node)
    ok = all(x in src for x in ("df.Region", "to_dict()", "np.ndarray", "np.int64", "np.float64"))
    chk.ob("io._RegionIO._JSONEncoder::covers-types", ok, "C14.D5",
           "the encoder must translate Region, ndarray, numpy integers and floats", enc)
    s = FV(repo, "io._MeshIO.save_subregions", self_type=MESH)
    ok = False
    for call, st in s.calls():
        if ast.unparse(call.func) == "json.dump":
            c = decode_call(s.ctx, s.term(call, at=st))
            ok = bool(c and s.eq(c[1][0], s.spec("self.subregions")) and "cls" in c[2])
    chk.ob("io._MeshIO.save_subregions::dumps-subregions", ok, "C14.D5", "json.dump(self.subregions, f, cls=Region encoder)", s.f)
    l = FV(repo, "io._MeshIO.load_subregions", self_type=MESH)
    sts = [x for x in l.self_stores() if x[1] in ("subregions", "_subregions")]
    ok = False
    if len(sts) == 1 and sts[0][1] == "subregions":
        t = l.term(sts[0][2], at=sts[0][0])
        jl = find_assign(l, lambda t_, s_: (decode_call(l.ctx, t_) or ("",))[0] == "json.load")
        J = jl[2] if jl else l.ctx.const(0)
        ok = jl is not None and l.eq(t, l.spec("{key: df.Region(**val) for key, val in J.items()}", env={"J": J}))
    chk.ob("io._MeshIO.load_subregions::through-setter", ok, "C14.D5",
           "loaded subregions must be rebuilt as Region(**entry) and assigned through self.subregions = ... (re-validated)", l.f)
    fn = FV(repo, "io._MeshIO._subregion_filename")
    r, t = _single_return(fn)
    uses = all("_subregion_filename(field_filename)" in ast.unparse(x.f.node) for x in (s, l))
    chk.ob("io._MeshIO::side-car-name", uses and fn.eq(t, fn.spec("f'{str(filename)}.subregions.json'")), "C14.D5",
           "both directions must use <file>.subregions.json", fn.f, r)
    # HDF5 subregions (rules shared with C10)
    from . import c10, c09
    c10.d1_mesh(chk, repo)
    c10.d4_dtypes(chk, repo)
    c10.d7_conditions(chk, repo)
    c09.d9_sidecar(chk, repo)
