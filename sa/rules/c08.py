"""C08 - validity masks follow the data (DESIGN.md section 5, C08)."""
import ast

from ..model import AnalysisError
from ..lib import (FV, Alias, alias_term, decode_new, decode_call, phi_members, is_sym, is_const, is_str, tuple_consts,
                   strip_stores)
from ..lib import (reached_iff, reached_implies, implies_reached, reached_iff_any, path_term, cond_equiv, cond_implies,  # noqa: F401
                   else_stmts, branch_stmts, context_literals)
from ..cfg import walk_stmts
from . import common as cm
from .common import FIELD

FLOOR = 40
# mutation analysis looks at the slice of each anchored function that can influence a validity value
AUTOMUT_SEEDS = {"kw": ["valid"], "attr_store": ["_valid", "valid"]}
AUTOMUT_TRIAGE = [
    (r"_apply_operator|\.dot$|\.cross$|\.angle$|__lshift__|__getattr__|\.diff$", r"`(if|elif) .*`|`\s*(self\.array\.shape|or self\.nvdim).*`",
     "operand/argument refusals and branch selection belong to C03/C02/C04 (reported there); no validity value depends on them"),
    (r"\.sel$|__getitem__|_from_vtk|\.norm$|\.angle$|\.dot$|\.resample$|_h5_save_structure", r".",
     "changes the data and its validity alike (same slices / same cell counts) or only data/metadata keywords: the property "
     "relates validity to data, both sides move together"),
    (r"\.to_vtk$", r"SetActive|`(if|elif) self\.nvdim == [13]:`", "which array a viewer shows first is not validity"),
    (r"_as_array", r"name max->min", "the fallback dtype applies only when no dtype is requested; the validity setter requests bool"),
    (r"\.to_vtk$", r"line 34[3-7]\d", "coordinates, norm/component arrays and refusals of to_vtk carry no validity"),
]
ANCHORS = [
    'field.Field.valid.setter',
    'field.Field._valid_as_field',
    'field.Field.__abs__',
    'field.Field.__neg__',
    'field.Field.__pos__',
    'field.Field.norm',
    'field.Field.orientation',
    'field.Field.__getattr__',
    'field.Field.real',
    'field.Field.imag',
    'field.Field.phase',
    'field.Field.abs',
    'field.Field.conjugate',
    'field.Field.diff',
    'field.Field._apply_operator',
    'field.Field.dot',
    'field.Field.cross',
    'field.Field.__lshift__',
    'field.Field.angle',
    'field.Field.sel',
    'field.Field.__getitem__',
    'field.Field.pad',
    'field.Field.resample',
    'field.Field.rotate90',
    'field.Field.to_vtk',
    'io.vtk._FieldIO_VTK._from_vtk',
    'io.hdf5._FieldIO_HDF5._h5_save_structure',
    'io.hdf5._FieldIO_HDF5._h5_load_field',
    'field.Field._as_array[Complex|Iterable]',
    'field.Field._as_array[Callable]',
]   # functions whose code the property is anchored in (mutation analysis, evidence)

PASS_THROUGH = ["field.Field.__pos__", "field.Field.__abs__", "field.Field.__neg__", "field.Field.norm", "field.Field.orientation",
                "field.Field.__getattr__", "field.Field.real", "field.Field.imag", "field.Field.phase",
                "field.Field.abs", "field.Field.conjugate", "field.Field.diff"]
BINARY = [("field.Field._apply_operator", "other"), ("field.Field.dot", "other"), ("field.Field.cross", "other"),
          ("field.Field.__lshift__", "other"), ("field.Field.angle", "vector")]
OPERATOR_DUNDERS = ["__pos__", "__neg__", "__abs__", "__add__", "__radd__", "__sub__", "__rsub__", "__mul__",
                    "__rmul__", "__truediv__", "__rtruediv__", "__pow__", "__matmul__", "__rmatmul__",
                    "__and__", "__rand__", "__lshift__", "__rlshift__"]


def run(chk):
    repo = chk.repo
    cm.schema(chk, repo, "C08")
    d1_pass_through(chk, repo)
    d2_and(chk, repo)
    d3_mapped(chk, repo)
    d4_ownership(chk, repo)
    d5_setter(chk, repo)
    d6_setter_effects(chk, repo)
    d7_persistence(chk, repo)
    chk.trust("numpy: expand_dims/reshape/transpose/basic indexing/rot90 return views; copy/astype/arithmetic/"
              "logical_and/pad/full/empty allocate (numpy reference, 'Copies and views')")
    chk.trust("np.isclose default atol=1e-8, rtol=1e-5 (numpy reference)")
    chk.assume("element-wise equality of masks is not decided; only provenance, ownership, dtype and shape of the validity "
               "value at every construction site")


# ------------------------------------------------------------------ D1
def d1_pass_through(chk, repo):
    chk.rule("C08.D1", "unary operations, component access, norm, orientation, complex parts and diff construct "
                       "their result with valid = the operand's validity (constructor-keyword provenance)")
    for q in PASS_THROUGH:
        v = FV(repo, q)
        news = cm.returned_news(v)
        if not news:
            chk.ob(f"{q}::return::kw=valid", False, "C08.D1",
                   "no returned Field construction: the result is not a new field built with the operand's validity", v.f)
            continue
        want = v.spec("self.valid")
        for r, args in news:
            got = args.get("valid")
            ok = got is not None and v.eq(got, want)
            chk.ob(f"{q}::return::kw=valid", ok, "C08.D1",
                   f"valid={v.show(got)} but the operand's validity is {v.show(want)}", v.f, r)


# ------------------------------------------------------------------ D2
def d2_and(chk, repo):
    chk.rule("C08.D2", "binary operations between two fields pass valid = logical_and(self.valid, other.valid); "
                       "with a number/array operand they pass self.valid")
    for q, pname in BINARY:
        v = FV(repo, q, param_types={pname: FIELD})
        ifst, first = cm.field_branch_stmt(v, pname)
        other = cm.typed_param(v, pname, FIELD)
        want = v.spec("np.logical_and(self.valid, o.valid)", env={"o": other})
        news = cm.returned_news(v, via=[first])
        # only the returns reachable through the Field branch and not the recursive `self << Field(...)` ones
        news = [(r, a) for r, a in news if v.cfg.reachable(v.cfg.node(first), v.cfg.node(r))]
        chk.require(news, f"{q}: no Field construction reachable from the Field-operand branch")
        for r, args in news:
            got = args.get("valid")
            ok = got is not None and v.eq(got, want)
            chk.ob(f"{q}::field-branch::kw=valid", ok, "C08.D2",
                   f"valid={v.show(got)}; expected {v.show(want)}", v.f, r)
    # non-field operand of the generic operator path keeps the operand's validity
    v = FV(repo, "field.Field._apply_operator", param_types={"other": FIELD})
    other = cm.typed_param(v, "other", FIELD)
    want = v.spec("self.valid")
    want_and = v.spec("np.logical_and(self.valid, o.valid)", env={"o": other})
    for r, args in cm.returned_news(v):
        got = args.get("valid")
        mem = phi_members(v.ctx, got) if got is not None else []
        plain = [m for m in mem if v.eq(m, want)]
        both = [m for m in mem if v.eq(m, want_and)]
        chk.ob("field.Field._apply_operator::plain-branches::kw=valid",
               bool(plain) and len(plain) + len(both) == len(mem), "C08.D2",
               f"valid={v.show(got)}; expected self.valid on every path that does not combine two fields", v.f, r)


def cm_always_raises(stmts):
    from ..cfg import always_raises
    return always_raises(stmts)


# ------------------------------------------------------------------ D3
def d3_mapped(chk, repo):
    chk.rule("C08.D3", "selection, extraction, padding, resampling and quarter-turn rotation apply to validity the "
                       "same index / pad / rot90 arguments they apply to the data (parallel transformation)")
    ctx_ = None
    # sel
    v = FV(repo, "field.Field.sel")
    for r, a in cm.returned_news(v):
        val, vld = a.get("value"), a.get("valid")
        ok = False
        det = f"value={v.show(val)} valid={v.show(vld)}"
        if val is not None and vld is not None:
            hv, hd = v.ctx.head_of(val), v.ctx.head_of(vld)
            if hv and hd and hv[0] == "sub" and hd[0] == "sub":
                vb, vi = v.ctx.args_of(val)
                db, di = v.ctx.args_of(vld)
                want_i = v.ctx.mk(("sub",), (vi, v.spec("slice(None, -1)") if False else
                                             v.ctx.mk(("slice",), (v.ctx.mk(("const", None)), v.ctx.const(-1),
                                                                   v.ctx.mk(("const", None))))))
                ok = v.eq(vb, v.spec("self.array")) and v.eq(db, v.spec("self.valid")) and v.eq(di, want_i)
        chk.ob("field.Field.sel::valid-index", ok, "C08.D3",
               "validity must be indexed with the data index minus the component entry; " + det, v.f, r)
    # __getitem__
    v = FV(repo, "field.Field.__getitem__")
    for r, a in cm.returned_news(v):
        val, vld = a.get("value"), a.get("valid")
        ok = False
        if val is not None and vld is not None:
            hv, hd = v.ctx.head_of(val), v.ctx.head_of(vld)
            if hv and hd and hv[0] == "sub" and hd[0] == "sub":
                vb, vi = v.ctx.args_of(val)
                db, di = v.ctx.args_of(vld)
                ok = v.eq(vb, v.spec("self.array")) and v.eq(db, v.spec("self.valid")) and v.eq(di, vi)
        chk.ob("field.Field.__getitem__::valid-index", ok, "C08.D3",
               f"value={v.show(val)} valid={v.show(vld)}: both must be sliced by the same slice tuple", v.f, r)
    # pad
    v = FV(repo, "field.Field.pad")
    for r, a in cm.returned_news(v):
        val, vld = a.get("value"), a.get("valid")
        ok = False
        det = f"value={v.show(val)} valid={v.show(vld)}"
        cv = decode_call(v.ctx, val) if val is not None else None
        cd = decode_call(v.ctx, vld) if vld is not None else None
        if cv and cd and cv[0] == "np.pad" and cd[0] == "np.pad" and len(cv[1]) >= 2 and len(cd[1]) >= 2:
            same_kw = set(cv[2]) == set(cd[2]) and all(v.eq(cv[2][k], cd[2][k]) for k in cv[2])
            sv = decode_call(v.ctx, cv[1][1])
            sd = decode_call(v.ctx, cd[1][1])
            seq_ok = False
            if sv and sd and sv[0] == sd[0] == "dfu.assemble_index" and len(sv[1]) == 3 and len(sd[1]) == 3:
                seq_ok = v.eq(sv[1][0], sd[1][0]) and v.eq(sv[1][2], sd[1][2]) and \
                    v.eq(sv[1][1], v.spec("len(self.array.shape)")) and v.eq(sd[1][1], v.spec("len(self.valid.shape)"))
            ok = same_kw and seq_ok and v.eq(cv[1][0], v.spec("self.array")) and v.eq(cd[1][0], v.spec("self.valid"))
        chk.ob("field.Field.pad::valid-pad", ok, "C08.D3",
               "validity must be padded with the same widths, mode and keyword arguments as the data; " + det, v.f, r)
    # resample
    v = FV(repo, "field.Field.resample")
    for r, a in cm.returned_news(v):
        val, vld = a.get("value"), a.get("valid")
        ok = False
        if val is not None and vld is not None and is_sym(v.ctx, val, "self"):
            d = decode_new(repo, v.ctx, vld)
            if d and d[0] == FIELD:
                ok = v.eq(d[1].get("mesh"), v.spec("self.mesh")) and d[1].get("value") is not None and \
                    v.eq(d[1]["value"], v.spec("self.valid")) and d[1].get("nvdim") is not None and \
                    is_const(v.ctx, d[1]["nvdim"], 1)
        chk.ob("field.Field.resample::valid-resampled", ok, "C08.D3",
               f"value={v.show(val)} valid={v.show(vld)}: validity must be resampled from a field on the source mesh "
               "holding self.valid", v.f, r)
    # rotate90
    v = FV(repo, "field.Field.rotate90")
    rets = v.returns()
    chk.require(len(rets) >= 2, "Field.rotate90: expected in-place and copy returns")
    data_rot = None
    for r, a in cm.returned_news(v):
        val, vld = a.get("value"), a.get("valid")
        cv = _single_base_call(v, val)
        cd = _single_base_call(v, vld)
        ok = bool(cv and cd and cv[0] == cd[0] == "np.rot90" and set(cv[2]) == set(cd[2]) == {"k", "axes"}
                  and all(v.eq(cv[2][k], cd[2][k]) for k in cv[2])
                  and v.eq(cv[1][0], v.spec("self.array")) and v.eq(cd[1][0], v.spec("self.valid")))
        data_rot = cv
        chk.ob("field.Field.rotate90::copy::valid-rot90", ok, "C08.D3",
               f"value={v.show(val)} valid={v.show(vld)}: same np.rot90(k, axes) for data and validity", v.f, r)
    # in-place: self.valid = <rot90 of validity>
    st_valid = [s for s in v.self_stores() if s[1] == "valid"]
    st_value = [c for c, s in v.calls() if isinstance(c.func, ast.Attribute) and c.func.attr == "update_field_values"]
    ok = False
    det = "no in-place assignment to self.valid found"
    if st_valid and st_value:
        s = st_valid[0]
        tv = v.term(s[2], at=s[0])
        td = v.term(st_value[0].args[0], at=v.owner(st_value[0]))
        cv, cd = _single_base_call(v, td), _single_base_call(v, tv)
        ok = bool(cv and cd and cv[0] == cd[0] == "np.rot90" and set(cv[2]) == set(cd[2])
                  and all(v.eq(cv[2][k], cd[2][k]) for k in cv[2]) and v.eq(cd[1][0], v.spec("self.valid")))
        det = f"in place: data={v.show(td)} valid={v.show(tv)}"
    chk.ob("field.Field.rotate90::inplace::valid-rot90", ok, "C08.D3", det, v.f, st_valid[0][0] if st_valid else None)


# ------------------------------------------------------------------ D4
def d4_ownership(chk, repo):
    chk.rule("C08.D4", "a result's validity is its own: given the computed summary of Field.valid's setter "
                       "(does it keep a view of its argument?), no Field construction may pass a value that shares "
                       "memory with an operand's _valid; no operator returns self")
    aliasing, why = cm.valid_setter_stores_alias(repo)
    al, _ = cm.make_alias(repo)
    fcls = repo.cls(FIELD)
    n_sites = n_ops = 0
    for fi in sorted(repo.funcs.values(), key=lambda f: f.qual):
        if not (fi.qual.startswith("field.Field.") or fi.qual in ("plotting.util.inplane_angle",)):
            continue
        if fi.parent is not None:
            continue
        if fi.qual.startswith("field.Field._diff_old"):
            continue
        ptypes = {"other": FIELD, "vector": FIELD, "field": FIELD}
        v = FV(repo, fi.qual, param_types=ptypes)
        try:
            sites = v.ctor_sites(FIELD)
        except AnalysisError:
            raise
        for i, s in enumerate(sites):
            if "valid" not in s.args:
                continue
            kwnode = [k.value for k in s.call.keywords if k.arg == "valid"]
            if not kwnode:
                continue
            t = alias_term(v, kwnode[0], at=s.stmt)
            roots = al.roots(v.ctx, t)
            shared = sorted(r for r in roots if r.endswith("._valid") or r.endswith(".valid"))
            n_sites += 1
            ok = not (aliasing and shared)
            chk.ob(f"{fi.qual}::ctor#{i}::kw=valid::ownership", ok, "C08.D4",
                   f"passes valid={v.src(kwnode[0])} which shares memory with {shared}; {why}", v.f, s.call)
        if any("valid" in s.args for s in sites):
            # the operation reads the operand's validity: it must not write into it (an in-place `valid &= ...` on the array
            # `self.valid` hands out changes the operand's mask for every later operation)
            bad = []
            for st, what, roots in write_effects(v, al):
                hit = sorted(r for r in roots if r.endswith("._valid") or r.endswith(".valid"))
                if hit and not what.startswith("store ."):        # rebinding the attribute is the in-place API, not a write into the array
                    bad.append(f"`{v.src(st)[:60]}` ({what}) writes into {hit}")
            n_ops += 1
            chk.ob(f"{fi.qual}::operand-validity-untouched", not bad, "C08.D4",
                   "; ".join(bad) or "no write reaches an operand's validity array", v.f)
    chk.require(n_sites >= 20, f"C08.D4: only {n_sites} constructor sites with a valid= argument found (floor 20)")
    chk.require(n_ops >= 15, f"C08.D4: only {n_ops} operations that pass a validity found (floor 15)")
    # no operator returns self
    for name in OPERATOR_DUNDERS:
        m = fcls.methods.get(name)
        chk.require(m is not None, f"Field.{name} vanished")
        v = FV(repo, m.qual)
        for r in v.returns():
            if r.value is None:
                continue
            t = v.ev.term(r.value, at=r)
            bad = any(is_sym(v.ctx, x, "self") for x in phi_members(v.ctx, t))
            chk.ob(f"{m.qual}::returns-self", not bad, "C08.D4",
                   f"`{v.src(r)}` hands back the operand itself, so a later change of the result's validity or "
                   "values alters the operand", v.f, r)


# ------------------------------------------------------------------ D5
def _dtype_of(v, t, depth=0):
    """abstract dtype of an array-valued term: a Rat (the dtype expression) or a string tag"""
    ctx = v.ctx
    if depth > 10:
        return "unknown"
    c = decode_call(ctx, t)
    if c:
        name, pos, kw = c
        if name in ("np.full", "np.empty", "np.zeros", "np.ones", "np.array", "np.asarray", "np.full_like",
                    "np.zeros_like", "np.ones_like", "np.empty_like"):
            if "dtype" in kw:
                return kw["dtype"]
            if name in ("np.array", "np.asarray") and pos:
                return _dtype_of(v, pos[0], depth + 1)
            return "default"
        if name in ("np.expand_dims", "np.reshape", "np.squeeze", "np.transpose", ".reshape", ".transpose",
                    ".copy", "np.ascontiguousarray", ".squeeze"):
            return _dtype_of(v, pos[0], depth + 1)
        if name in (".astype", "astype") and len(pos) >= 2:
            return pos[1]
        return "unknown"
    h = ctx.head_of(t)
    if h and h[0] in ("store", "mut", "phi"):
        bases = strip_stores(ctx, t)
        ds = [_dtype_of(v, b, depth + 1) for b in bases]
        return ds[0] if ds and all(_same_dt(v, ds[0], d) for d in ds) else "mixed"
    if h and h[0] == "sub":
        return _dtype_of(v, ctx.args_of(t)[0], depth + 1)
    if h and h[0] == "sym" and h[1].startswith("param:"):
        return f"same-as({h[1]})"
    if h and h[0] == "phi":
        ds = [_dtype_of(v, x, depth + 1) for x in ctx.args_of(t)]
        return ds[0] if all(_same_dt(v, ds[0], d) for d in ds) else "mixed"
    return "unknown"


def _same_dt(v, a, b):
    if isinstance(a, str) or isinstance(b, str):
        return a == b
    return v.eq(a, b)


def _requested_dtype_decides(v, dt, st):
    """True if dtype term `dt` is the function's `dtype` parameter, or `dtype or <fallback>`."""
    if isinstance(dt, str):
        return False
    if is_sym(v.ctx, dt, "param:dtype"):
        return True
    h = v.ctx.head_of(dt)
    if h and h[0] == "or":
        # Python `or` yields its first truthy operand: find the defining BoolOp and check the order
        for s in v.stmts():
            if isinstance(s, ast.Assign) and isinstance(s.value, ast.BoolOp) and isinstance(s.value.op, ast.Or):
                first = s.value.values[0]
                if isinstance(first, ast.Name) and first.id == "dtype":
                    if v.eq(alias_term(v, s.value, at=s), dt) or v.eq(v.term(s.value, at=s), dt):
                        return True
    return False


def d5_setter(chk, repo):
    chk.rule("C08.D5", "_valid is written only by the validity setter; the stored value is "
                       "_as_array(valid, mesh, nvdim=1, dtype=bool)[..., 0]; every array/function/constant overload of "
                       "_as_array returns an array of the requested dtype; 'norm' is ~isclose(norm, 0) at default "
                       "tolerance; None means all-true")
    # who may write
    writers = []
    for fi in repo.funcs.values():
        for st in walk_stmts(fi.node.body):
            tg = []
            if isinstance(st, ast.Assign):
                tg = st.targets
            elif isinstance(st, (ast.AugAssign, ast.AnnAssign)):
                tg = [st.target]
            for t in tg:
                for n in ast.walk(t):
                    if isinstance(n, ast.Attribute) and n.attr == "_valid" and isinstance(n.ctx, ast.Store):
                        writers.append((fi, st))
    chk.require(writers, "no store to _valid found anywhere")
    for fi, st in writers:
        chk.ob(f"{fi.qual}::store::_valid::owner", fi.qual == "field.Field.valid.setter", "C08.D5",
               "only the validity setter may write _valid", fi, st)
    v = FV(repo, "field.Field.valid.setter")
    st, _, val, _ = [s for s in v.self_stores() if s[1] == "_valid"][0]
    t = v.term(val, at=st)
    ok = False
    det = v.show(t)
    h = v.ctx.head_of(t)
    inner = None
    if h and h[0] == "sub":
        base, idx = v.ctx.args_of(t)
        ih = v.ctx.head_of(idx)
        idx_ok = bool(ih and ih[0] == "tuple" and len(v.ctx.args_of(idx)) == 2
                      and is_const(v.ctx, v.ctx.args_of(idx)[0], Ellipsis) and is_const(v.ctx, v.ctx.args_of(idx)[1], 0))
        c = decode_call(v.ctx, base)
        if c and c[0] == "Field._as_array":
            name, pos, kw = c
            allargs = dict(kw)
            names = ["self", "val", "mesh", "nvdim", "dtype"]
            for i, p in enumerate(pos):
                allargs[names[i]] = p
            ok = idx_ok and is_sym(v.ctx, allargs.get("dtype", v.ctx.const(0)), "bool") and \
                is_const(v.ctx, allargs.get("nvdim", v.ctx.const(0)), 1) and \
                v.eq(allargs.get("mesh", v.ctx.const(0)), v.spec("self.mesh"))
            inner = allargs.get("val")
    chk.ob("field.Field.valid.setter::stored-form", ok, "C08.D5",
           f"stored value is {det}; expected _as_array(valid, self.mesh, nvdim=1, dtype=bool)[..., 0]", v.f, st)
    # the value that reaches _as_array: phi of (param, ~isclose(norm,0), True)
    if inner is not None:
        mem = phi_members(v.ctx, inner)
        want_norm = v.spec("~np.isclose(self.norm.array, 0)")
        has_norm = any(v.eq(m, want_norm) for m in mem)
        has_true = any(is_const(v.ctx, m, True) for m in mem)
        has_param = any(is_sym(v.ctx, m, "param:valid") for m in mem)
        chk.ob("field.Field.valid.setter::norm-rule", has_norm, "C08.D5",
               f"'norm' must become ~np.isclose(self.norm.array, 0) with default tolerances; reaching values: "
               f"{[v.show(m) for m in mem]}", v.f, st)
        chk.ob("field.Field.valid.setter::none-means-true", has_true and has_param, "C08.D5",
               f"None must mean all-true and other values must pass through; reaching values: {[v.show(m) for m in mem]}",
               v.f, st)
        # the 'norm' replacement is guarded by valid == 'norm'
        norm_assign = None
        for s in v.stmts():
            if isinstance(s, ast.Assign) and v.eq(v.term(s.value, at=s), want_norm):
                norm_assign = s
        if norm_assign is not None:
            conds = v.cfg.path_condition(norm_assign)
            cterms = [v.term(c, at=v.cfg.parent[id(norm_assign)][0]) if False else v.ev.term(c, at=_if_of(v, c)) for c, pol in conds if pol]
            want_c = None
            okc = False
            for ct in cterms:
                for part in ([ct] + list(v.ctx.args_of(ct) if (v.ctx.head_of(ct) or ("",))[0] == "and" else [])):
                    hh = v.ctx.head_of(part)
                    if hh and hh[0] == "cmp" and hh[1] == "eq":
                        a, b = v.ctx.args_of(part)
                        if (is_str(v.ctx, a, "norm") and is_sym(v.ctx, b, "param:valid")) or \
                           (is_str(v.ctx, b, "norm") and is_sym(v.ctx, a, "param:valid")):
                            okc = True
            chk.ob("field.Field.valid.setter::norm-keyword", okc, "C08.D5",
                   "the ~isclose(norm,0) mask must be selected by valid == 'norm'", v.f, norm_assign)
    # when each of the three sources is chosen (finite propositional decision over the type tests / None tests)
    from ..lib import cond_equiv, path_term
    for st2 in v.stmts():
        if not (isinstance(st2, ast.Assign) and len(st2.targets) == 1 and isinstance(st2.targets[0], ast.Name)):
            continue
        t2 = v.term(st2.value, at=st2)
        if is_const(v.ctx, t2, True):
            ok2 = reached_iff(v, st2, v.spec("valid is None"))
            chk.ob("field.Field.valid.setter::all-true-iff-none", ok2, "C08.D5",
                   f"`{v.src(st2)}` is reached under {v.show(path_term(v, st2))}; expected exactly when no validity was given "
                   "(otherwise a given mask is discarded)", v.f, st2)
        elif v.eq(t2, v.spec("~np.isclose(self.norm.array, 0)")):
            ok2 = reached_iff(v, st2, v.spec("valid is not None and isinstance(valid, str) and valid == 'norm'"))
            chk.ob("field.Field.valid.setter::norm-iff-keyword", ok2, "C08.D5",
                   f"the norm mask is chosen under {v.show(path_term(v, st2))}; expected exactly for the string 'norm'", v.f, st2)
    w = FV(repo, "field.Field._valid_as_field")
    rets = [r for r in w.returns() if r.value is not None]
    okf = len(rets) == 1 and w.eq(w.ev.term(rets[0].value, at=rets[0]),
                                  w.spec("self.__class__(self.mesh, nvdim=1, value=self.valid, dtype=bool)"))
    chk.ob("field.Field._valid_as_field::definition", okf, "C08.D5",
           "the validity seen as a field must be Field(self.mesh, nvdim=1, value=self.valid, dtype=bool)", w.f,
           rets[0] if rets else None)
    # the conversion every validity value goes through: shapes and refusals of the constant/array overload (C02.D3 instances)
    from . import c02, geom
    c02.d3_rejection(chk, repo)
    ov_ = cm.as_array_overloads(repo)
    for key in ("Complex|Iterable", "Callable"):
        x = FV(repo, ov_[key].qual)
        for i, r in enumerate(x.returns()):
            tt = x.ev.term(r.value, at=r)
            oks = all(geom._shape_is_n_nvdim(x, b) for b in strip_stores(x.ctx, tt))
            chk.ob(f"{ov_[key].qual}::return#{i}::shape", oks, "C08.D5",
                   f"returns {x.show(tt)[:140]}: with nvdim=1 the setter takes [..., 0] of it, so it must have shape "
                   "(*mesh.n, nvdim) for the stored mask to have the mesh shape", x.f, r)
    # dtype of every return of the array/constant and function overloads
    ov = cm.as_array_overloads(repo)
    for key in ("Complex|Iterable", "Callable"):
        chk.require(key in ov, f"_as_array overload {key} vanished")
        w = FV(repo, ov[key].qual)
        for i, r in enumerate(w.returns()):
            at = alias_term(w, r.value, at=r)
            dt = _dtype_of(w, at)
            ok = _requested_dtype_decides(w, dt, r)
            chk.ob(f"{ov[key].qual}::return#{i}::dtype", ok, "C08.D5",
                   f"returns `{w.src(r.value)}` whose dtype is {dt if isinstance(dt, str) else w.show(dt)}, not the "
                   "requested dtype: a validity given as a non-Boolean array of the mesh shape is stored unconverted",
                   w.f, r)
    chk.note("Field overload of _as_array ignores the requested dtype (validity given as a Field keeps that field's dtype); "
             "a Field is not among the validity specifications C08 lists, so this is noted, not reported")


def _single_base_call(v, t):
    if t is None:
        return None
    bases = strip_stores(v.ctx, t)
    if len(bases) != 1:
        return None
    return decode_call(v.ctx, bases[0])


def _if_of(v, testexpr):
    for st in v.stmts():
        if isinstance(st, (ast.If, ast.While)) and st.test is testexpr:
            return st
    raise AnalysisError("internal: test expression without statement")


# ------------------------------------------------------------------ D6
def _is_fresh_container(v, t):
    """the value is a python container built in this function (list/dict literal, comprehension, list(...)):
    writing an element or extending it does not touch the objects it holds"""
    bases = strip_stores(v.ctx, t)
    if not bases:
        return False
    for b in bases:
        h = v.ctx.head_of(b)
        if not h:
            return False
        if h[0] in ("list", "dict", "set", "seqcomp", "dictcomp", "setcomp", "concat", "repeat"):
            continue
        if h[0] == "call" and h[1] in ("list", "dict", "set", "sorted", ".copy_dict"):
            continue
        return False
    return True


def write_effects(v, al):
    """[(stmt, description, roots)] for every write in function view v (alias mode)"""
    out = []
    for st in v.stmts():
        tgts = []
        if isinstance(st, ast.Assign):
            for t in st.targets:
                tgts += _flat(t)
        elif isinstance(st, ast.AugAssign):
            tgts = [st.target]
        elif isinstance(st, ast.AnnAssign) and st.value is not None:
            tgts = [st.target]
        for t in tgts:
            if isinstance(t, ast.Name):
                if isinstance(st, ast.AugAssign):
                    # in-place arithmetic on whatever the name is bound to
                    tt = alias_term(v, ast.Name(id=t.id, ctx=ast.Load()), at=st)
                    if _is_fresh_container(v, tt):
                        out.append((st, f"{t.id} op= ... (local container)", set()))
                    else:
                        out.append((st, f"{t.id} op= ...", al.roots(v.ctx, tt)))
                continue
            if isinstance(t, ast.Attribute):
                base = alias_term(v, t.value, at=st)
                roots = al.roots(v.ctx, base)
                out.append((st, f"store .{t.attr}", {f"{r}.{t.attr}" for r in roots} if roots else set()))
            elif isinstance(t, ast.Subscript):
                base = alias_term(v, t.value, at=st)
                if _is_fresh_container(v, base):
                    out.append((st, "subscript store (local container)", set()))
                else:
                    out.append((st, "subscript store", al.roots(v.ctx, base)))
    for call, st in v.calls():
        for k in call.keywords:
            if k.arg == "out":
                tt = alias_term(v, k.value, at=st)
                out.append((st, "out= argument", al.roots(v.ctx, tt)))
        if isinstance(call.func, ast.Attribute) and call.func.attr in ("sort", "fill", "resize", "itemset", "put",
                                                                       "setflags", "partition", "byteswap"):
            tt = alias_term(v, call.func.value, at=st)
            out.append((st, f"in-place method .{call.func.attr}()", al.roots(v.ctx, tt)))
        fn = ast.unparse(call.func)
        if fn in ("np.copyto", "np.put", "np.place", "np.putmask", "np.fill_diagonal") and call.args:
            tt = alias_term(v, call.args[0], at=st)
            out.append((st, f"{fn}()", al.roots(v.ctx, tt)))
    return out


def _flat(t):
    if isinstance(t, (ast.Tuple, ast.List)):
        o = []
        for e in t.elts:
            o += _flat(e)
        return o
    if isinstance(t, ast.Starred):
        return _flat(t.value)
    return [t]


def d6_setter_effects(chk, repo):
    chk.rule("C08.D6", "setting validity writes nothing but _valid: every write in the setter, in the norm getter and "
                       "in the _as_array overloads targets _valid or a freshly allocated local")
    al, _ = cm.make_alias(repo)
    quals = ["field.Field.valid.setter", "field.Field.norm"] + [f.qual for f in cm.as_array_overloads(repo).values()]
    for q in quals:
        v = FV(repo, q, param_types={"val": None})
        effs = write_effects(v, al)
        if not effs:
            chk.ob(f"{q}::no-writes", True, "C08.D6", "function performs no writes", v.f)
        for i, (st, what, roots) in enumerate(effs):
            allowed = roots <= {"self._valid"} if q == "field.Field.valid.setter" else not roots
            bad = sorted(r for r in roots if r != "self._valid" or q != "field.Field.valid.setter")
            chk.ob(f"{q}::write#{i}", allowed, "C08.D6",
                   f"`{v.src(st)}` ({what}) writes into {bad} - validity assignment must not touch other state", v.f, st)


# ------------------------------------------------------------------ D7
def d7_persistence(chk, repo):
    chk.rule("C08.D7", "HDF5 writes validity as a Boolean dataset named like the one the reader passes to valid=; VTK "
                       "writes validity with the data's axis permutation, the reader applies the inverse and passes valid=")
    # HDF5 writer
    v = FV(repo, "io.hdf5._FieldIO_HDF5._h5_save_structure")
    found = False
    for call, st in v.calls():
        if isinstance(call.func, ast.Attribute) and call.func.attr == "create_dataset" and call.args:
            t0 = v.term(call.args[0], at=st)
            if is_str(v.ctx, t0, "valid"):
                found = True
                kw = {k.arg: v.term(k.value, at=st) for k in call.keywords if k.arg}
                ok = "data" in kw and v.eq(kw["data"], v.spec("self.valid", at=st)) and "dtype" in kw and \
                    (is_sym(v.ctx, kw["dtype"], "np.bool_") or is_sym(v.ctx, kw["dtype"], "bool"))
                chk.ob("io.hdf5._h5_save_structure::valid-dataset", ok, "C08.D7",
                       f"`{v.src(call)}` must store data=self.valid with a Boolean dtype", v.f, call)
    chk.ob("io.hdf5._h5_save_structure::valid-dataset-present", found, "C08.D7",
           "no create_dataset('valid', ...) in the HDF5 writer", v.f)
    v = FV(repo, "io.hdf5._FieldIO_HDF5._h5_load_field", self_type=FIELD)
    for r, a in cm.returned_news(v):
        got = a.get("valid")
        ok = False
        if got is not None:
            h = v.ctx.head_of(got)
            if h and h[0] == "sub":
                b, i = v.ctx.args_of(got)
                ok = is_sym(v.ctx, b, "param:h5_field") and is_str(v.ctx, i, "valid")
        chk.ob("io.hdf5._h5_load_field::kw=valid", ok, "C08.D7",
               f"reader passes valid={v.show(got)}; expected h5_field['valid']", v.f, r)
    # VTK writer
    v = FV(repo, "field.Field.to_vtk")
    perms = {}
    names = _setname_map(v)
    for st in v.stmts():
        if isinstance(st, ast.Assign) and len(st.targets) == 1 and isinstance(st.targets[0], ast.Name):
            nm = st.targets[0].id
            role = {"field": "field_array", "valid": "valid_array"}.get(names.get(nm))   # by the VTK array name it is given
            if role:
                t = v.term(st.value, at=st)
                perms[role] = (_find_transpose(v, t), t, st)
    if not ("field_array" in perms and "valid_array" in perms):
        chk.ob("field.Field.to_vtk::valid-permutation", False, "C08.D7",
               f"to_vtk names its cell arrays {sorted(names.values())}: the arrays named 'field' and 'valid' that the reader looks for "
               "are not both written", v.f)
        return
    pf, pv = perms["field_array"][0], perms["valid_array"][0]
    ok = pf is not None and pv is not None and len(pf[0]) == 4 and pf[0][3] == 3 and tuple(pf[0][:3]) == tuple(pv[0]) \
        and v.eq(pf[1], v.spec("self.array")) and _base_is_valid(v, pv[1])
    chk.ob("field.Field.to_vtk::valid-permutation", ok, "C08.D7",
           f"data permuted by {pf and pf[0]}, validity by {pv and pv[0]}: the spatial parts must agree and apply to "
           "self.array / self.valid", v.f, perms["valid_array"][2])
    # flat layout: one row per cell for the data, one entry per cell for the validity
    tf, tv_ = perms["field_array"][1], perms["valid_array"][1]
    want_f = v.spec("vns.numpy_to_vtk(self.array.transpose((2, 1, 0, 3)).reshape((-1, self.nvdim)))")
    want_v = v.spec("vns.numpy_to_vtk(self.valid.astype(int).transpose((2, 1, 0)).reshape(-1))")
    chk.ob("field.Field.to_vtk::flat-layout", v.eq(tf, want_f) and v.eq(tv_, want_v), "C08.D7",
           f"data written as {v.show(tf)[:140]}, validity as {v.show(tv_)[:140]}; expected x-fastest rows of nvdim values and "
           "x-fastest integers (VTK has no Boolean arrays)", v.f, perms["valid_array"][2])
    chk.ob("field.Field.to_vtk::valid-name", "valid" in names.values() and "field" in names.values(),
           "C08.D7", f"array names {names}: reader looks for 'valid' and 'field'", v.f)
    d7_vtk_reader(chk, repo)


def d7_vtk_reader(chk, repo, rule="C08.D7"):
    """VTK reader: validity permuted like the data, selected by name, used iff present (shared with C16)"""
    v = FV(repo, "io.vtk._FieldIO_VTK._from_vtk", self_type=FIELD)
    for r, a in cm.returned_news(v):
        val, vld = a.get("value"), a.get("valid")
        if val is None:
            continue
        tv = _find_transpose(v, val)
        members = phi_members(v.ctx, vld) if vld is not None else []
        td = None
        for m in members:
            td = td or _find_transpose(v, m)
        ok = bool(tv and td and tuple(tv[0][:3]) == tuple(td[0]) and
                  cm.is_identity(cm.perm_compose((2, 1, 0), td[0])) and any(is_const(v.ctx, m, True) for m in members))
        chk.ob("io.vtk._from_vtk::kw=valid", ok, rule,
               f"reader passes valid={v.show(vld)}; expected the 'valid' cell array reshaped to reversed(n) and transposed "
               f"by the inverse of the writer's (2,1,0), or True when absent", v.f, r)
    # which cell array is the validity, and when it is used
    from ..lib import cond_equiv, path_term
    idx_assigns = {}
    for st in v.stmts():
        if isinstance(st, ast.Assign) and len(st.targets) == 1 and isinstance(st.targets[0], ast.Name) and \
                isinstance(st.value, ast.Name) and any(isinstance(p_, ast.For) for p_, f_ in v.cfg.enclosing(st)):
            idx_assigns[st.targets[0].id] = st
    used = {}
    for call, st in v.calls():
        if isinstance(call.func, ast.Attribute) and call.func.attr == "GetArray" and call.args and isinstance(call.args[0], ast.Name):
            used[call.args[0].id] = st
    for nm, st in idx_assigns.items():
        if nm not in used:
            continue
        pt = path_term(v, st)
        loop = [p_ for p_, f_ in v.cfg.enclosing(st) if isinstance(p_, ast.For)][0]
        it = v.term(loop.iter, at=loop)
        idx = v.ctx.mk(("iter", ()), (it,))
        arrname = None
        for s2 in loop.body:
            if isinstance(s2, ast.Assign):
                t2 = v.term(s2.value, at=s2)
                c2 = decode_call(v.ctx, t2)
                if c2 and c2[0] == ".GetArrayName" and len(c2[1]) == 2 and v.eq(c2[1][1], idx):
                    arrname = t2
        chk.require(arrname is not None, "_from_vtk: the array name is no longer obtained with GetArrayName(i) inside the loop")
        is_valid_reader = any(isinstance(x, ast.Name) and x.id == nm for p_, f_ in v.cfg.enclosing(used[nm])
                              if isinstance(p_, ast.If) for x in ast.walk(p_.test))
        label = "valid" if is_valid_reader else "field"
        wants = [v.spec(f"a == '{label}'", env={"a": arrname}),
                 v.spec("a == 'valid' and a != 'field'", env={"a": arrname}),
                 v.spec("a == 'field' and a != 'valid'", env={"a": arrname})]
        okn = v.eq(v.term(st.value, at=st), idx) and \
            (cond_equiv(v, pt, wants[0]) or cond_equiv(v, pt, wants[1] if label == "valid" else wants[2]))
        chk.ob(f"io.vtk._from_vtk::{label}-array-selected-by-name", okn, rule,
               f"the index used to read the {label} array is taken under {v.show(pt)[:200]}; expected exactly for the cell "
               f"array named '{label}'", v.f, st)
        if is_valid_reader:
            pu = path_term(v, used[nm])
            okp = reached_iff(v, used[nm], v.spec(f"{nm} is not None", at=used[nm]))
            chk.ob("io.vtk._from_vtk::validity-read-iff-present", okp, rule,
                   f"the validity array is read under {v.show(pu)[:160]}; expected exactly when a 'valid' array was found "
                   "(otherwise all cells are valid)", v.f, used[nm])
    chk.require(len([n_ for n_ in idx_assigns if n_ in used]) >= 2, "_from_vtk: the array indices for 'field' and 'valid' vanished")
    # name lookup
    src_names = set()
    for n in ast.walk(v.f.node):
        sides = [n.left] + list(n.comparators) if isinstance(n, ast.Compare) else []
        if any(isinstance(x, ast.Name) for x in sides):          # (the name may be written on either side)
            for c in sides:
                for x in ast.walk(c):
                    if isinstance(x, ast.Constant) and isinstance(x.value, str) and x.value in ("field", "valid", "norm"):
                        src_names.add(x.value)
    chk.ob("io.vtk._from_vtk::array-names", {"field", "valid"} <= src_names, rule,
           f"reader distinguishes arrays named {sorted(src_names)}; must recognise 'field' and 'valid'", v.f)


def _find_transpose(v, t, depth=0):
    """follow reshape/numpy_to_vtk/astype wrappers to a .transpose(perm): -> (perm, base term)"""
    if t is None or depth > 8:
        return None
    c = decode_call(v.ctx, t)
    if not c:
        return None
    name, pos, kw = c
    if name in (".transpose", "np.transpose") and len(pos) >= 2:
        p = tuple_consts(v.ctx, pos[1])
        if p is None and len(pos) > 2:
            try:
                p = tuple(int(x.const()) for x in pos[1:])
            except Exception:
                p = None
        if p is not None:
            return p, pos[0]
    if pos:
        return _find_transpose(v, pos[0], depth + 1)
    return None


def _base_is_valid(v, t):
    c = decode_call(v.ctx, t)
    if c and c[0] in ("astype", ".astype"):
        t = c[1][0]
    return v.eq(t, v.spec("self.valid"))


def _setname_map(v):
    out = {}
    for call, st in v.calls():
        if isinstance(call.func, ast.Attribute) and call.func.attr == "SetName" and isinstance(call.func.value, ast.Name) \
                and call.args and isinstance(call.args[0], ast.Constant):
            out[call.func.value.id] = call.args[0].value
    return out
