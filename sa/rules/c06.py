"""C06 - integrals and means are cell sums times cell measure, consistent across axes."""
import ast

from ..model import AnalysisError
from ..lib import FV, decode_new, decode_call, phi_members, is_sym, is_const, is_str, strip_stores, stores_of
from ..lib import (reached_iff, reached_implies, implies_reached, reached_iff_any, path_term, cond_equiv, cond_implies,  # noqa: F401
                   else_stmts, branch_stmts, context_literals)
from ..cfg import always_raises, walk_stmts
from ..terms import r_add, r_mul
from . import common as cm
from . import geom
from .common import FIELD, MESH
from .c01 import each, _single_return

FLOOR = 22
ANCHORS = [
    'field.Field.integrate',
    'field.Field.mean',
    'operators.integrate',
    'mesh.Mesh.dV',
]   # functions whose code the property is anchored in (mutation analysis, evidence)


def run(chk):
    repo = chk.repo
    cm.schema(chk, repo, "C06")
    v = FV(repo, "field.Field.integrate")
    chk.rule("C06.D1", "integrate() == sum(array over all spatial axes) * prod(cell); cumulative without a direction and "
                       "non-string directions are refused")
    rets = [r for r in v.returns() if r.value is not None]
    chk.require(len(rets) == 3, f"Field.integrate: expected three value returns, found {len(rets)}")
    r_all, r_bare, r_field = rets
    t = v.ev.term(r_all.value, at=r_all)
    want = v.spec("np.sum(self.array, axis=tuple(range(self.mesh.region.ndim))) * self.mesh.dV")
    chk.ob("field.Field.integrate::all-directions", v.eq(t, want), "C06.D1",
           f"returns {v.show(t)[:200]}; expected sum over all spatial axes times dV", v.f, r_all)
    conds = [(v.ev.term(c_, at=geom._if_stmt(v, c_)), pol) for c_, pol in v.cfg.path_condition(r_all)]
    chk.ob("field.Field.integrate::all-directions-condition", any(pol and v.eq(ct, v.spec("direction is None")) for ct, pol in conds),
           "C06.D1", "the volume integral is the result exactly when no direction is given", v.f, r_all)
    v2 = FV(repo, "mesh.Mesh.dV")
    rr, tt = _single_return(v2)
    chk.ob("mesh.Mesh.dV::definition", v2.eq(tt, v2.spec("np.prod(self.cell)")), "C06.D1", f"dV = {v2.show(tt)}", v2.f, rr)
    ok = False
    for r, n in v.raises():
        cs = [(v.ev.term(c_, at=geom._if_stmt(v, c_)), pol) for c_, pol in v.cfg.path_condition(r)]
        if n == "ValueError" and any(pol and v.eq(ct, v.spec("direction is None")) for ct, pol in cs) and \
                any(pol and is_sym(v.ctx, ct, "param:cumulative") for ct, pol in cs):
            ok = v.cfg.reachable(v.cfg.node(r), v.cfg.node(r_all)) is False and True
    chk.ob("field.Field.integrate::cumulative-needs-direction", ok, "C06.D1",
           "a cumulative integral without a direction must raise ValueError", v.f)
    okg, det = v.guard("not isinstance(direction, str)", exc=("TypeError",), before=r_field)
    chk.ob("field.Field.integrate::direction-type", okg, "C06.D1", det, v.f)

    chk.rule("C06.D2", "directional integral == sum(array, axis=a) * cell[a] with a = _dim2index(direction), on mesh.sel(direction); "
                       "for 1-d meshes the bare array is returned")
    a = v.spec("self.mesh.region._dim2index(direction)")
    env = {"a": a}
    plain = v.spec("np.sum(self.array, axis=a) * self.mesh.cell[a]", env=env)
    cum = None
    news = cm.returned_news(v)
    chk.require(news, "Field.integrate: no Field construction")
    r, args = news[0]
    val = args.get("value")
    mem = phi_members(v.ctx, val) if val is not None else []
    chk.ob("field.Field.integrate::directional-sum", any(v.eq(m, plain) for m in mem), "C06.D2",
           f"value alternatives {[v.show(m)[:140] for m in mem]}; one must be sum(array, axis=a) * cell[a]", v.f, r)
    # which alternative under which flag
    sel_ok = False
    for st in v.stmts():
        if isinstance(st, ast.If) and is_sym(v.ctx, v.ev.term(st.test, at=st), "param:cumulative") and st.orelse:
            for s2 in st.orelse:
                if isinstance(s2, ast.Assign) and v.eq(v.term(s2.value, at=s2), plain):
                    sel_ok = True
    chk.ob("field.Field.integrate::directional-sum-when-not-cumulative", sel_ok, "C06.D2",
           "the plain directional sum must be used exactly when cumulative is false", v.f)
    m = args.get("mesh")
    want_m = v.spec("self.mesh if cumulative else self.mesh.sel(direction)")
    chk.ob("field.Field.integrate::result-mesh", m is not None and v.eq(m, want_m), "C06.D2",
           f"mesh={v.show(m)}; expected self.mesh for cumulative, else self.mesh.sel(direction)", v.f, r)
    for kw in ("nvdim", "vdims", "vdim_mapping"):
        chk.ob(f"field.Field.integrate::kw={kw}", args.get(kw) is not None and v.eq(args[kw], v.spec(f"self.{kw}")), "C06.D2",
               f"{kw}={v.show(args.get(kw))}", v.f, r)
    tb = v.ev.term(r_bare.value, at=r_bare)
    cb = [(v.ev.term(c_, at=geom._if_stmt(v, c_)), pol) for c_, pol in v.cfg.path_condition(r_bare)]
    okb = any(pol and v.eq(ct, v.spec("self.mesh.region.ndim == 1 and not cumulative")) for ct, pol in cb) and \
        any(v.eq(m_, plain) for m_ in phi_members(v.ctx, tb))
    chk.ob("field.Field.integrate::bare-array-for-1d", okb, "C06.D2",
           "for ndim == 1 and not cumulative the number(s) are returned directly", v.f, r_bare)

    chk.rule("C06.D3", "cumulative integral == cell[a] * (array/2 + shift_by_one(cumsum(array, a))): the cumsum entries [:-1] are "
                       "added to positions [1:] along axis a only")
    left = v.spec("dfu.assemble_index(slice(None), self.mesh.region.ndim, {a: slice(None, -1)})", env=env)
    right = v.spec("dfu.assemble_index(slice(None), self.mesh.region.ndim, {a: slice(1, None)})", env=env)
    half = v.spec("self.array / 2")
    e2 = dict(env, L=left, R=right, H=half)
    newv = v.spec("H[R] + np.cumsum(self.array, axis=a)[L]", env=e2)
    want_c = r_mul(v.ctx.mk(("store",), (half, right, newv)), v.spec("self.mesh.cell[a]", env=env))
    chk.ob("field.Field.integrate::cumulative-formula", any(v.eq(m_, want_c) for m_ in mem), "C06.D3",
           f"value alternatives {[v.show(m_)[:200] for m_ in mem]}; one must be (array/2 with cumsum[:-1] added at [1:] along a) * cell[a]",
           v.f, r)
    d4_mean(chk, repo)
    cm.no_dtype_narrowing(chk, repo, "C06", "C06.D2", ["field.Field.integrate", "field.Field.mean"],
                          "sums times (float) cell lengths and means are not integers - an integer-typed field would be truncated")
    d5_linear(chk, repo, v, mem, t)
    d7_module_function(chk, repo)
    chk.trust("np.sum / np.cumsum / ndarray.mean reduce along the given axes only; mean == sum / n[a]; edges[a] == n[a]*cell[a] "
              "(C01.D1), so mean == directional integral / edge length in exact arithmetic")
    chk.assume("Fubini equality and integral/extent == mean in floating point are not decided")


def d4_mean(chk, repo):
    chk.rule("C06.D4", "mean: over all directions array.mean over every spatial axis; over one direction array.mean(axis=a) on "
                       "mesh.sel(direction); over several directions the axes are looked up in the ORIGINAL mesh while the result "
                       "mesh is reduced step by step; duplicates are refused")
    v = FV(repo, "field.Field.mean")
    rets = [r for r in v.returns() if r.value is not None]
    full = v.spec("self.array.mean(axis=tuple(range(self.mesh.region.ndim)))")
    fulls = [r for r in rets if v.eq(v.ev.term(r.value, at=r), full)]
    # the returns of the full mean together: each is reached only for `direction is None` or an explicit list of all dims
    # (reach conditions on the CFG, whatever the nesting and however many returns there are), and both cases lead to one
    none_c = v.spec("direction is None")
    all_c = v.spec("direction is not None and sorted(direction) == sorted(self.mesh.region.dims)")
    all_full = v.spec("direction is not None and isinstance(direction, (tuple, list)) and "
                      "len(direction) == len(set(direction)) and sorted(direction) == sorted(self.mesh.region.dims)")
    only = bool(fulls) and all(reached_implies(v, r, v.ev._bool("or", [none_c, all_c])) for r in fulls)
    covers_none = any(implies_reached(v, none_c, r) for r in fulls)
    covers_all = any(implies_reached(v, all_full, r) for r in fulls)
    chk.ob("field.Field.mean::all-directions", only and covers_none and covers_all, "C06.D4",
           f"mean() and mean(all dims) must both be array.mean over every spatial axis, and nothing else may be "
           f"(only for these: {only}; None covered: {covers_none}; all dims covered: {covers_all})", v.f)
    news = cm.returned_news(v)
    a = v.spec("self.mesh.region._dim2index(direction)")
    d = v.ctx.mk(("iter", ()), (v.spec("direction"),))
    a_each = v.spec("self.mesh.region._dim2index(d)", env={"d": d})
    # every constructed result: the alternatives of its mesh and of the axis / axes of the reduction, whatever the layout
    # (one constructor per case, or one constructor fed by variables that were set per case)
    single_ok = multi_ok = False
    bad = []
    single_site = multi_site = None
    loops = [s_ for s_ in v.stmts() if isinstance(s_, ast.For)]
    for r, x in news:
        c = decode_call(v.ctx, x.get("value")) if x.get("value") is not None else None
        if not (c and c[0] == ".mean" and v.eq(c[1][0], v.spec("self.array")) and "axis" in c[2] and len(c[1]) == 1):
            bad.append(f"`{v.src(r)[:50]}`: value is not self.array.mean(axis=...)")
            continue
        kinds_axis = set()
        for m_ in phi_members(v.ctx, c[2]["axis"]):
            if v.eq(m_, a):
                kinds_axis.add("single")
                continue
            calls = v.ctx.find_atoms(m_, lambda h, ar: h[0] == "call" and str(h[1]).endswith("_dim2index"))
            if calls and all(v.eq(v.ctx.var(ca), a_each) for ca in calls):
                kinds_axis.add("multi")
                for b_ in strip_stores(v.ctx, m_):
                    cb = decode_call(v.ctx, b_)
                    if cb and cb[0] == "np.zeros":
                        dt = cb[2].get("dtype")
                        chk.ob("field.Field.mean::axis-numbers-are-integers", dt is not None and is_sym(v.ctx, dt, "int"), "C06.D4",
                               f"the axis numbers are collected in {v.show(b_)}: numpy's default float64 is refused as an axis "
                               "(TypeError for every mean over several directions)", v.f, r)
            elif calls:
                bad.append(f"axis {v.show(m_)[:100]}: axis numbers must be looked up in the ORIGINAL mesh, one per requested direction")
            # (an alternative without any axis look-up is the empty start value of the collection)
        kinds_mesh = set()
        for m_ in phi_members(v.ctx, x.get("mesh")) if x.get("mesh") is not None else []:
            if v.eq(m_, v.spec("self.mesh.sel(direction)")):
                kinds_mesh.add("single")
                continue
            cm_ = decode_call(v.ctx, m_)
            if cm_ and cm_[0] in ("Mesh.sel", ".sel") and len(cm_[1]) == 2 and v.eq(cm_[1][1], d) and \
                    all(v.eq(y, v.spec("self.mesh")) or (v.ctx.head_of(y) or ("",))[0] == "carried"
                        for y in phi_members(v.ctx, cm_[1][0])):
                kinds_mesh.add("multi")
            elif v.eq(m_, v.spec("self.mesh")):
                kinds_mesh.add("start")
            else:
                bad.append(f"mesh {v.show(m_)[:100]}: neither self.mesh.sel(direction) nor the step-by-step reduction")
        if "single" in kinds_axis and "single" in kinds_mesh:
            single_ok, single_site = True, r
        if "multi" in kinds_axis and "multi" in kinds_mesh:
            multi_ok, multi_site = True, r
        if "start" in kinds_mesh and "multi" not in kinds_mesh:
            bad.append("the unreduced mesh is handed to a directional mean")
    chk.ob("field.Field.mean::single-direction", single_ok and not bad, "C06.D4",
           "mean(direction) must be array.mean(axis=_dim2index(direction)) on self.mesh.sel(direction)" +
           ("; " + "; ".join(bad) if bad else ""), v.f, single_site)
    chk.ob("field.Field.mean::several-directions", multi_ok and not bad, "C06.D4",
           "over several directions the result mesh is reduced step by step (mesh = mesh.sel(d) for every requested d) and the "
           "axes are the indices of the requested directions in the ORIGINAL mesh" + ("; " + "; ".join(bad) if bad else ""),
           v.f, multi_site or (loops[0] if loops else None))
    chk.ob("field.Field.mean::several-directions-reduction", multi_ok, "C06.D4",
           "the reduction must be array.mean(axis=tuple(the collected axes))", v.f)
    okg, det = v.guard("len(direction) != len(set(direction))", exc=("ValueError",), before=loops[0] if loops else "exit")
    chk.ob("field.Field.mean::duplicates-refused", okg, "C06.D4", det, v.f)
    for r, x in news:
        for kw in ("nvdim", "vdims", "unit", "vdim_mapping"):
            chk.ob(f"field.Field.mean::line{news.index((r, x))}::kw={kw}", x.get(kw) is not None and v.eq(x[kw], v.spec(f"self.{kw}")),
                   "C06.D4", f"{kw}={v.show(x.get(kw))}", v.f, r, nontrivial=False)


def d5_linear(chk, repo, v, mem, t_all):
    chk.rule("C06.D5/D6", "results are linear in the field values (sum, cumsum, halving, scaling by cell only), never reduce the "
                          "component axis, and do not depend on where the mesh sits (invariant under pmin,pmax -> pmin+T,pmax+T)")
    arr = v.spec("self.array")
    pmin = v.spec("self.mesh.region.pmin")
    pmax = v.spec("self.mesh.region.pmax")
    T = v.ctx.mk(("sym", "T"))
    sub = {pmin.single_atom(): r_add(pmin, T), pmax.single_atom(): r_add(pmax, T)}
    for ln in (v.spec("len(self.mesh.region.pmin)"), v.spec("len(self.mesh.region.pmax)")):
        sub[ln.single_atom()] = ln          # the number of dimensions is not a position
    for i, m_ in enumerate(list(mem) + [t_all]):
        moved = v.ctx.subst(m_, sub)
        chk.ob(f"field.Field.integrate::alt{i}::translation-invariant", v.eq(moved, m_), "C06.D5/D6",
               f"{v.show(m_)[:120]} changes when the mesh is translated", v.f)
        # linearity: every monomial contains exactly one array-derived atom with exponent 1
        lin = True
        arr_atoms = [a_ for a_ in v.ctx.all_atoms(m_) if _array_derived(v, a_, arr)]
        for mono, c_ in m_.num.items():
            n_ = sum(e for a_, e in mono if a_ in arr_atoms)
            if n_ != 1:
                lin = False
        for mono in m_.den:
            if any(a_ in arr_atoms for a_, e in mono):
                lin = False
        chk.ob(f"field.Field.integrate::alt{i}::linear", lin, "C06.D5/D6",
               f"{v.show(m_)[:120]} is not homogeneous of degree one in the field values", v.f)
        # the component axis is never reduced
        bad_axis = False
        for a_ in v.ctx.all_atoms(m_):
            head, args = v.ctx.atoms[a_]
            if head[0] == "call" and head[1] in ("np.sum", "np.cumsum", ".sum", ".cumsum") and "axis" in head[3]:
                ax = args[len(args) - len(head[3]) + head[3].index("axis")]
                okax = v.eq(ax, v.spec("self.mesh.region._dim2index(direction)")) or \
                    v.eq(ax, v.spec("tuple(range(self.mesh.region.ndim))"))
                bad_axis = bad_axis or not okax
            elif head[0] == "call" and head[1] in ("np.sum", "np.cumsum", ".sum", ".cumsum"):
                bad_axis = True
        chk.ob(f"field.Field.integrate::alt{i}::spatial-axes-only", not bad_axis, "C06.D5/D6",
               f"{v.show(m_)[:120]} reduces an axis that is not a spatial axis named by the direction", v.f)


def _array_derived(v, aid, arr):
    """atom is a numpy-linear image of the data array"""
    head, args = v.ctx.atoms[aid]
    me = v.ctx.var(aid)
    if v.eq(me, arr):
        return True
    if head[0] == "call" and head[1] in ("np.sum", "np.cumsum") and args and v.ctx.mentions_or_eq(args[0], arr):
        return True
    if head[0] in ("sub", "store") and args and v.ctx.mentions_or_eq(args[0], arr):
        return True
    return False


def d7_module_function(chk, repo):
    chk.rule("C06.D7", "df.integrate(field, direction, cumulative) forwards both arguments by keyword")
    v = FV(repo, "operators.integrate")
    r, t = _single_return(v)
    c = decode_call(v.ctx, t)
    ok = bool(c and c[0] == ".integrate" and is_sym(v.ctx, c[1][0], "param:field") and len(c[1]) == 1 and
              is_sym(v.ctx, c[2].get("direction", v.ctx.const(0)), "param:direction") and
              is_sym(v.ctx, c[2].get("cumulative", v.ctx.const(0)), "param:cumulative"))
    chk.ob("operators.integrate::forwards", ok, "C06.D7", f"returns {v.show(t)}", v.f, r)
