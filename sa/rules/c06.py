"""C06 - integrals and means are cell sums times cell measure, consistent across axes."""
import ast

from ..model import AnalysisError
from ..lib import FV, decode_new, decode_call, phi_members, is_sym, is_const, is_str, strip_stores, stores_of
from ..lib import (reached_iff, reached_implies, implies_reached, reached_iff_any, path_term, cond_equiv, cond_implies,  # noqa: F401
                   else_stmts, branch_stmts, context_literals)
from ..cfg import always_raises, walk_stmts
from ..terms import r_add, r_mul
from . import common as cm
from . import geom
from .common import FIELD, MESH
from .c01 import each, _single_return

FLOOR = 22
ANCHORS = [
    'field.Field.integrate',
    'field.Field.mean',
    'operators.integrate',
    'mesh.Mesh.dV',
]   # functions whose code the property is anchored in (mutation analysis, evidence)


def run(chk):
    repo = chk.repo
    v = FV(repo, "field.Field.integrate")
    chk.rule("C06.D1", "integrate() == sum(array over all spatial axes) * prod(cell); cumulative without a direction and "
                       "non-string directions are refused")
    rets = [r for r in v.returns() if r.value is not None]
    chk.require(len(rets) == 3, f"Field.integrate: expected three value returns, found {len(rets)}")
    r_all, r_bare, r_field = rets
    t = v.ev.term(r_all.value, at=r_all)
    want = v.spec("np.sum(self.array, axis=tuple(range(self.mesh.region.ndim))) * self.mesh.dV")
    chk.ob("field.Field.integrate::all-directions", v.eq(t, want), "C06.D1",
           f"returns {v.show(t)[:200]}; expected sum over all spatial axes times dV", v.f, r_all)
    conds = [(v.ev.term(c_, at=geom._if_stmt(v, c_)), pol) for c_, pol in v.cfg.path_condition(r_all)]
    chk.ob("field.Field.integrate::all-directions-condition", any(pol and v.eq(ct, v.spec("direction is None")) for ct, pol in conds),
           "C06.D1", "the volume integral is the result exactly when no direction is given", v.f, r_all)
    v2 = FV(repo, "mesh.Mesh.dV")
    rr, tt = _single_return(v2)
    chk.ob("mesh.Mesh.dV::definition", v2.eq(tt, v2.spec("np.prod(self.cell)")), "C06.D1", f"dV = {v2.show(tt)}", v2.f, rr)
    ok = False
    for r, n in v.raises():
        cs = [(v.ev.term(c_, at=geom._if_stmt(v, c_)), pol) for c_, pol in v.cfg.path_condition(r)]
        if n == "ValueError" and any(pol and v.eq(ct, v.spec("direction is None")) for ct, pol in cs) and \
                any(pol and is_sym(v.ctx, ct, "param:cumulative") for ct, pol in cs):
            ok = v.cfg.reachable(v.cfg.node(r), v.cfg.node(r_all)) is False and True
    chk.ob("field.Field.integrate::cumulative-needs-direction", ok, "C06.D1",
           "a cumulative integral without a direction must raise ValueError", v.f)
    okg, det = v.guard("not isinstance(direction, str)", exc=("TypeError",), before=r_field)
    chk.ob("field.Field.integrate::direction-type", okg, "C06.D1", det, v.f)

    chk.rule("C06.D2", "directional integral == sum(array, axis=a) * cell[a] with a = _dim2index(direction), on mesh.sel(direction); "
                       "for 1-d meshes the bare array is returned")
    a = v.spec("self.mesh.region._dim2index(direction)")
    env = {"a": a}
    plain = v.spec("np.sum(self.array, axis=a) * self.mesh.cell[a]", env=env)
    cum = None
    news = cm.returned_news(v)
    chk.require(news, "Field.integrate: no Field construction")
    r, args = news[0]
    val = args.get("value")
    mem = phi_members(v.ctx, val) if val is not None else []
    chk.ob("field.Field.integrate::directional-sum", any(v.eq(m, plain) for m in mem), "C06.D2",
           f"value alternatives {[v.show(m)[:140] for m in mem]}; one must be sum(array, axis=a) * cell[a]", v.f, r)
    # which alternative under which flag
    sel_ok = False
    for st in v.stmts():
        if isinstance(st, ast.If) and is_sym(v.ctx, v.ev.term(st.test, at=st), "param:cumulative") and st.orelse:
            for s2 in st.orelse:
                if isinstance(s2, ast.Assign) and v.eq(v.term(s2.value, at=s2), plain):
                    sel_ok = True
    chk.ob("field.Field.integrate::directional-sum-when-not-cumulative", sel_ok, "C06.D2",
           "the plain directional sum must be used exactly when cumulative is false", v.f)
    m = args.get("mesh")
    want_m = v.spec("self.mesh if cumulative else self.mesh.sel(direction)")
    chk.ob("field.Field.integrate::result-mesh", m is not None and v.eq(m, want_m), "C06.D2",
           f"mesh={v.show(m)}; expected self.mesh for cumulative, else self.mesh.sel(direction)", v.f, r)
    for kw in ("nvdim", "vdims", "vdim_mapping"):
        chk.ob(f"field.Field.integrate::kw={kw}", args.get(kw) is not None and v.eq(args[kw], v.spec(f"self.{kw}")), "C06.D2",
               f"{kw}={v.show(args.get(kw))}", v.f, r)
    tb = v.ev.term(r_bare.value, at=r_bare)
    cb = [(v.ev.term(c_, at=geom._if_stmt(v, c_)), pol) for c_, pol in v.cfg.path_condition(r_bare)]
    okb = any(pol and v.eq(ct, v.spec("self.mesh.region.ndim == 1 and not cumulative")) for ct, pol in cb) and \
        any(v.eq(m_, plain) for m_ in phi_members(v.ctx, tb))
    chk.ob("field.Field.integrate::bare-array-for-1d", okb, "C06.D2",
           "for ndim == 1 and not cumulative the number(s) are returned directly", v.f, r_bare)

    chk.rule("C06.D3", "cumulative integral == cell[a] * (array/2 + shift_by_one(cumsum(array, a))): the cumsum entries [:-1] are "
                       "added to positions [1:] along axis a only")
    left = v.spec("dfu.assemble_index(slice(None), self.mesh.region.ndim, {a: slice(None, -1)})", env=env)
    right = v.spec("dfu.assemble_index(slice(None), self.mesh.region.ndim, {a: slice(1, None)})", env=env)
    half = v.spec("self.array / 2")
    e2 = dict(env, L=left, R=right, H=half)
    newv = v.spec("H[R] + np.cumsum(self.array, axis=a)[L]", env=e2)
    want_c = r_mul(v.ctx.mk(("store",), (half, right, newv)), v.spec("self.mesh.cell[a]", env=env))
    chk.ob("field.Field.integrate::cumulative-formula", any(v.eq(m_, want_c) for m_ in mem), "C06.D3",
           f"value alternatives {[v.show(m_)[:200] for m_ in mem]}; one must be (array/2 with cumsum[:-1] added at [1:] along a) * cell[a]",
           v.f, r)
    d4_mean(chk, repo)
    cm.no_dtype_narrowing(chk, repo, "C06", "C06.D2", ["field.Field.integrate", "field.Field.mean"],
                          "sums times (float) cell lengths and means are not integers - an integer-typed field would be truncated")
    d5_linear(chk, repo, v, mem, t)
    d7_module_function(chk, repo)
    chk.trust("np.sum / np.cumsum / ndarray.mean reduce along the given axes only; mean == sum / n[a]; edges[a] == n[a]*cell[a] "
              "(C01.D1), so mean == directional integral / edge length in exact arithmetic")
    chk.assume("Fubini equality and integral/extent == mean in floating point are not decided")


def d4_mean(chk, repo):
    chk.rule("C06.D4", "mean: over all directions array.mean over every spatial axis; over one direction array.mean(axis=a) on "
                       "mesh.sel(direction); over several directions the axes are looked up in the ORIGINAL mesh while the result "
                       "mesh is reduced step by step; duplicates are refused")
    v = FV(repo, "field.Field.mean")
    rets = [r for r in v.returns() if r.value is not None]
    full = v.spec("self.array.mean(axis=tuple(range(self.mesh.region.ndim)))")
    fulls = [r for r in rets if v.eq(v.ev.term(r.value, at=r), full)]
    conds_ok = 0
    for r in fulls:
        # two different returns: one exactly for `direction is None`, one for an explicit list of all dims (reach
        # conditions on the CFG, whatever the nesting)
        if reached_iff(v, r, v.spec("direction is None")):
            conds_ok |= 1
        elif reached_implies(v, r, v.spec("direction is not None and sorted(direction) == sorted(self.mesh.region.dims)")) and \
                implies_reached(v, v.spec("direction is not None and isinstance(direction, (tuple, list)) and "
                                          "len(direction) == len(set(direction)) and "
                                          "sorted(direction) == sorted(self.mesh.region.dims)"), r):
            conds_ok |= 2
    chk.ob("field.Field.mean::all-directions", conds_ok == 3, "C06.D4",
           "mean() and mean(all dims) must both be array.mean over every spatial axis", v.f)
    news = cm.returned_news(v)
    a = v.spec("self.mesh.region._dim2index(direction)")
    single = [(r, x) for r, x in news if x.get("value") is not None and v.eq(x["value"], v.spec("self.array.mean(axis=a)", env={"a": a}))]
    ok = len(single) == 1 and v.eq(single[0][1].get("mesh"), v.spec("self.mesh.sel(direction)"))
    chk.ob("field.Field.mean::single-direction", ok, "C06.D4",
           "mean(direction) must be array.mean(axis=_dim2index(direction)) on self.mesh.sel(direction)", v.f,
           single[0][0] if single else None)
    # several directions
    loops = [s for s in v.stmts() if isinstance(s, ast.For)]
    ok = False
    det = "no loop over the requested directions"
    if len(loops) == 1:
        lp = loops[0]
        it = v.term(lp.iter, at=lp)
        d = v.ctx.mk(("iter", ()), (v.spec("direction"),))
        i = v.ctx.mk(("index",), (v.spec("direction"),))
        mesh_step = axis_step = False
        for s in lp.body:
            if isinstance(s, ast.Assign) and isinstance(s.targets[0], ast.Name):
                t = v.term(s.value, at=s)
                c = decode_call(v.ctx, t)
                if c and c[0] in ("Mesh.sel", ".sel") and len(c[1]) == 2 and v.eq(c[1][1], d):
                    mem = phi_members(v.ctx, c[1][0])
                    mesh_step = any(v.eq(m_, v.spec("self.mesh")) for m_ in mem)
            if isinstance(s, ast.Assign) and isinstance(s.targets[0], ast.Subscript):
                idx = v.ev._index(s.targets[0].slice, v.cfg.node(s), None)
                val = v.term(s.value, at=s)
                axis_step = v.eq(idx, i) and v.eq(val, v.spec("self.mesh.region._dim2index(d)", env={"d": d}))
        ok = v.eq(it, v.spec("enumerate(direction)")) and mesh_step and axis_step
        det = f"mesh reduced step by step: {mesh_step}; axis i = index of direction i in the ORIGINAL mesh: {axis_step}"
    chk.ob("field.Field.mean::several-directions", ok, "C06.D4", det, v.f, loops[0] if loops else None)
    multi = [(r, x) for r, x in news if (r, x) not in single]
    okm = False
    for r, x in multi:
        c = decode_call(v.ctx, x.get("value")) if x.get("value") is not None else None
        if c and c[0] == ".mean" and v.eq(c[1][0], v.spec("self.array")) and "axis" in c[2]:
            bases = strip_stores(v.ctx, c[2]["axis"])
            okm = all((decode_call(v.ctx, b) or ("",))[0] == "np.zeros" for b in bases)
            for b in bases:
                cb = decode_call(v.ctx, b)
                if cb and cb[0] == "np.zeros":
                    dt = cb[2].get("dtype")
                    chk.ob("field.Field.mean::axis-numbers-are-integers", dt is not None and is_sym(v.ctx, dt, "int"), "C06.D4",
                           f"the axis numbers are collected in {v.show(b)}: numpy's default float64 is refused as an axis "
                           "(TypeError for every mean over several directions)", v.f, r)
    chk.ob("field.Field.mean::several-directions-reduction", okm, "C06.D4",
           "the reduction must be array.mean(axis=tuple(the collected axes))", v.f)
    okg, det = v.guard("len(direction) != len(set(direction))", exc=("ValueError",), before=loops[0] if loops else "exit")
    chk.ob("field.Field.mean::duplicates-refused", okg, "C06.D4", det, v.f)
    for r, x in news:
        for kw in ("nvdim", "vdims", "unit", "vdim_mapping"):
            chk.ob(f"field.Field.mean::line{news.index((r, x))}::kw={kw}", x.get(kw) is not None and v.eq(x[kw], v.spec(f"self.{kw}")),
                   "C06.D4", f"{kw}={v.show(x.get(kw))}", v.f, r, nontrivial=False)


def d5_linear(chk, repo, v, mem, t_all):
    chk.rule("C06.D5/D6", "results are linear in the field values (sum, cumsum, halving, scaling by cell only), never reduce the "
                          "component axis, and do not depend on where the mesh sits (invariant under pmin,pmax -> pmin+T,pmax+T)")
    arr = v.spec("self.array")
    pmin = v.spec("self.mesh.region.pmin")
    pmax = v.spec("self.mesh.region.pmax")
    T = v.ctx.mk(("sym", "T"))
    sub = {pmin.single_atom(): r_add(pmin, T), pmax.single_atom(): r_add(pmax, T)}
    for ln in (v.spec("len(self.mesh.region.pmin)"), v.spec("len(self.mesh.region.pmax)")):
        sub[ln.single_atom()] = ln          # the number of dimensions is not a position
    for i, m_ in enumerate(list(mem) + [t_all]):
        moved = v.ctx.subst(m_, sub)
        chk.ob(f"field.Field.integrate::alt{i}::translation-invariant", v.eq(moved, m_), "C06.D5/D6",
               f"{v.show(m_)[:120]} changes when the mesh is translated", v.f)
        # linearity: every monomial contains exactly one array-derived atom with exponent 1
        lin = True
        arr_atoms = [a_ for a_ in v.ctx.all_atoms(m_) if _array_derived(v, a_, arr)]
        for mono, c_ in m_.num.items():
            n_ = sum(e for a_, e in mono if a_ in arr_atoms)
            if n_ != 1:
                lin = False
        for mono in m_.den:
            if any(a_ in arr_atoms for a_, e in mono):
                lin = False
        chk.ob(f"field.Field.integrate::alt{i}::linear", lin, "C06.D5/D6",
               f"{v.show(m_)[:120]} is not homogeneous of degree one in the field values", v.f)
        # the component axis is never reduced
        bad_axis = False
        for a_ in v.ctx.all_atoms(m_):
            head, args = v.ctx.atoms[a_]
            if head[0] == "call" and head[1] in ("np.sum", "np.cumsum", ".sum", ".cumsum") and "axis" in head[3]:
                ax = args[len(args) - len(head[3]) + head[3].index("axis")]
                okax = v.eq(ax, v.spec("self.mesh.region._dim2index(direction)")) or \
                    v.eq(ax, v.spec("tuple(range(self.mesh.region.ndim))"))
                bad_axis = bad_axis or not okax
            elif head[0] == "call" and head[1] in ("np.sum", "np.cumsum", ".sum", ".cumsum"):
                bad_axis = True
        chk.ob(f"field.Field.integrate::alt{i}::spatial-axes-only", not bad_axis, "C06.D5/D6",
               f"{v.show(m_)[:120]} reduces an axis that is not a spatial axis named by the direction", v.f)


def _array_derived(v, aid, arr):
    """atom is a numpy-linear image of the data array"""
    head, args = v.ctx.atoms[aid]
    me = v.ctx.var(aid)
    if v.eq(me, arr):
        return True
    if head[0] == "call" and head[1] in ("np.sum", "np.cumsum") and args and v.ctx.mentions_or_eq(args[0], arr):
        return True
    if head[0] in ("sub", "store") and args and v.ctx.mentions_or_eq(args[0], arr):
        return True
    return False


def d7_module_function(chk, repo):
    chk.rule("C06.D7", "df.integrate(field, direction, cumulative) forwards both arguments by keyword")
    v = FV(repo, "operators.integrate")
    r, t = _single_return(v)
    c = decode_call(v.ctx, t)
    ok = bool(c and c[0] == ".integrate" and is_sym(v.ctx, c[1][0], "param:field") and len(c[1]) == 1 and
              is_sym(v.ctx, c[2].get("direction", v.ctx.const(0)), "param:direction") and
              is_sym(v.ctx, c[2].get("cumulative", v.ctx.const(0)), "param:cumulative"))
    chk.ob("operators.integrate::forwards", ok, "C06.D7", f"returns {v.show(t)}", v.f, r)
