"""C11 - field FFTs are the discrete Fourier transform at the k-mesh's frequencies."""
import ast

from ..model import AnalysisError
from ..lib import mapping_entries, value_members  # noqa: F401
from ..lib import (FV, decode_new, decode_call, phi_members, is_sym, is_const, is_str, strip_stores, stores_of,
                   find_assign, find_assigns, simple_assigns, local_term)
from ..lib import (reached_iff, reached_implies, implies_reached, reached_iff_any, path_term, cond_equiv, cond_implies,  # noqa: F401
                   else_stmts, branch_stmts, context_literals)
from ..cfg import always_raises, walk_stmts
from ..terms import r_add, r_sub, r_div
from . import common as cm
from . import geom
from .common import FIELD, MESH, REGION
from .c01 import each, _single_return
from .c07 import appends

FLOOR = 33
ANCHORS = [
    'field.Field.fftn',
    'field.Field.ifftn',
    'field.Field.rfftn',
    'field.Field.irfftn',
    'field.Field._fftn',
    'mesh.Mesh.fftn',
    'mesh.Mesh.ifftn',
]   # functions whose code the property is anchored in (mutation analysis, evidence)

TABLE = {
    "field.Field.fftn": ("spfft.fftshift(spfft.fftn(self.array, axes=A, **kwargs), axes=A)", "self.mesh.fftn()", False),
    "field.Field.ifftn": ("spfft.ifftn(spfft.ifftshift(self.array, axes=A), axes=A, **kwargs)", "self.mesh.ifftn()", True),
    "field.Field.rfftn": ("spfft.fftshift(spfft.rfftn(self.array, axes=A, **kwargs), axes=A[:-1])", "self.mesh.fftn(rfft=True)", False),
    "field.Field.irfftn": ("spfft.irfftn(spfft.ifftshift(self.array, axes=A[:-1]), axes=A, s=shape, **kwargs)",
                           "self.mesh.ifftn(rfft=True, shape=shape)", True),
}


def run(chk):
    repo = chk.repo
    cm.schema(chk, repo, "C11")
    d1_composition(chk, repo)
    d2_kmesh(chk, repo, "mesh.Mesh.fftn", "self.n[i]", True)
    d2_kmesh(chk, repo, "mesh.Mesh.ifftn", "S[i]", False)
    d3_names(chk, repo)
    d3b_fftn_conditions(chk, repo)
    d4_inverse_mesh(chk, repo)
    d5_metadata(chk, repo)
    cm.no_dtype_narrowing(chk, repo, "C11", "C11.D5", ["field.Field._fftn"],
                          "Fourier coefficients are complex - a real dtype would drop the imaginary parts")
    chk.trust("scipy.fft: fftn/ifftn/rfftn/irfftn compute the (inverse) DFT over the given axes; fftfreq(n, d) / rfftfreq(n, d) are "
              "the sample frequencies k/(n d), uniformly spaced by 1/(n d); fftshift/ifftshift move the zero frequency to/from "
              "the centre and are mutually inverse")
    chk.assume("the DFT sum itself, Parseval / round-trip accuracy and linearity in floating point are not decided")


def d1_composition(chk, repo):
    chk.rule("C11.D1", "composition table: forward = fftshift o fftn over the spatial axes; inverse = ifftn o ifftshift; the real "
                       "forward transform shifts all but the last axis; the real inverse unshifts those and passes s=shape; the "
                       "component axis is never transformed; the result lives on the matching k-mesh")
    for q, (arr, mesh, inv) in TABLE.items():
        v = FV(repo, q)
        r, t = _single_return(v)
        c = decode_call(v.ctx, t)
        A = v.spec("range(self.mesh.region.ndim)")
        ok = bool(c and c[0] == "Field._fftn" and is_sym(v.ctx, c[1][0], "self"))
        if ok:
            kw = dict(c[2])
            names = ["mesh", "array", "ifftn"]
            for i, p in enumerate(c[1][1:]):
                kw[names[i]] = p
            want_a = v.spec(arr, env={"A": A})
            ok = "array" in kw and v.eq(kw["array"], want_a) and "mesh" in kw and v.eq(kw["mesh"], v.spec(mesh)) and \
                "ifftn" in kw and is_const(v.ctx, kw["ifftn"], inv)
        chk.ob(f"{q}::composition", ok, "C11.D1",
               f"returns {v.show(t)[:260]}; expected self._fftn(mesh={mesh}, array={arr}, ifftn={inv}) with A = range(ndim)", v.f, r)


def d2_kmesh(chk, repo, q, count_txt, forward):
    chk.rule("C11.D2", "k-mesh per axis: frequencies fftfreq(count_i, cell_i) (rfftfreq for the last axis of the real transform), "
                       "faces min - df/2 and max + df/2 with df = |f1 - f0|, cell count len(freqs); a single-cell axis has the one "
                       "frequency 0: its k-cell must be centred at 0 with width 1/cell_i")
    v = FV(repo, q)
    loops = [s for s in v.stmts() if isinstance(s, ast.For)]
    chk.require(len(loops) == 1, f"{q}: axis loop vanished")
    lp = loops[0]
    it = v.term(lp.iter, at=lp)
    chk.ob(f"{q}::axis-loop", v.eq(it, v.spec("range(self.region.ndim)")), "C11.D2", "the loop must visit every axis", v.f, lp)
    i_ = each(v, it)
    S = v.ev.term(ast.Name(id="shape", ctx=ast.Load()), at=lp) if "shape" in v.ev._local_names or "shape" in v.f.params else None
    env = {"i": i_, "S": S} if S is not None else {"i": i_}
    count = v.spec(count_txt, env=env)
    br = [s for s in lp.body if isinstance(s, ast.If)]
    chk.require(len(br) == 1, f"{q}: single-cell branch vanished")
    br = br[0]
    chk.ob(f"{q}::single-cell-condition", v.eq(v.ev.term(br.test, at=br), v.spec("C == 1", env={"C": count})), "C11.D2",
           f"single-cell branch is taken for `{v.src(br.test)}`; expected count == 1", v.f, br)
    # the three lists: which is which is decided by the constructor arguments
    news = cm.returned_news(v, cls=MESH)
    if not news:
        # ifftn returns the translated mesh variable: take the construction site instead
        sites = v.ctor_sites(MESH)
        chk.require(sites, f"{q}: no Mesh construction")
        a = sites[0].args
        ret = sites[0].stmt
    else:
        ret, a = news[0]
    rg = decode_new(repo, v.ctx, a.get("region")) if a.get("region") is not None else None
    if rg is None:
        chk.ob(f"{q}::mesh-built-on-the-k-region", False, "C11.D2",
               "the returned mesh is not constructed on a Region built in this function (region= missing)", v.f, ret)
        return
    role = {}
    for st in v.body:
        if isinstance(st, ast.Assign) and isinstance(st.targets[0], ast.Name) and isinstance(st.value, ast.List) and not st.value.elts:
            nm = st.targets[0].id
            for kw, t in (("p1", rg[1].get("p1")), ("p2", rg[1].get("p2")), ("n", a.get("n"))):
                if t is not None:
                    bases = strip_stores(v.ctx, t)
                    # the list object that reaches the keyword is the one created by this statement
                    lst = v.term(st.value, at=st)
                    try:
                        same = v.eq(local_term(v, nm, ret), t)      # the value of that list when the mesh is built
                    except AnalysisError:
                        same = False
                    if same:
                        role[nm] = kw
    chk.ob(f"{q}::lists-feed-constructor", set(role.values()) == {"p1", "p2", "n"}, "C11.D2",
           f"the per-axis lists must feed p1, p2 and n of the k-mesh; found {role}", v.f, ret)
    cell = v.spec("self.cell[i]", env=env)
    # single-cell branch
    got = {role.get(nm): t for nm, s_, t in appends(v, br.body)}
    ok1 = all(k in got for k in ("p1", "p2", "n"))
    if ok1:
        centre_ok = v.eq(r_add(got["p1"], got["p2"]), v.ctx.const(0))
        width_ok = v.eq(r_sub(got["p2"], got["p1"]), r_div(v.ctx.const(1), cell))
        n_ok = is_const(v.ctx, got["n"], 1)
        chk.ob(f"{q}::single-cell::centred-at-zero", centre_ok, "C11.D2",
               f"single-cell axis: k-range [{v.show(got['p1'])}, {v.show(got['p2'])}] is centred at "
               f"{v.show(r_div(r_add(got['p1'], got['p2']), v.ctx.const(2)))}, not at the only sample frequency 0", v.f, br)
        chk.ob(f"{q}::single-cell::width", width_ok and n_ok, "C11.D2",
               f"single-cell axis: width {v.show(r_sub(got['p2'], got['p1']))} with {v.show(got['n'])} cell(s); expected 1/cell_i and 1",
               v.f, br)
    else:
        chk.ob(f"{q}::single-cell::appends", False, "C11.D2", "the single-cell branch must append to all three lists", v.f, br)
    # general branch
    fr = find_assign(v, lambda t_, s_: (decode_call(v.ctx, t_) or ("",))[0] in ("spfft.fftfreq", "spfft.rfftfreq"),
                     list(walk_stmts(br.orelse)))
    gen = {role.get(nm): (s_, t) for nm, s_, t in appends(v, list(walk_stmts(br.orelse)))}
    okg = all(k in gen for k in ("p1", "p2", "n"))
    chk.ob(f"{q}::general::appends", okg, "C11.D2", "the general branch must append to all three lists", v.f, br)
    if okg and fr is None:
        chk.ob(f"{q}::general::frequencies", False, "C11.D2", "no variable holds the sample frequencies of the axis", v.f, br)
    if okg and fr is not None:
        F = local_term(v, fr[1], gen["p1"][0])
        mem = phi_members(v.ctx, F)
        full = v.spec("spfft.fftfreq(C, self.cell[i])", env=dict(env, C=count))
        half = v.spec("spfft.rfftfreq(C, self.cell[i])", env=dict(env, C=count))
        if forward:
            okf = len(mem) == 2 and any(v.eq(m_, full) for m_ in mem) and any(v.eq(m_, half) for m_ in mem)
            # the half-spectrum frequencies arrive exactly under `rfft and last axis` (gated reaching definitions: however
            # the two alternatives are written down)
            from ..lib import gated_values, value_iff, full_term
            gv = gated_values(v, fr[1], gen["p1"][0])
            cond_ok = bool(gv) and value_iff(v, gv, lambda t_: v.eq(t_, half),
                                             v.spec("rfft and i == self.region.ndim - 1", env=env),
                                             assume=full_term(v, gen["p1"][0]))
            chk.ob(f"{q}::general::real-transform-last-axis", cond_ok, "C11.D2",
                   "rfftfreq must be used exactly for the last axis of the real transform", v.f, br)
        else:
            okf = len(mem) == 1 and v.eq(mem[0], full)
        chk.ob(f"{q}::general::frequencies", okf, "C11.D2",
               f"frequencies {[v.show(m_)[:90] for m_ in mem]}; expected (r)fftfreq(count_i, cell_i) of the same axis i", v.f, br)
        e2 = {"F": F}
        df_ = v.spec("abs(F[1] - F[0]) / 2", env=e2)
        ok_faces = v.eq(gen["p1"][1], v.spec("min(F) - D", env=dict(e2, D=df_))) and \
            v.eq(gen["p2"][1], v.spec("max(F) + D", env=dict(e2, D=df_))) and v.eq(gen["n"][1], v.spec("len(F)", env=e2))
        chk.ob(f"{q}::general::faces", ok_faces, "C11.D2",
               f"faces {v.show(gen['p1'][1])[:100]} / {v.show(gen['p2'][1])[:100]}, count {v.show(gen['n'][1])[:60]}; expected "
               "min(freqs) - |f1-f0|/2, max(freqs) + |f1-f0|/2, len(freqs)", v.f, br)


def _name_of_kw(v, kw, ret):
    """source-level variable that is passed as keyword kw to Region(...) / Mesh(...) in this function"""
    for n in ast.walk(v.f.node):
        if isinstance(n, ast.Call):
            for k in n.keywords:
                if k.arg == kw and isinstance(k.value, ast.Name):
                    return k.value.id
    return None


def _strip_rule(v, t):
    """ifexp(startswith(x, P) [and endswith(x, S)], x[a:b], x) -> (P, S, a, b) or None"""
    h = v.ctx.head_of(t)
    if not h or h[0] != "ifexp":
        return None
    cnd, yes, no = v.ctx.args_of(t)
    parts = v.ctx.args_of(cnd) if (v.ctx.head_of(cnd) or ("",))[0] == "and" else [cnd]
    P = S = None
    for p in parts:
        c = decode_call(v.ctx, p)
        if c and c[0] == ".startswith" and v.eq(c[1][0], no) and is_str(v.ctx, c[1][1]):
            P = v.ctx.head_of(c[1][1])[1]
        elif c and c[0] == ".endswith" and v.eq(c[1][0], no) and is_str(v.ctx, c[1][1]):
            S = v.ctx.head_of(c[1][1])[1]
        else:
            return None
    hy = v.ctx.head_of(yes)
    if not hy or hy[0] != "sub" or not v.eq(v.ctx.args_of(yes)[0], no):
        return None
    sl = v.ctx.args_of(yes)[1]
    if v.ctx.head_of(sl) != ("slice",):
        return None
    lo, hi, stp = v.ctx.args_of(sl)
    a = int(lo.const()) if lo.const() is not None else 0
    b = int(hi.const()) if hi.const() is not None else 0
    return P, S, a, b


def d3_names(chk, repo):
    chk.rule("C11.D3", "names: 'k_' prefix on dims and mapping targets, 'ft_' on labels, '(u)$^{-1}$' on units; every strip removes "
                       "exactly the prefix/suffix it tests for; Mesh.fftn and Field._fftn use the same 'k_'")
    v = FV(repo, "mesh.Mesh.fftn")
    sites = v.ctor_sites(REGION)
    chk.require(sites, "Mesh.fftn: Region construction vanished")
    a = sites[0].args
    okd = a.get("dims") is not None and v.eq(a["dims"], v.spec("[f'k_{d}' for d in self.region.dims]"))
    oku = a.get("units") is not None and v.eq(a["units"], v.spec("[f'({u})' + '$^{-1}$' for u in self.region.units]"))
    chk.ob("mesh.Mesh.fftn::k-dims", okd, "C11.D3", f"dims={v.show(a.get('dims'))[:120]}; expected 'k_' + dim", v.f, sites[0].call)
    chk.ob("mesh.Mesh.fftn::k-units", oku, "C11.D3", f"units={v.show(a.get('units'))[:120]}; expected '(' + unit + ')$^{{-1}}$'", v.f, sites[0].call)
    chk.ob("mesh.Mesh.fftn::tolerance", a.get("tolerance_factor") is not None and
           v.eq(a["tolerance_factor"], v.spec("self.region.tolerance_factor")), "C11.D3", "tolerance factor must be kept", v.f)
    w = FV(repo, "mesh.Mesh.ifftn")
    sites = w.ctor_sites(REGION)
    chk.require(sites, "Mesh.ifftn: Region construction vanished")
    a = sites[0].args
    for kw, P, S in (("dims", "k_", None), ("units", "(", ")$^{-1}$")):
        t = a.get(kw)
        ok = False
        det = w.show(t)[:140] if t is not None else "<absent>"
        if t is not None and (w.ctx.head_of(t) or ("",))[0] == "seqcomp":
            rule = _strip_rule(w, w.ctx.args_of(t)[0])
            if rule:
                p_, s_, lo, hi = rule
                ok = p_ == P and s_ == S and lo == len(P) and hi == (-len(S) if S else 0)
                det = f"tests prefix {p_!r} suffix {s_!r}, strips [{lo}:{hi or ''}]"
        chk.ob(f"mesh.Mesh.ifftn::{kw}-strip", ok, "C11.D3",
               f"{det}; expected to strip exactly prefix {P!r}" + (f" and suffix {S!r}" if S else ""), w.f, sites[0].call)
    f = FV(repo, "field.Field._fftn")
    for r, x in cm.returned_news(f):
        vd = phi_members(f.ctx, x.get("vdims")) if x.get("vdims") is not None else []
        fwd = f.spec("[f'ft_{vdim}' for vdim in self.vdims]")
        ok_f = any(f.eq(m_, fwd) for m_ in vd)
        ok_i = False
        for m_ in vd:
            if (f.ctx.head_of(m_) or ("",))[0] == "seqcomp":
                rule = _strip_rule(f, f.ctx.args_of(m_)[0])
                if rule and rule[0] == "ft_" and rule[1] is None and rule[2] == 3 and rule[3] == 0:
                    ok_i = True
        chk.ob("field.Field._fftn::label-prefix", ok_f and ok_i and any(is_const(f.ctx, m_, None) for m_ in vd), "C11.D3",
               "labels get 'ft_' forward and lose exactly those three characters backward; None stays None", f.f, r)
        vm = x.get("vdim_mapping")
        ents = mapping_entries(f.ctx, vm) if vm is not None else []
        okm_f = okm_i = False
        comp_elem = f.spec("self.vdim_mapping[v]", env={"v": each(f, f.spec("self.vdims"))})
        fwd_val = f.spec("f'k_{m}'", env={"m": comp_elem})
        labels = [m_ for m_ in vd if not is_const(f.ctx, m_, None)]
        okz = bool(ents)
        for key, val, conds in ents:
            for pol, leaf in _direction_leaves(f, val):
                if f.eq(leaf, fwd_val):
                    okm_f = True
                rule = _strip_rule(f, leaf)
                if rule and rule[0] == "k_" and rule[2] == 2 and rule[3] == 0 and f.eq(f.ctx.args_of(leaf)[2], comp_elem):
                    okm_i = True
            # keyed by the new label of the same component: the element of the new labels at the position of the old label
            key_ok = False
            for pol, kleaf in _direction_leaves(f, key):
                hk = f.ctx.head_of(kleaf)
                if hk and hk[0] == "iter" and hk[1] == () and labels and all(
                        any(f.eq(y, m_) for m_ in labels) for y in phi_members(f.ctx, f.ctx.args_of(kleaf)[0])):
                    key_ok = True
                elif any((f.ctx.head_of(m_) or ("",))[0] == "seqcomp" and f.eq(f.ctx.args_of(m_)[0], kleaf) and
                         f.eq(f.ctx.args_of(f.ctx.args_of(m_)[1])[0], f.spec("self.vdims")) for m_ in labels):
                    key_ok = True
                else:
                    key_ok = False
                    break
            okz = okz and key_ok
        chk.ob("field.Field._fftn::mapping-prefix", okm_f and okm_i, "C11.D3",
               "mapping targets get 'k_' forward (the same prefix Mesh.fftn puts on the dims) and lose exactly it backward", f.f, r)
        chk.ob("field.Field._fftn::mapping-keys-follow-labels", okz, "C11.D3",
               "the new mapping must be keyed by the NEW label of the same component (zip(old labels, new labels))", f.f, r)


def _direction_leaves(f, t):
    """[(polarity of `ifftn` or None, value)]: a value that is a conditional expression on the transform direction, split"""
    h = f.ctx.head_of(t)
    if h and h[0] == "ifexp" and f.eq(f.ctx.args_of(t)[0], f.spec("ifftn")):
        _, a, b = f.ctx.args_of(t)
        return [(True, x) for _, x in _direction_leaves(f, a)] + [(False, x) for _, x in _direction_leaves(f, b)]
    return [(None, t)]


def d3b_fftn_conditions(chk, repo):
    from ..lib import cond_equiv, cond_implies, path_term
    f = FV(repo, "field.Field._fftn")
    has = f.spec("self.vdims is not None")
    inv = f.spec("ifftn")
    fwd_labels = f.spec("[f'ft_{vdim}' for vdim in self.vdims]")
    for st in f.stmts():
        if not isinstance(st, ast.Assign):
            continue
        t = f.term(st.value, at=st)
        pt = path_term(f, st)
        if isinstance(st.targets[0], ast.Name):
            if isinstance(st.value, ast.Constant) and st.value.value is None:
                chk.ob("field.Field._fftn::none-iff-unlabelled",
                       reached_iff(f, st, f.ev._not(has)), "C11.D3",
                       f"`{f.src(st)}` under {f.show(pt)}; expected exactly for fields without labels", f.f, st)
            elif f.eq(t, fwd_labels):
                chk.ob("field.Field._fftn::prefix-added-iff-forward", reached_iff(f, st, f.ev._bool("and", [has, f.ev._not(inv)])),
                       "C11.D3", f"'ft_' is added under {f.show(pt)}; expected: labelled field, forward transform", f.f, st)
            elif (f.ctx.head_of(t) or ("",))[0] == "seqcomp" and _strip_rule(f, f.ctx.args_of(t)[0]):
                chk.ob("field.Field._fftn::prefix-stripped-iff-inverse", reached_iff(f, st, f.ev._bool("and", [has, inv])),
                       "C11.D3", f"'ft_' is stripped under {f.show(pt)}; expected: labelled field, inverse transform", f.f, st)
            elif mapping_entries(f.ctx, t):
                for key, val, conds in mapping_entries(f.ctx, t):
                    member = f.spec("k in self.vdim_mapping", env={"k": each(f, f.spec("self.vdims"))})
                    filt = f.ev._bool("and", list(conds)) if conds else f.ctx.mk(("const", True))
                    for pol, leaf in _direction_leaves(f, val):
                        is_inv = _strip_rule(f, leaf) is not None
                        want_dir = inv if is_inv else f.ev._not(inv)
                        if pol is None:
                            ok = reached_iff(f, st, f.ev._bool("and", [has, want_dir]))
                        else:
                            ok = pol == is_inv and reached_iff(f, st, has)
                        ok = ok and cond_equiv(f, filt, member)
                        chk.ob(f"field.Field._fftn::mapping-entry-iff-mapped-{'inverse' if is_inv else 'forward'}", ok, "C11.D3",
                               f"entry {f.show(leaf)[:70]} filtered by {f.show(filt)[:80]} under {f.show(pt)[:120]}; expected: labelled "
                               f"field, the component has a mapping entry, {'inverse' if is_inv else 'forward'} transform", f.f, st)
        elif isinstance(st.targets[0], ast.Subscript):
            keys = []
            for aid in f.ctx.all_atoms(t) | ({t.single_atom()} if t.single_atom() is not None else set()):
                hd, ar = f.ctx.atoms[aid]
                if hd == ("sub",) and f.eq(ar[0], f.spec("self.vdim_mapping")):
                    keys.append(ar[1])
            if not keys:
                continue
            member = f.spec("k in self.vdim_mapping", env={"k": keys[0]})
            is_inv = _strip_rule(f, t) is not None
            want_dir = inv if is_inv else f.ev._not(inv)
            ok = reached_implies(f, st, member) and reached_implies(f, st, want_dir) and reached_implies(f, st, has) and \
                implies_reached(f, f.ev._bool("and", [has, member, want_dir]), st)
            chk.ob(f"field.Field._fftn::mapping-entry-iff-mapped-{'inverse' if is_inv else 'forward'}", ok, "C11.D3",
                   f"`{f.src(st)[:70]}` under {f.show(pt)[:160]}; expected: labelled field, the component has a mapping entry, "
                   f"{'inverse' if is_inv else 'forward'} transform", f.f, st)


def d4_inverse_mesh(chk, repo):
    chk.rule("C11.D4", "inverse mesh: explicit shapes are validated (length, leading entries, last entry // 2 + 1 == n[-1], type); the "
                       "default real shape is (n[-1] - 1) * 2; the result is centred at the origin")
    v = FV(repo, "mesh.Mesh.ifftn")
    loops = [s for s in v.stmts() if isinstance(s, ast.For)]
    lp = loops[0]
    for cond, exc, key in (("len(shape) != self.region.ndim", ("ValueError",), "length"),
                           ("not np.array_equal(shape[:-1], self.n[:-1])", ("ValueError",), "leading-entries"),
                           ("shape[-1] // 2 + 1 != self.n[-1]", ("ValueError",), "last-entry")):
        ok = geom._guard_in_function(v, cond)
        chk.ob(f"mesh.Mesh.ifftn::shape-{key}-checked", ok, "C11.D4", f"an explicit shape must be refused when `{cond}`", v.f)
    chk.ob("mesh.Mesh.ifftn::shape-type-checked", any(n == "TypeError" for r, n in v.raises()), "C11.D4",
           "shapes that are not int/tuple/list/array must raise TypeError", v.f)
    okd = False
    for st in v.stmts():
        if isinstance(st, ast.If) and v.eq(v.ev.term(st.test, at=st), v.spec("rfft and self.n[-1] != 1")):
            for s2 in st.body:
                if isinstance(s2, ast.Assign) and isinstance(s2.targets[0], ast.Subscript):
                    idx = v.ev._index(s2.targets[0].slice, v.cfg.node(s2), None)
                    okd = is_const(v.ctx, idx, -1) and v.eq(v.term(s2.value, at=s2), v.spec("(self.n[-1] - 1) * 2"))
    chk.ob("mesh.Mesh.ifftn::default-real-shape", okd, "C11.D4",
           "without a shape the real inverse assumes an even last axis: shape[-1] = (n[-1] - 1) * 2", v.f)
    okt = False
    for call, st in v.calls():
        if isinstance(call.func, ast.Attribute) and call.func.attr == "translate":
            c = decode_call(v.ctx, v.term(call, at=st))
            if c and c[0] == "Mesh.translate":
                from ..terms import r_neg
                recv = c[1][0]
                cen = v.ctx.mk(("prop", "center"), (recv,))
                okt = "inplace" in c[2] and is_const(v.ctx, c[2]["inplace"], True) and len(c[1]) == 2
                # argument is -mesh.region.center of the same mesh
                okt = okt and v.eq(c[1][1], v.spec("-m.region.center", env={"m": recv}))
    from ..lib import cond_equiv, cond_implies, path_term
    for st in v.stmts():
        if isinstance(st, ast.Assign) and isinstance(st.targets[0], ast.Name) and v.eq(v.term(st.value, at=st), v.spec("self.n.copy()")):
            chk.ob("mesh.Mesh.ifftn::default-shape-iff-none-given", reached_iff(v, st, v.spec("shape is None")), "C11.D4",
                   f"the default shape is chosen under {v.show(path_term(v, st))}; expected: no shape was given", v.f, st)
    rs = v.ctor_sites(REGION)
    if rs:
        tf = rs[0].args.get("tolerance_factor")
        chk.ob("mesh.Mesh.ifftn::tolerance", tf is not None and v.eq(tf, v.spec("self.region.tolerance_factor")), "C11.D4",
               "the tolerance factor of the k-space region must be carried back", v.f, rs[0].call)
    chk.ob("mesh.Mesh.ifftn::centred-at-origin", okt, "C11.D4",
           "the real-space mesh must be translated by minus its centre (in place) before it is returned", v.f)


def d5_metadata(chk, repo):
    chk.rule("C11.D5", "the transformed field lives on the given k-mesh with the same nvdim and unit, the renamed labels and mapping")
    f = FV(repo, "field.Field._fftn")
    for r, x in cm.returned_news(f):
        ok = is_sym(f.ctx, x.get("mesh", f.ctx.const(0)), "param:mesh") and is_sym(f.ctx, x.get("value", f.ctx.const(0)), "param:array") and \
            x.get("nvdim") is not None and f.eq(x["nvdim"], f.spec("self.nvdim")) and x.get("unit") is not None and \
            f.eq(x["unit"], f.spec("self.unit"))
        chk.ob("field.Field._fftn::construction", ok, "C11.D5",
               f"mesh={f.show(x.get('mesh'))}, value={f.show(x.get('value'))}, nvdim={f.show(x.get('nvdim'))}, unit={f.show(x.get('unit'))}",
               f.f, r)
