"""Geometry rules shared by C12 (quarter turns) and C13 (invariants, in-place == copy)."""
import ast

from ..model import AnalysisError
from ..lib import (FV, alias_term, decode_new, decode_call, phi_members, is_sym, is_const, is_str, strip_stores,
                   stores_of)
from ..lib import (reached_iff, reached_implies, implies_reached, reached_iff_any, path_term, cond_equiv, cond_implies,  # noqa: F401
                   else_stmts, branch_stmts, context_literals)
from ..cfg import always_raises, walk_stmts
from ..terms import r_add, r_sub, r_mul, r_neg
from . import common as cm
from .common import FIELD, MESH, REGION

INPLACE = ["region.Region.scale", "region.Region.translate", "region.Region.rotate90",
           "mesh.Mesh.scale", "mesh.Mesh.translate", "mesh.Mesh.rotate90", "field.Field.rotate90"]

# who may write which state slot (confirmed by reading; one reason per entry)
WRITERS = {
    ("region.Region", "_pmin"): {"region.Region.__init__": "constructor, min of the two corners",
                                 "region.Region.scale": "in-place scaling",
                                 "region.Region.translate": "in-place translation",
                                 "region.Region.rotate90": "in-place quarter turn"},
    ("region.Region", "_pmax"): {"region.Region.__init__": "constructor, max of the two corners",
                                 "region.Region.scale": "in-place scaling",
                                 "region.Region.translate": "in-place translation",
                                 "region.Region.rotate90": "in-place quarter turn"},
    ("region.Region", "_dims"): {"region.Region.dims.setter": "validated setter"},
    ("region.Region", "_units"): {"region.Region.units.setter": "validated setter"},
    ("region.Region", "_tolerance_factor"): {"region.Region.tolerance_factor.setter": "validated setter"},
    ("mesh.Mesh", "_region"): {"mesh.Mesh.__init__": "constructor (type-checked region or Region(p1,p2))"},
    ("mesh.Mesh", "_n"): {"mesh.Mesh.__init__": "constructor (validated n, or rounded edges/cell)",
                          "mesh.Mesh.rotate90": "in-place quarter turn swaps two entries"},
    ("mesh.Mesh", "_bc"): {"mesh.Mesh.bc.setter": "validated setter"},
    ("mesh.Mesh", "_subregions"): {"mesh.Mesh.subregions.setter": "validated setter"},
    ("field.Field", "_mesh"): {"field.Field.__init__": "constructor after the isinstance test"},
    ("field.Field", "_nvdim"): {"field.Field.__init__": "constructor after type and positivity tests"},
    ("field.Field", "_unit"): {"field.Field.unit.setter": "validated setter"},
    ("field.Field", "_array"): {"field.Field.array.setter": "conversion through _as_array"},
    ("field.Field", "_valid"): {"field.Field.valid.setter": "conversion through _as_array(dtype=bool)"},
    ("field.Field", "_vdims"): {"field.Field.__init__": "initialised to None before the setter runs",
                                "field.Field.vdims.setter": "validated setter"},
    ("field.Field", "_vdim_mapping"): {"field.Field.__init__": "initialised to {} before the setter runs",
                                       "field.Field.vdim_mapping.setter": "validated setter"},
    ("field.Field", "dtype"): {"field.Field.__init__": "constructor"},
}
SLOT_OWNER = {}
for (c_, s_) in WRITERS:
    SLOT_OWNER.setdefault(s_, []).append(c_)


def inplace_if(v):
    """the `if inplace:` statement that separates the two forms: the one whose in-place arm returns self (an earlier
    `if inplace:` block that only validates - a dry run of the copying form - is not it)"""
    cands = [st for st in v.stmts() if isinstance(st, ast.If) and isinstance(st.test, ast.Name) and st.test.id == "inplace"]
    for st in cands:
        if any(isinstance(x, ast.Return) and isinstance(x.value, ast.Name) and x.value.id == "self" for x in walk_stmts(st.body)):
            return st
    if cands:
        return cands[0]
    raise AnalysisError(f"{v.f.qual}: no top-level `if inplace:` statement")


def must_pass_on_inplace_path(v, via_stmt, target_stmt):
    """every path entry -> target_stmt that takes the true edge at every `if inplace` test passes via_stmt"""
    cfg = v.cfg
    cut = set()
    for st in v.stmts():
        if isinstance(st, ast.If) and isinstance(st.test, ast.Name) and st.test.id == "inplace":
            n = cfg.node(st)
            for s_ in cfg.succ[n.id]:
                if cfg.edge_label.get((n.id, s_)) == "F":
                    cut.add((n.id, s_))
    via, tgt = cfg.node(via_stmt).id, cfg.node(target_stmt).id
    seen = set()
    stack = [cfg.entry.id]
    while stack:
        x = stack.pop()
        if x in seen or x == via:
            continue
        seen.add(x)
        for s_ in cfg.succ[x]:
            if (x, s_) not in cut:
                stack.append(s_)
    return tgt not in seen


from ..lib import else_stmts  # noqa: E402


def _is_iter_element(v, t):
    """t is an element, or a component X[k] of an element, of something that is iterated over (`for k, r in d.items()`)"""
    h = v.ctx.head_of(t)
    if h and h[0] == "iter":
        return True
    if h and h[0] == "sub":
        b, i = v.ctx.args_of(t)
        hb = v.ctx.head_of(b)
        return bool(hb and hb[0] == "iter") and i.const() is not None
    return False


def bind_args(repo, callee_qual, c):
    """decode_call result of a method call -> {param: Rat} (receiver excluded)"""
    name, pos, kw = c
    fi = repo.func(callee_qual)
    a = fi.node.args
    pn = [x.arg for x in a.posonlyargs + a.args][1:]
    out = {}
    for i, p in enumerate(pos[1:]):
        if i < len(pn):
            out[pn[i]] = p
    out.update(kw)
    return out


# ============================================================================ exhaustiveness
def table_exhaustive(chk, pid):
    repo = chk.repo
    found = []
    for q, fi in repo.funcs.items():
        if fi.cls and fi.cls.qual in (REGION, MESH, FIELD) and "inplace" in fi.params and fi.parent is None:
            found.append(q)
    extra = sorted(set(found) - set(INPLACE))
    missing = sorted(set(INPLACE) - set(found))
    if missing:
        raise AnalysisError(f"in-place methods vanished: {missing}")
    chk.ob("inplace-method-table::exhaustive", not extra, f"{pid}.table",
           f"methods with an `inplace` parameter not covered by the sibling rules: {extra}", repo.func(INPLACE[0]))


# ============================================================================ write-site audit (C13 D1)
def write_site_audit(chk, pid):
    repo = chk.repo
    chk.rule(f"{pid}.D1", "write-site audit: every store to a state slot of Region/Mesh/Field happens in the slot's owner "
                          "set (constructor, its validated setter, or a named in-place method) and the value stored "
                          "re-establishes the slot's invariant")
    n = 0
    for fi in sorted(repo.funcs.values(), key=lambda f: f.qual):
        for st in walk_stmts(fi.node.body):
            tg = []
            if isinstance(st, ast.Assign):
                for t in st.targets:
                    tg += _flat(t)
            elif isinstance(st, (ast.AugAssign, ast.AnnAssign)):
                tg = [st.target]
            for t in tg:
                if not isinstance(t, ast.Attribute) or t.attr not in SLOT_OWNER:
                    continue
                owners = SLOT_OWNER[t.attr]
                # which class?  receiver `self` -> the function's class (or its repo base), otherwise any owner
                cls = None
                if isinstance(t.value, ast.Name) and t.value.id == "self" and fi.cls is not None:
                    for c_ in owners:
                        if c_ in repo.mro(fi.cls.qual) or fi.cls.qual in repo.mro(c_):
                            cls = c_
                    if cls is None:
                        continue      # an unrelated class with a same-named attribute
                else:
                    cls = owners[0]
                n += 1
                allowed = WRITERS[(cls, t.attr)]
                base = fi.qual if fi.parent is None else fi.qual
                chk.ob(f"{fi.qual}::store::{t.attr}::owner", base in allowed, f"{pid}.D1",
                       f"`{ast.unparse(st)[:90]}` writes {cls.split('.')[-1]}.{t.attr} outside its owner set "
                       f"{sorted(allowed)}", fi, st)
    chk.require(n >= 26, f"{pid}.D1: only {n} slot stores found (floor 26)")
    # slots declared == slots in the table
    for cq in (REGION, MESH, FIELD):
        ci = repo.cls(cq)
        slots = set(ci.slots or [])
        table = {s for (c_, s) in WRITERS if c_ == cq}
        chk.ob(f"{cq}::slots-covered", slots == table, f"{pid}.D1",
               f"__slots__ {sorted(slots)} differ from the audited slot table {sorted(table)}", repo.func(f"{cq}.__init__"))
    _region_store_values(chk, pid)
    _mesh_store_values(chk, pid)
    _field_store_values(chk, pid)


def _flat(t):
    if isinstance(t, (ast.Tuple, ast.List)):
        o = []
        for e in t.elts:
            o += _flat(e)
        return o
    if isinstance(t, ast.Starred):
        return _flat(t.value)
    return [t]


def _minmax_pair(v, lo, hi):
    """lo == np.minimum(A,B) and hi == np.maximum(A,B) over the same operands -> (A, B) or None"""
    cl, ch = decode_call(v.ctx, lo), decode_call(v.ctx, hi)
    if not (cl and ch and cl[0] == "np.minimum" and ch[0] == "np.maximum" and len(cl[1]) == 2 and len(ch[1]) == 2):
        return None
    a, b = cl[1]
    c, d = ch[1]
    if (v.eq(a, c) and v.eq(b, d)) or (v.eq(a, d) and v.eq(b, c)):
        return a, b
    return None


def _store_terms(v, stmts=None):
    out = {}
    for st, attr, val, kind in v.self_stores():
        if stmts is not None and st not in stmts:
            continue
        out[attr] = (st, v.term(val, at=st))
    return out


def _region_store_values(chk, pid):
    repo = chk.repo
    # constructor
    v = FV(repo, "region.Region.__init__")
    st = _store_terms(v)
    chk.require("_pmin" in st and "_pmax" in st, "Region.__init__: corner stores vanished")
    pair = _minmax_pair(v, st["_pmin"][1], st["_pmax"][1])
    ok = pair is not None
    if ok:
        ms = [sorted(v.show(m) for m in phi_members(v.ctx, x)) for x in pair]
        ok = any("param:p1" in " ".join(m) for m in ms) and any("param:p2" in " ".join(m) for m in ms)
    chk.ob("region.Region.__init__::store::corners", ok, f"{pid}.D1",
           f"_pmin={v.show(st['_pmin'][1])[:120]}, _pmax={v.show(st['_pmax'][1])[:120]}: must be np.minimum/np.maximum "
           "of the two given corners", v.f, st["_pmin"][0])
    ok, det = v.guard("not np.all(self.edges)", exc=("ValueError",))
    chk.ob("region.Region.__init__::zero-edge-refused", ok, f"{pid}.D1", det, v.f)
    ok, det = v.guard("len(p1) != len(p2)", exc=("ValueError",), before=st["_pmin"][0])
    chk.ob("region.Region.__init__::corner-lengths", ok, f"{pid}.D1", det, v.f)
    # pmin/pmax keyword path (used when loading)
    ok, det = v.guard("not all(np.asarray(pmin) < np.asarray(pmax))", exc=("ValueError",), before=st["_pmin"][0],
                      env=None)
    # this guard sits under `if 'pmin' in kwargs and 'pmax' in kwargs`: dominance over the store is not expected
    # setters
    for name in ("dims", "units"):
        w = FV(repo, f"region.Region.{name}.setter")
        stw = _store_terms(w)
        chk.require(f"_{name}" in stw, f"Region.{name} setter store vanished")
        s_, t_ = stw[f"_{name}"]
        c = decode_call(w.ctx, t_)
        # tuple(...) is erased by the term normaliser: the stored value is the validated parameter
        ok1, d1 = w.guard(f"len({name}) != self.ndim", exc=("ValueError",), before=s_)
        # guards sit inside `elif isinstance(..)` so check them relative to their branch instead
        ok_len = _guard_in_function(w, f"len({name}) != self.ndim")
        chk.ob(f"region.Region.{name}.setter::length-test", ok_len, f"{pid}.D1",
               f"the {name} setter must reject sequences whose length differs from ndim", w.f, s_)
        if name == "dims":
            ok_u = _guard_in_function(w, "len(dims) != len(set(dims))")
            chk.ob("region.Region.dims.setter::unique-test", ok_u, f"{pid}.D1",
                   "the dims setter must reject duplicate names", w.f, s_)
    # in-place stores
    for q in ("region.Region.scale", "region.Region.translate", "region.Region.rotate90"):
        region_inplace_corners(chk, pid, q)


def _if_stmt(v, testexpr):
    for st in v.stmts():
        if isinstance(st, (ast.If, ast.While)) and st.test is testexpr:
            return st
    raise AnalysisError("internal: test expression without statement")


def _guard_in_function(w, cond_text):
    for r, name in w.raises():
        par = w.cfg.parent.get(id(r))
        if par and isinstance(par[0], ast.If) and par[1] == "body" and always_raises(par[0].body):
            try:
                if w.eq(w.ev.term(par[0].test, at=par[0]), w.spec(cond_text, at=par[0])):
                    return True
            except AnalysisError:
                pass
    return False


def region_inplace_corners(chk, pid, q):
    """in-place corner stores == what the constructor would store for the copy form"""
    repo = chk.repo
    v = FV(repo, q)
    ifst = inplace_if(v)
    body_stmts = list(walk_stmts(ifst.body))
    st = _store_terms(v, body_stmts)
    chk.require("_pmin" in st and "_pmax" in st, f"{q}: in-place corner stores vanished")
    news = cm.returned_news(v, cls=REGION, via=[else_stmts(v, ifst)[0]] if else_stmts(v, ifst) else None)
    chk.require(news, f"{q}: copy form does not construct a Region")
    r, a = news[0]
    A, B = a.get("p1"), a.get("p2")
    P, Q = st["_pmin"][1], st["_pmax"][1]
    pair = _minmax_pair(v, P, Q)
    ok = False
    how = ""
    if pair is not None:
        ok = (v.eq(pair[0], A) and v.eq(pair[1], B)) or (v.eq(pair[0], B) and v.eq(pair[1], A))
        how = "min/max pair"
    else:
        # common translation of the ordered old pair keeps the order
        dv1 = r_sub(P, v.spec("self.pmin"))
        dv2 = r_sub(Q, v.spec("self.pmax"))
        if v.eq(dv1, dv2) and v.eq(P, A) and v.eq(Q, B) and not v.ctx.mentions(dv1, v.spec("self.pmin")) \
                and not v.ctx.mentions(dv1, v.spec("self.pmax")):
            ok = True
            how = "common translation"
    chk.ob(f"{q}::inplace::corners", ok, f"{pid}.D1",
           f"in place stores _pmin={v.show(P)[:110]} / _pmax={v.show(Q)[:110]} while the copy form hands p1,p2 to the "
           "constructor, which orders them (np.minimum/np.maximum) and refuses zero edges: the in-place stores must be the "
           "ordered pair of the same two corners (or a common translation of the old ordered pair)"
           + (f" [{how}]" if how else ""), v.f, st["_pmin"][0])
    return v, ifst, st, a


def _mesh_store_values(chk, pid):
    repo = chk.repo
    v = FV(repo, "mesh.Mesh.__init__")
    stores = [(s, a_, val) for s, a_, val, k in v.self_stores() if a_ == "_n"]
    chk.require(len(stores) == 2, f"Mesh.__init__: expected two stores to _n, found {len(stores)}")
    for s, a_, val in stores:
        t = v.term(val, at=s)
        c = decode_call(v.ctx, t)
        from_cell = any(pol and v.ctx.mentions(v.ev.term(ct, at=_if_stmt(v, ct)), v.spec("cell is not None"))
                        for ct, pol in v.cfg.path_condition(s))
        if from_cell and not (c and c[0] == "astype" and is_sym(v.ctx, c[1][1], "int") and
                              (decode_call(v.ctx, c[1][0]) or ("",))[0] == ".round"):
            chk.ob("mesh.Mesh.__init__::store::_n::from-cell", False, f"{pid}.D1",
                   f"_n={v.show(t)[:120]}; expected round(edges/cell) converted to int (truncation loses a cell when edges/cell "
                   "is just below a whole number)", v.f, s)
            continue
        if c and c[0] == "astype" and is_sym(v.ctx, c[1][1], "int"):
            inner = c[1][0]
            ci = decode_call(v.ctx, inner)
            if ci and ci[0] == ".round":
                want = v.spec("np.divide(self.region.edges, cell)", at=s)
                ok = v.eq(ci[1][0], want)
                chk.ob("mesh.Mesh.__init__::store::_n::from-cell", ok, f"{pid}.D1",
                       f"_n={v.show(t)[:120]}; expected round(edges/cell) as int", v.f, s)
                for cond, key in (("not all((i > 0 for i in cell))", "cell-positive"),
                                  ("df.Region(p1=self.region.pmin, p2=self.region.pmin + cell) not in self.region", "cell-fits"),
                                  ("np.logical_and(np.greater(np.remainder(self.region.edges, cell), np.min(cell) * 1e-3), "
                                   "np.less(np.remainder(self.region.edges, cell), np.subtract(cell, np.min(cell) * 1e-3))).any()",
                                   "divisible")):
                    okg, det = v.guard(cond, exc=("ValueError",), before=s)
                    chk.ob(f"mesh.Mesh.__init__::store::_n::from-cell::{key}", okg, f"{pid}.D1", det, v.f, s)
            else:
                okg1, d1 = v.guard("not all((isinstance(i, Integral) for i in n))", exc=("TypeError",), before=s)
                okg2, d2 = v.guard("not all((i > 0 for i in n))", exc=("ValueError",), before=s)
                okg3, d3 = v.guard("len(n) != self.region.ndim", exc=("ValueError",), before=s)
                chk.ob("mesh.Mesh.__init__::store::_n::from-n::integral", okg1, f"{pid}.D1", d1, v.f, s)
                chk.ob("mesh.Mesh.__init__::store::_n::from-n::positive", okg2, f"{pid}.D1", d2, v.f, s)
                chk.ob("mesh.Mesh.__init__::store::_n::from-n::length", okg3, f"{pid}.D1", d3, v.f, s)
                chk.ob("mesh.Mesh.__init__::store::_n::from-n::value", is_sym(v.ctx, strip_stores(v.ctx, inner)[-1], "param:n")
                       or any("param:n" in v.show(m) for m in phi_members(v.ctx, inner)), f"{pid}.D1",
                       f"_n={v.show(t)[:100]} must be the validated n", v.f, s)
        else:
            chk.ob("mesh.Mesh.__init__::store::_n::int-array", False, f"{pid}.D1",
                   f"_n={v.show(t)[:120]} is not converted to an integer array", v.f, s)
    st_r = [(s, val) for s, a_, val, k in v.self_stores() if a_ == "_region"]
    chk.require(len(st_r) == 2, "Mesh.__init__: expected two stores to _region")
    for s, val in st_r:
        t = v.term(val, at=s)
        d = decode_new(repo, v.ctx, t)
        if d:
            ok = d[0] == REGION
            chk.ob("mesh.Mesh.__init__::store::_region::constructed", ok, f"{pid}.D1", f"_region={v.show(t)[:80]}", v.f, s)
        else:
            okg, det = v.guard("not isinstance(region, df.Region)", exc=("TypeError",), before=s)
            chk.ob("mesh.Mesh.__init__::store::_region::type-checked", okg and is_sym(v.ctx, t, "param:region"),
                   f"{pid}.D1", det, v.f, s)


def _field_store_values(chk, pid):
    repo = chk.repo
    v = FV(repo, "field.Field.__init__")
    st = _store_terms(v)
    ok, det = v.guard("not isinstance(mesh, df.Mesh)", exc=("TypeError",), before=st["_mesh"][0])
    chk.ob("field.Field.__init__::store::_mesh::type-checked", ok and is_sym(v.ctx, st["_mesh"][1], "param:mesh"),
           f"{pid}.D1", det, v.f, st["_mesh"][0])
    ok1, d1 = v.guard("not isinstance(nvdim, numbers.Integral)", exc=("TypeError",), before=st["_nvdim"][0])
    ok2, d2 = v.guard("nvdim < 1", exc=("ValueError",), before=st["_nvdim"][0])
    chk.ob("field.Field.__init__::store::_nvdim::integral", ok1, f"{pid}.D1", d1, v.f, st["_nvdim"][0])
    chk.ob("field.Field.__init__::store::_nvdim::positive", ok2, f"{pid}.D1", d2, v.f, st["_nvdim"][0])
    # array setter: shape (*n, nvdim) through _as_array with the field's own mesh and nvdim
    w = FV(repo, "field.Field.array.setter")
    sw = _store_terms(w)
    t = sw["_array"][1]
    c = decode_call(w.ctx, t)
    ok = bool(c and c[0] == "Field._as_array" and w.eq(c[1][2] if len(c[1]) > 2 else c[2].get("mesh"), w.spec("self.mesh"))
              and w.eq(c[1][3] if len(c[1]) > 3 else c[2].get("nvdim"), w.spec("self.nvdim")))
    chk.ob("field.Field.array.setter::store::_array::converted", ok, f"{pid}.D1",
           f"_array={w.show(t)[:120]}; expected self._as_array(val, self.mesh, self.nvdim, ...)", w.f, sw["_array"][0])
    # every array/constant/function overload returns shape (*mesh.n, nvdim)
    ov = cm.as_array_overloads(repo)
    for key in ("Complex|Iterable", "Callable", "dict"):
        x = FV(repo, ov[key].qual)
        for i, r in enumerate(x.returns()):
            tt = x.ev.term(r.value, at=r)
            oks = all(_shape_is_n_nvdim(x, b) for b in strip_stores(x.ctx, tt))
            chk.ob(f"{ov[key].qual}::return#{i}::shape", oks, f"{pid}.D1",
                   f"returns {x.show(tt)[:140]}: every result must have shape (*mesh.n, nvdim)", x.f, r)


def _shape_is_n_nvdim(x, t):
    c = decode_call(x.ctx, t)
    if not c:
        return False
    name, pos, kw = c
    want = x.spec("(*mesh.n, nvdim)")
    if name in ("np.full", "np.empty", "np.zeros", "np.ones") and pos:
        return x.eq(pos[0], want)
    if name == "np.expand_dims" and pos:
        # guarded by nvdim == 1 and shape(val) == mesh.n in the source: (n) -> (*n, 1)
        ax = kw.get("axis") if "axis" in kw else (pos[1] if len(pos) > 1 else None)
        return ax is not None and is_const(x.ctx, ax, -1)
    return False


# ============================================================================ affine maps (C13 D2)
def affine_maps(chk, pid):
    repo = chk.repo
    chk.rule(f"{pid}.D2", "each step realises its documented map in exact arithmetic: translation adds the vector to both "
                          "corners; scaling maps both corners x -> R + s(x-R) with R the centre by default, keeps n")
    v = FV(repo, "region.Region.translate")
    ifst = inplace_if(v)
    for r, a in cm.returned_news(v, cls=REGION):
        ok = v.eq(a.get("p1"), v.spec("self.pmin + vector", at=r)) and v.eq(a.get("p2"), v.spec("self.pmax + vector", at=r))
        chk.ob("region.Region.translate::copy::map", ok, f"{pid}.D2",
               f"p1={v.show(a.get('p1'))}, p2={v.show(a.get('p2'))}; expected pmin+vector, pmax+vector", v.f, r)
    st = _store_terms(v, list(walk_stmts(ifst.body)))
    ok = v.eq(st["_pmin"][1], v.spec("self.pmin + vector", at=st["_pmin"][0])) and \
        v.eq(st["_pmax"][1], v.spec("self.pmax + vector", at=st["_pmax"][0]))
    chk.ob("region.Region.translate::inplace::map", ok, f"{pid}.D2",
           f"_pmin={v.show(st['_pmin'][1])}, _pmax={v.show(st['_pmax'][1])}", v.f, st["_pmin"][0])
    v = FV(repo, "region.Region.scale")
    ifst = inplace_if(v)
    for r, a in cm.returned_news(v, cls=REGION):
        lo = v.spec("reference_point + factor * (self.pmin - reference_point)", at=r)
        hi = v.spec("reference_point + factor * (self.pmax - reference_point)", at=r)
        ok = (v.eq(a.get("p1"), lo) and v.eq(a.get("p2"), hi)) or (v.eq(a.get("p1"), hi) and v.eq(a.get("p2"), lo))
        chk.ob("region.Region.scale::copy::map", ok, f"{pid}.D2",
               f"p1={v.show(a.get('p1'))[:150]}, p2={v.show(a.get('p2'))[:150]}; expected R + factor*(corner - R) for both corners",
               v.f, r)
        # default reference is the centre
        refs = phi_members(v.ctx, v.ev.term(ast.Name(id="reference_point", ctx=ast.Load()), at=r))
        okc = any(v.eq(m, v.spec("self.center")) for m in refs)
        chk.ob("region.Region.scale::default-reference", okc, f"{pid}.D2",
               f"reference values reaching the map: {[v.show(m) for m in refs]}; the default must be the centre", v.f, r)
    for q, kw in (("mesh.Mesh.scale", "n"), ("mesh.Mesh.translate", "n")):
        w = FV(repo, q)
        for r, a in cm.returned_news(w, cls=MESH):
            chk.ob(f"{q}::copy::keeps-n-bc", w.eq(a.get("n"), w.spec("self.n")) and w.eq(a.get("bc"), w.spec("self.bc")),
                   f"{pid}.D2", f"n={w.show(a.get('n'))}, bc={w.show(a.get('bc'))}; must be self.n, self.bc", w.f, r)


# ============================================================================ siblings (C13 D3/D4, C12 D5)
def region_siblings(chk, pid, only=None):
    repo = chk.repo
    chk.rule(f"{pid}.siblings", "in-place == copy: every constructor argument of the copy form that is not the unchanged "
                                "self.<attr> is matched by an in-place store (or in-place call on the owned object) with "
                                "the same term; the in-place form returns self, the copy form writes nothing on self")
    for q in ("region.Region.scale", "region.Region.translate", "region.Region.rotate90"):
        if only and q not in only:
            continue
        v = FV(repo, q)
        ifst = inplace_if(v)
        body_stmts = list(walk_stmts(ifst.body))
        st = _store_terms(v, body_stmts)
        news = cm.returned_news(v, cls=REGION, via=[else_stmts(v, ifst)[0]] if else_stmts(v, ifst) else None)
        chk.require(news, f"{q}: copy form vanished")
        r, a = news[0]
        # units / dims / tolerance
        for kw, slot in (("units", "_units"), ("dims", "_dims"), ("tolerance_factor", "_tolerance_factor")):
            got = a.get(kw)
            unchanged = got is not None and v.eq(got, v.spec(f"self.{kw}"))
            if got is None:
                chk.ob(f"{q}::copy::kw={kw}", False, f"{pid}.siblings",
                       f"the copy form does not pass {kw}: the new region falls back to the default", v.f, r)
                continue
            if unchanged:
                chk.ob(f"{q}::copy::kw={kw}", True, f"{pid}.siblings", "kept", v.f, r)
                continue
            # changed in the copy form -> must be stored in place
            stored = st.get(slot) or st.get(kw)
            ok = stored is not None and v.eq(stored[1], got)
            chk.ob(f"{q}::inplace::{slot}", ok, f"{pid}.siblings",
                   f"the copy form passes {kw}={v.show(got)[:140]} (not the unchanged self.{kw}) but the in-place form "
                   f"stores {v.show(stored[1]) if stored else 'nothing'} to {slot}", v.f, ifst)
        _returns_and_purity(chk, pid, v, ifst, REGION)


def _returns_and_purity(chk, pid, v, ifst, cls):
    q = v.f.qual
    # in-place branch returns self
    last = ifst.body[-1]
    ok = isinstance(last, ast.Return) and last.value is not None and is_sym(v.ctx, v.ev.term(last.value, at=last), "self")
    chk.ob(f"{q}::inplace::returns-self", ok, f"{pid}.siblings", "the in-place form must return the object itself", v.f, last)
    # copy branch returns a new object
    news = cm.returned_news(v, cls=cls, via=[else_stmts(v, ifst)[0]] if else_stmts(v, ifst) else None)
    rets = [s for s in walk_stmts(else_stmts(v, ifst)) if isinstance(s, ast.Return)]
    chk.ob(f"{q}::copy::returns-new", bool(news) and bool(rets), f"{pid}.siblings",
           "the copying form must return a newly constructed object", v.f, rets[0] if rets else ifst)
    # no self store outside the in-place branch
    inside = set(id(s) for s in walk_stmts(ifst.body))
    bad = [s for s, a_, val, k in v.self_stores() if id(s) not in inside]
    chk.ob(f"{q}::copy::no-self-store", not bad, f"{pid}.siblings",
           "; ".join(f"`{v.src(s)}` runs in the copying form too" for s in bad[:3]) or "ok", v.f, bad[0] if bad else None)


def _inplace_flag(v, c):
    """classify the inplace= argument of a decoded call: 'flag' | 'true' | 'false'"""
    t = c[2].get("inplace")
    if t is None:
        return "false"
    if is_sym(v.ctx, t, "param:inplace"):
        return "flag"
    if is_const(v.ctx, t, True):
        return "true"
    if is_const(v.ctx, t, False):
        return "false"
    return "other"


def mesh_siblings(chk, pid, only=None):
    repo = chk.repo
    for q, op in (("mesh.Mesh.scale", "scale"), ("mesh.Mesh.translate", "translate"), ("mesh.Mesh.rotate90", "rotate90")):
        if only and q not in only:
            continue
        v = FV(repo, q)
        ifst = inplace_if(v)
        inside = set(id(s) for s in walk_stmts(ifst.body))
        copyside = set(id(s) for s in walk_stmts(else_stmts(v, ifst)))
        region_calls, sub_calls = [], []
        for call, st in v.calls():
            t = v.term(call, at=st)
            c = decode_call(v.ctx, t)
            if not c or c[0] != f"Region.{op}":
                continue
            recv = c[1][0]
            ctxt = "inplace" if id(st) in inside else ("copy" if id(st) in copyside else "both")
            rec = {"call": call, "st": st, "c": c, "args": bind_args(repo, f"region.Region.{op}", c),
                   "flag": _inplace_flag(v, c), "where": ctxt}
            if v.eq(recv, v.spec("self.region")):
                region_calls.append(rec)
            else:
                h = v.ctx.head_of(recv)
                if v.ctx.type_of(recv) == REGION and h and (h[0] == "iter" or _is_iter_element(v, recv)):
                    sub_calls.append(rec)
        chk.require(region_calls and sub_calls, f"{q}: calls transforming the region / the subregions not found")
        # each form must transform both
        for form in ("inplace", "copy"):
            def applies(rec):
                if rec["where"] == "both":
                    return rec["flag"] == "flag"
                if rec["where"] != form:
                    return False
                return rec["flag"] in (("true", "flag") if form == "inplace" else ("false", "flag"))
            rc = [x for x in region_calls if applies(x)]
            sc = [x for x in sub_calls if applies(x)]
            chk.ob(f"{q}::{form}::region-transformed", len(rc) == 1, f"{pid}.siblings",
                   f"{len(rc)} call(s) apply {op} to self.region in the {form} form with the right inplace flag", v.f, ifst)
            chk.ob(f"{q}::{form}::subregions-transformed", len(sc) == 1, f"{pid}.siblings",
                   f"{len(sc)} call(s) apply {op} to the subregions in the {form} form with the right inplace flag", v.f, ifst)
            # a call with the wrong flag in this form (a copying call whose result is discarded is a dry run: it validates)
            wrong = [x for x in region_calls + sub_calls if x["where"] == form and
                     x["flag"] == ("false" if form == "inplace" else "true") and not (form == "inplace" and _is_dry_run(x))]
            chk.ob(f"{q}::{form}::flags", not wrong, f"{pid}.siblings",
                   "; ".join(f"`{v.src(x['call'])}` has the wrong inplace flag for the {form} form" for x in wrong) or "ok",
                   v.f, wrong[0]["call"] if wrong else None)
            if len(rc) == 1 and len(sc) == 1:
                _same_step(chk, pid, v, q, form, rc[0], sc[0])
        _mesh_refusal_before_mutation(chk, pid, v, q, op, region_calls, sub_calls)
        # subregions ctor arg is built from those calls, region arg likewise
        for r, a in cm.returned_news(v, cls=MESH, via=[else_stmts(v, ifst)[0]] if else_stmts(v, ifst) else None):
            rg = a.get("region")
            ok = rg is not None and any(v.eq(rg, v.term(x["call"], at=x["st"])) for x in region_calls)
            chk.ob(f"{q}::copy::kw=region", ok, f"{pid}.siblings", f"region={v.show(rg)[:120]}", v.f, r)
            sg = a.get("subregions")
            hs = v.ctx.head_of(sg) if sg is not None else None
            ok = False
            if hs and hs[0] == "dictcomp":
                item = v.ctx.args_of(sg)[0]
                key, val = v.ctx.args_of(item)
                ok = any(v.eq(val, v.term(x["call"], at=x["st"])) for x in sub_calls) and \
                    _is_iter_element(v, key)
            chk.ob(f"{q}::copy::kw=subregions", ok, f"{pid}.siblings",
                   f"subregions={v.show(sg)[:160]}: must map every name to its transformed subregion", v.f, r)
            chk.ob(f"{q}::copy::kw=bc", a.get("bc") is not None and v.eq(a["bc"], v.spec("self.bc")), f"{pid}.siblings",
                   f"bc={v.show(a.get('bc'))}: boundary conditions must be kept", v.f, r)
        _returns_and_purity(chk, pid, v, ifst, MESH)
        if op == "rotate90":
            _mesh_rotate_n(chk, pid, v, ifst)


def _is_dry_run(rec):
    """a copying-form call whose value is discarded: made only for the refusals of the copying form"""
    return rec["flag"] == "false" and isinstance(rec["st"], ast.Expr) and rec["st"].value is rec["call"]


def _mesh_refusal_before_mutation(chk, pid, v, q, op, region_calls, sub_calls):
    """Region.<op> refuses a degenerate result in its in-place arm as well (after its argument checks).  A mesh step in place
    transforms the region and then every subregion: a subregion that refuses would leave the mesh half transformed, so the
    refusals of all subregions must have been provoked (copying form, value discarded) before the first in-place call."""
    repo = chk.repo
    w = FV(repo, f"region.Region.{op}")
    wif = inplace_if(w)
    callee_refuses = any(isinstance(x, ast.Raise) for x in walk_stmts(wif.body))
    inpl = [x for x in region_calls + sub_calls if x["flag"] in ("true", "flag") and x["where"] in ("inplace", "both")]
    chk.require(inpl, f"{q}: no in-place call found")
    first = None
    for x in inpl:
        if first is None or v.cfg.reachable(v.cfg.node(x["st"]), v.cfg.node(first["st"])):
            first = x
    sub_inpl = [x for x in sub_calls if x["flag"] in ("true", "flag") and x["where"] in ("inplace", "both")]
    dry = [x for x in sub_calls if _is_dry_run(x)]
    ok = not callee_refuses
    det = "Region.%s never refuses in place" % op
    if callee_refuses:
        det = "no dry run of the subregions (copying form, value discarded) precedes the first in-place call"
        for d in dry:
            hdr = d["st"]
            for p_, f_ in v.cfg.enclosing(d["st"]):
                if isinstance(p_, ast.For):
                    hdr = p_
            same = sub_inpl and all(v.eq(d["args"].get(k), sub_inpl[0]["args"].get(k)) for k in
                                    set(d["args"]) | set(sub_inpl[0]["args"]) if k != "inplace"
                                    if d["args"].get(k) is not None or sub_inpl[0]["args"].get(k) is not None)
            if not same:
                det = "the dry run does not apply the step of the in-place call (different arguments)"
                continue
            if must_pass_on_inplace_path(v, hdr, first["st"]):
                ok = True
                det = "ok"
            else:
                det = "the dry run does not precede the first in-place call on every in-place path"
    chk.ob(f"{q}::inplace::refusal-before-mutation", ok, f"{pid}.atomic",
           f"{det}: a subregion that loses its extent (far-away reference point / vector) is refused by Region.{op}; when that "
           "happens after the region was transformed in place the mesh is left half transformed", v.f, first["st"])


def _same_step(chk, pid, v, q, form, rc, sc):
    """region call and subregion call apply the identical step"""
    ra, sa = rc["args"], sc["args"]
    names = sorted((set(ra) | set(sa)) - {"inplace", "reference_point"})
    diff = [n for n in names if n not in ra or n not in sa or not v.eq(ra[n], sa[n])]
    chk.ob(f"{q}::{form}::same-step", not diff, f"{pid}.siblings",
           f"region and subregions are transformed with different arguments for {diff}", v.f, sc["call"])
    if "reference_point" in ra or "reference_point" in sa or q.endswith(("scale", "rotate90")):
        rr = ra.get("reference_point")
        sr = sa.get("reference_point")
        okr = rr is not None and is_sym(v.ctx, rr, "param:reference_point")
        if rr is not None and not okr:
            # ... or the point already resolved the way Region.<op> resolves None itself: the region's own centre
            leaves_r = _ref_leaves(v, rr)
            centre_r = v.spec("self.region.center")
            okr = leaves_r is not None and all(v.eq(x, centre_r) or is_sym(v.ctx, x, "param:reference_point") for x in leaves_r) \
                and any(is_sym(v.ctx, x, "param:reference_point") for x in leaves_r) and _none_replaced(v, rr, rc["st"])
        chk.ob(f"{q}::{form}::region-reference", okr, f"{pid}.siblings",
               f"region is transformed about {v.show(rr)}; expected the caller's reference_point (or the region's own centre "
               "exactly when none is given)", v.f, rc["call"])
        oks = False
        det = v.show(sr)
        if sr is not None:
            leaves = _ref_leaves(v, sr)
            centre = v.spec("self.region.center")
            oks = leaves is not None and any(v.eq(x, centre) for x in leaves) and \
                all(v.eq(x, centre) or is_sym(v.ctx, x, "param:reference_point") for x in leaves) and \
                _none_replaced(v, sr, sc["st"])
        chk.ob(f"{q}::{form}::subregion-reference", oks, f"{pid}.siblings",
               f"subregions are transformed about {det[:140]}; they must use the mesh's reference: the caller's point, or "
               "the MESH region's centre when none is given (never None, which would mean each subregion's own centre)",
               v.f, sc["call"])


def _ref_leaves(v, t):
    h = v.ctx.head_of(t)
    if h and h[0] == "phi":
        out = []
        for x in v.ctx.args_of(t):
            l_ = _ref_leaves(v, x)
            if l_ is None:
                return None
            out += l_
        return out
    if h and h[0] == "ifexp":
        c, a, b = v.ctx.args_of(t)
        la, lb = _ref_leaves(v, a), _ref_leaves(v, b)
        if la is None or lb is None:
            return None
        return la + lb
    if h and h[0] == "const" and h[1] is None:
        return None
    return [t]


def _none_replaced(v, t, at_stmt):
    """the value is the centre exactly when the caller's reference_point is None"""
    h = v.ctx.head_of(t)
    isnone = v.spec("reference_point is None")
    if h and h[0] == "ifexp":
        c, a, b = v.ctx.args_of(t)
        if v.eq(c, isnone):
            return v.eq(a, v.spec("self.region.center")) and is_sym(v.ctx, b, "param:reference_point")
        if v.eq(c, v.spec("reference_point is not None")):
            return v.eq(b, v.spec("self.region.center")) and is_sym(v.ctx, a, "param:reference_point")
        return False
    if h and h[0] == "phi":
        # an assignment `reference_point = centre` guarded by `if reference_point is None`
        for st in v.stmts():
            if isinstance(st, ast.Assign) and len(st.targets) == 1 and isinstance(st.targets[0], ast.Name) \
                    and st.targets[0].id == "reference_point":
                par = v.cfg.parent.get(id(st))
                if par and isinstance(par[0], ast.If) and par[1] == "body":
                    ct = v.ev.term(par[0].test, at=par[0])
                    if v.eq(ct, v.spec("reference_point is None", at=par[0])) and \
                            v.eq(v.term(st.value, at=st), v.spec("self.region.center")):
                        return v.cfg.dominates(v.cfg.node(par[0]), v.cfg.node(at_stmt))
        return False
    return False


def _mesh_rotate_n(chk, pid, v, ifst):
    q = v.f.qual
    for r, a in cm.returned_news(v, cls=MESH):
        n = a.get("n")
        mem = phi_members(v.ctx, n) if n is not None else []
        base = v.spec("self.n")
        swapped = None
        for m in mem:
            if not v.eq(m, base):
                swapped = m
        ok = any(v.eq(m, base) for m in mem) and swapped is not None
        det = v.show(n)[:200] if n is not None else "<absent>"
        if ok:
            sts = stores_of(v.ctx, swapped)
            i1 = v.spec("self.region._dim2index(ax1)")
            i2 = v.spec("self.region._dim2index(ax2)")
            want = {(1, 2), (2, 1)}
            got = set()
            for idx, val in sts:
                hv = v.ctx.head_of(val)
                if hv and hv[0] == "sub":
                    b, j = v.ctx.args_of(val)
                    src_ok = v.eq(b, base)
                    for (ti, tn), (tj, tm) in (((i1, 1), (i2, 2)), ((i2, 2), (i1, 1))):
                        if v.eq(idx, ti) and v.eq(j, tj) and src_ok:
                            got.add((tn, tm))
            ok = got == want and len(sts) == 2 and strip_stores(v.ctx, swapped) and v.eq(strip_stores(v.ctx, swapped)[0], base)
        chk.ob(f"{q}::n-swap", ok, f"{pid}.siblings",
               f"n={det}: the two entries at the rotated axes must be exchanged (from the old values) and nothing else", v.f, r)
        # the swap happens exactly for odd k
        cond_ok = False
        for st in v.stmts():
            if isinstance(st, ast.If):
                ct = v.ev.term(st.test, at=st)
                if v.eq(ct, v.spec("k % 2 == 1", at=st)) or v.eq(ct, v.spec("k % 2 != 0", at=st)):
                    for s2 in walk_stmts(st.body):
                        if isinstance(s2, ast.Assign) and any(isinstance(t_, ast.Subscript) for t_ in _flat(s2.targets[0])):
                            cond_ok = True
        chk.ob(f"{q}::n-swap-iff-odd", cond_ok, f"{pid}.siblings", "cell counts swap exactly when k is odd (k % 2 == 1)", v.f, r)
        st = _store_terms(v, list(walk_stmts(ifst.body)))
        okn = False
        if "_n" in st:
            c = decode_call(v.ctx, st["_n"][1])
            okn = bool(c and c[0] == "astype" and is_sym(v.ctx, c[1][1], "int") and n is not None and v.eq(c[1][0], n))
        chk.ob(f"{q}::inplace::_n", okn, f"{pid}.siblings",
               f"in place stores _n={v.show(st['_n'][1])[:120] if '_n' in st else 'nothing'}; the copy form passes n={det[:80]}",
               v.f, st["_n"][0] if "_n" in st else ifst)


def field_rotate_siblings(chk, pid):
    repo = chk.repo
    v = FV(repo, "field.Field.rotate90")
    ifst = inplace_if(v)
    news = cm.returned_news(v, cls=FIELD)
    chk.require(news, "Field.rotate90: copy form vanished")
    r, a = news[0]
    # mesh: the copy form lives on the rotated copy of the mesh, the in-place form rotates the mesh in place;
    # both with the caller's arguments
    inside = set(id(s_) for s_ in walk_stmts(ifst.body))
    mcalls = []
    for call, st in v.calls():
        c = decode_call(v.ctx, v.term(call, at=st))
        if c and c[0] == "Mesh.rotate90" and v.eq(c[1][0], v.spec("self.mesh")):
            mcalls.append((call, st, c, _inplace_flag(v, c), id(st) in inside))
    chk.require(mcalls, "Field.rotate90: the mesh rotation call vanished")
    for call, st, c, flag, ins in mcalls:
        margs = bind_args(repo, "mesh.Mesh.rotate90", c)
        ok = all(is_sym(v.ctx, margs.get(n_, v.ctx.const(0)), f"param:{n_}") for n_ in ("ax1", "ax2", "k", "reference_point"))
        chk.ob(f"field.Field.rotate90::mesh-step@{'inplace' if ins else 'common'}", ok, f"{pid}.siblings",
               f"`{v.src(call)}`: the mesh must be rotated with the caller's ax1, ax2, k and reference_point", v.f, call)
    copy_calls = [m for m in mcalls if (not m[4] and m[3] in ("false", "flag"))]
    inpl_calls = [m for m in mcalls if (m[4] and m[3] in ("true", "flag")) or (not m[4] and m[3] == "flag")]
    chk.ob("field.Field.rotate90::inplace::mesh-rotated", len(inpl_calls) == 1, f"{pid}.siblings",
           f"{len(inpl_calls)} in-place mesh rotation(s) in the in-place form (exactly one expected)", v.f, ifst)
    wrong = [m for m in mcalls if (m[4] and m[3] == "false") or (not m[4] and m[3] == "true")]
    chk.ob("field.Field.rotate90::mesh-flags", not wrong, f"{pid}.siblings",
           "; ".join(f"`{v.src(m[0])}` has the wrong inplace flag for its position" for m in wrong) or "ok", v.f,
           wrong[0][0] if wrong else None)
    okm = a.get("mesh") is not None and any(v.eq(a["mesh"], v.term(m[0], at=m[1])) for m in copy_calls)
    chk.ob("field.Field.rotate90::copy::kw=mesh", okm, f"{pid}.siblings",
           f"mesh={v.show(a.get('mesh'))[:120]}: the copy must live on the rotated copy of the mesh", v.f, r)
    # value / valid in place == copy
    upd = [c_ for c_, s_ in v.calls() if isinstance(c_.func, ast.Attribute) and c_.func.attr == "update_field_values"
           and id(v.owner(c_)) in set(id(s) for s in walk_stmts(ifst.body))]
    okv = bool(upd) and a.get("value") is not None and v.eq(v.term(upd[0].args[0], at=v.owner(upd[0])), a["value"])
    chk.ob("field.Field.rotate90::inplace::value", okv, f"{pid}.siblings",
           "the in-place form must store (update_field_values) the same rotated array the copy form passes as value", v.f, ifst)
    stv = [(s, val) for s, a_, val, k in v.self_stores() if a_ == "valid" and id(s) in set(id(x) for x in walk_stmts(ifst.body))]
    okd = bool(stv) and a.get("valid") is not None and v.eq(v.term(stv[0][1], at=stv[0][0]), a["valid"])
    chk.ob("field.Field.rotate90::inplace::valid", okd, f"{pid}.siblings",
           "the in-place form must assign the same rotated validity the copy form passes as valid", v.f, ifst)
    for kw in ("nvdim", "vdims", "dtype", "unit", "vdim_mapping"):
        got = a.get(kw)
        chk.ob(f"field.Field.rotate90::copy::kw={kw}", got is not None and v.eq(got, v.spec(f"self.{kw}")), f"{pid}.siblings",
               f"{kw}={v.show(got)}: must be kept from self", v.f, r)
    _returns_and_purity(chk, pid, v, ifst, FIELD)


# ============================================================================ raise-after-effect (C13 D5 / C12 D6)
def raise_after_effect(chk, pid):
    repo = chk.repo
    chk.rule(f"{pid}.atomic", "a rejected step leaves the object unmodified: in every transforming method no explicit raise "
                              "is reachable after the first statement that may modify self (store, setter, or in-place call "
                              "on an owned object)")
    for q in INPLACE:
        v = FV(repo, q)
        ifst = inplace_if(v)
        muts = []
        for s, a_, val, k in v.self_stores():
            muts.append(s)
        for call, st in v.calls():
            t = v.term(call, at=st)
            c = decode_call(v.ctx, t)
            if c and c[0].split(".")[-1] in ("scale", "translate", "rotate90") and _inplace_flag(v, c) in ("true", "flag"):
                muts.append(st)
            if isinstance(call.func, ast.Attribute) and call.func.attr == "update_field_values":
                muts.append(st)
        chk.require(muts, f"{q}: no mutating statement found")
        bad = []
        for r, name in v.raises():
            for m in muts:
                if v.cfg.reachable(v.cfg.node(m), v.cfg.node(r)):
                    bad.append((m, r, name))
        chk.ob(f"{q}::no-raise-after-mutation", not bad, f"{pid}.atomic",
               "; ".join(f"`raise {n}` at line {r.lineno} can follow the mutation `{v.src(m)[:70]}` (line {m.lineno})"
                         for m, r, n in bad[:2]) or "all refusals precede every mutation", v.f, bad[0][1] if bad else None)
    # a degenerate result of an in-place step must be refused before the stores (the copying form is refused by the constructor)
    for q in ("region.Region.scale", "region.Region.translate", "region.Region.rotate90"):
        inplace_degenerate_refused(chk, pid, q)
    inplace_operand_domain(chk, pid)


def inplace_operand_domain(chk, pid):
    """The copying forms hand the new corners to the constructor, which refuses anything but real numbers; the in-place forms
    store them directly.  The numeric type tests on the arguments of the in-place transformations must therefore be at least
    as strict as the constructor's: a test that lets a complex number through makes the in-place form accept (and store
    complex corners) what the copying form rejects."""
    repo = chk.repo
    ctor = FV(repo, "region.Region.__init__")
    ctor_real = [n for n in ast.walk(ctor.f.node) if isinstance(n, ast.Call) and isinstance(n.func, ast.Name)
                 and n.func.id == "isinstance" and len(n.args) == 2 and ast.unparse(n.args[1]) == "numbers.Real"]
    chk.require(len(ctor_real) >= 2, "Region.__init__: the corner points are no longer tested to be real numbers")
    n_tests = 0
    for q in ("region.Region.scale", "region.Region.translate"):
        v = FV(repo, q)
        tests = [n for n in ast.walk(v.f.node) if isinstance(n, ast.Call) and isinstance(n.func, ast.Name)
                 and n.func.id == "isinstance" and len(n.args) == 2 and "numbers." in ast.unparse(n.args[1])]
        chk.require(tests, f"{q}: no numeric type test on the arguments left")
        n_tests += len(tests)
        wide = [n for n in tests if any(t_ in ast.unparse(n.args[1]) for t_ in ("numbers.Number", "numbers.Complex"))]
        chk.ob(f"{q}::inplace::operand-domain", not wide, f"{pid}.atomic",
               "the arguments are tested to be real numbers, as the constructor tests the corners" if not wide else
               f"`{v.src(wide[0])}` lets complex numbers through: the copying form is refused by the constructor (corners must be "
               "numbers.Real), the in-place form stores complex corners", v.f, wide[0] if wide else None)


def inplace_degenerate_refused(chk, pid, q):
    repo = chk.repo
    v = FV(repo, q)
    ifst = inplace_if(v)
    st = _store_terms(v, list(walk_stmts(ifst.body)))
    chk.require("_pmin" in st and "_pmax" in st, f"{q}: in-place corner stores vanished")
    first = st["_pmin"][0] if v.cfg.reachable(v.cfg.node(st["_pmin"][0]), v.cfg.node(st["_pmax"][0])) else st["_pmax"][0]
    # the two values whose difference is the new extent: the operands of the min/max pair, or the stored corners themselves
    cs = decode_call(v.ctx, st["_pmin"][1])
    if cs and len(cs[1]) == 2 and isinstance(st["_pmin"][0].value, ast.Call):
        a_, b_ = cs[1]
        operands = list(st["_pmin"][0].value.args[:2])
    else:
        a_, b_ = st["_pmin"][1], st["_pmax"][1]
        operands = [st["_pmin"][0].value, st["_pmax"][0].value]
    ok = False
    for r, name in v.raises():
        par = v.cfg.parent.get(id(r))
        if not (par and isinstance(par[0], ast.If) and always_raises(par[0].body if par[1] == "body" else par[0].orelse)):
            continue
        if not v._must_leave_by(v.cfg.node(par[0]), "F" if par[1] == "body" else "T", v.cfg.node(first)):
            continue
        ct = v.ev.term(par[0].test, at=par[0])
        cond = ct if par[1] == "body" else v.ev._not(ct)
        exact = False
        for text in ("not np.all(b - a)", "not np.all(a - b)", "np.any(b - a == 0)", "np.any(a - b == 0)", "np.any(a == b)",
                     "not all(b - a)", "not np.all(b != a)", "np.any(np.isclose(a, b))", "not np.all(a < b)", "np.any(a >= b)",
                     "not np.all(b > a)", "np.any(b <= a)"):
            if v.eq(cond, v.spec(text, env={"a": a_, "b": b_})):
                exact = True
        # ... and it must look at the COMPUTED corners, not at an algebraically equal re-derivation (edges * factor,
        # self.edges, factor == 0): with a far-away reference point or translation vector rounding can absorb the extent,
        # the copying form (constructor) then refuses what such a test lets through
        if exact:
            exact = _reads_operands(v, par[0].test, operands, first)
        ok = ok or exact
    chk.ob(f"{q}::inplace::degenerate-refused", ok, f"{pid}.atomic",
           "a step whose result has a zero edge is refused by the copying form (constructor); the in-place form needs the same "
           "refusal, evaluated on the corners it has just computed and is about to store (not on a re-derivation such as "
           "edges * factor or self.edges, which rounding can make disagree with them)", v.f, first)


def _reads_stored_operands(v, test, store_stmt):
    val = store_stmt.value
    if not (isinstance(val, ast.Call) and len(val.args) == 2):
        return False
    return _reads_operands(v, test, list(val.args), store_stmt)


def _reads_operands(v, test, operands, store_stmt):
    """does the test combine exactly the two operand expressions that are stored (or min/max-ed and stored)?
    (same expressions syntactically; for local names additionally the same value at both program points)"""
    if len(operands) != 2:
        return False
    want = sorted(ast.dump(a) for a in operands)
    for n in ast.walk(test):
        pair = None
        if isinstance(n, ast.BinOp) and isinstance(n.op, ast.Sub):
            pair = [n.left, n.right]
        elif isinstance(n, ast.Compare) and len(n.ops) == 1:
            pair = [n.left, n.comparators[0]]
        elif isinstance(n, ast.Call) and len(n.args) >= 2 and ast.unparse(n.func).endswith(("isclose", "equal", "subtract")):
            pair = list(n.args[:2])
        if pair and sorted(ast.dump(x) for x in pair) == want:
            same = True
            for x in pair:
                if isinstance(x, ast.Name):
                    same = same and v.eq(v.ev.term(x, at=v.owner(test) if hasattr(v, "owner") and v.owner(test) is not None else store_stmt),
                                         v.ev.term(x, at=store_stmt))
            if same:
                return True
    return False


# ============================================================================ object-state purity of the whole API
MUTATORS = {
    "region.Region.__init__", "region.Region.scale", "region.Region.translate", "region.Region.rotate90",
    "region.Region.dims.setter", "region.Region.units.setter", "region.Region.tolerance_factor.setter",
    "mesh.Mesh.__init__", "mesh.Mesh.scale", "mesh.Mesh.translate", "mesh.Mesh.rotate90", "mesh.Mesh.bc.setter",
    "mesh.Mesh.subregions.setter", "io._MeshIO.load_subregions",
    "field.Field.__init__", "field.Field.update_field_values", "field.Field.rotate90", "field.Field.unit.setter",
    "field.Field.vdims.setter", "field.Field.array.setter", "field.Field.norm.setter", "field.Field.valid.setter",
    "field.Field.vdim_mapping.setter",
}


def api_purity(chk, pid):
    """every method of Region / Mesh / Field that is not a constructor, setter or in-place transformer leaves the
    object (and everything reachable from it) unwritten; in-place transformers write only inside `if inplace:`"""
    from .c08 import write_effects
    repo = chk.repo
    chk.rule(f"{pid}.purity", "only constructors, setters, update_field_values, load_subregions and the in-place branch of the "
                              "transforming methods may write memory reachable from self; every other method of Region, Mesh "
                              "and Field (copying forms included) leaves the object untouched")
    al, _ = cm.make_alias(repo)
    n = 0
    for cq in (REGION, MESH, FIELD):
        for q in repo.mro(cq):
            ci = repo.classes[q]
            fs = list(ci.methods.values()) + list(ci.getters.values()) + list(ci.setters.values()) + list(ci.dispatch.values())
            for fi in sorted(fs, key=lambda f: f.qual):
                if fi.qual.startswith("field.Field._diff_old"):
                    continue
                v = FV(repo, fi.qual, param_types={"other": FIELD, "vector": FIELD})
                effs = write_effects(v, al)
                hits = [(st, what, sorted(x for x in roots if x.startswith("self")))
                        for st, what, roots in effs if any(x.startswith("self") for x in roots)]
                n += 1
                if fi.qual in MUTATORS:
                    if fi.qual in INPLACE:
                        ifst = inplace_if(v)
                        inside = set(id(s_) for s_ in walk_stmts(ifst.body))
                        outside = [(st, what, r_) for st, what, r_ in hits if id(st) not in inside]
                        chk.ob(f"{fi.qual}::writes-only-in-place", not outside, f"{pid}.purity",
                               "; ".join(f"`{v.src(st)[:60]}` ({what}) writes {r_} outside the in-place branch" for st, what, r_ in outside[:2])
                               or "self is written only inside `if inplace:`", fi, outside[0][0] if outside else None, nontrivial=False)
                    continue
                chk.ob(f"{fi.qual}::leaves-object-untouched", not hits, f"{pid}.purity",
                       "; ".join(f"`{v.src(st)[:70]}` ({what}) writes {r_}" for st, what, r_ in hits[:2]) or "no write reaches self",
                       fi, hits[0][0] if hits else None, nontrivial=False)
    chk.require(n >= 120, f"{pid}.purity: only {n} methods analysed")


# ============================================================================ refusal tables (argument validation)
TE, VE = ("TypeError",), ("ValueError",)
SEQ = "(tuple, list, np.ndarray)"
REFUSALS = {
    "region.Region.__init__": [
        ("ordered-keyword-corners", VE, "'pmin' in kwargs and 'pmax' in kwargs and "
                                        "not all(np.asarray(kwargs['pmin']) < np.asarray(kwargs['pmax']))"),
        ("corner-types", TE, f"not isinstance(p1, {SEQ}) or not isinstance(p2, {SEQ})"),
        ("corner-lengths", VE, "len(p1) != len(p2)"),
        ("non-empty", VE, "len(p1) == 0"),
        ("real-first-corner", TE, "not all(isinstance(i, numbers.Real) for i in p1)"),
        ("real-second-corner", TE, "not all(isinstance(i, numbers.Real) for i in p2)"),
        ("non-degenerate", VE, "not np.all(self.edges)"),
    ],
    "region.Region.scale": [
        ("factor-type", TE, f"not isinstance(factor, numbers.Real) and not isinstance(factor, {SEQ})"),
        ("factor-length", VE, f"not isinstance(factor, numbers.Real) and isinstance(factor, {SEQ}) and len(factor) != self.ndim"),
        ("factor-elements", TE, f"not isinstance(factor, numbers.Real) and isinstance(factor, {SEQ}) and len(factor) == self.ndim "
                                "and any(not isinstance(e, numbers.Real) for e in factor)"),
        ("reference-type", TE, "reference_point is not None and not isinstance(reference_point, numbers.Real) and "
                               f"not isinstance(reference_point, {SEQ})"),
        ("reference-length", VE, "len(reference_point) != self.ndim"),
        ("reference-elements", VE, "len(reference_point) == self.ndim and "
                                   "any(not isinstance(i, numbers.Real) for i in reference_point)"),
    ],
    "region.Region.translate": [
        ("vector-type", TE, f"not isinstance(vector, {SEQ})"),
        ("vector-length", VE, f"isinstance(vector, {SEQ}) and len(vector) != self.ndim"),
        ("vector-elements", TE, "any(not isinstance(e, numbers.Real) for e in vector)"),
    ],
    "region.Region.rotate90": [
        ("distinct-axes", VE, "ax1 == ax2"),
        ("integer-k", TE, "not isinstance(k, int)"),
        ("reference-type", TE, f"reference_point is not None and not isinstance(reference_point, {SEQ})"),
        ("reference-length", VE, f"reference_point is not None and isinstance(reference_point, {SEQ}) and "
                                 "len(reference_point) != self.ndim"),
    ],
    # a number is never a sequence, so each refusal may be written with or without excluding the other kind first
    "mesh.Mesh.index2point": [
        ("sequence-of-integers", TE, (f"isinstance(D, {SEQ}) and any(not isinstance(i, numbers.Integral) for i in D)",
                                      f"not isinstance(D, numbers.Integral) and isinstance(D, {SEQ}) and "
                                      "any(not isinstance(i, numbers.Integral) for i in D)")),
        ("integer-or-sequence", TE, f"not isinstance(D, numbers.Integral) and not isinstance(D, {SEQ})"),
    ],
    "mesh.Mesh.point2index": [
        ("sequence-of-reals", TE, (f"isinstance(D, {SEQ}) and any(not isinstance(i, numbers.Real) for i in D)",
                                   f"not isinstance(D, numbers.Real) and isinstance(D, {SEQ}) and "
                                   "any(not isinstance(i, numbers.Real) for i in D)")),
        ("real-or-sequence", TE, f"not isinstance(D, numbers.Real) and not isinstance(D, {SEQ})"),
    ],
    "region.Region.dims.setter": [
        ("length", VE, "D is not None and isinstance(D, (tuple, list, np.ndarray, str)) and len(dims) != self.ndim"),
        ("strings", TE, "D is not None and isinstance(D, (tuple, list, np.ndarray, str)) and "
                        "not all(isinstance(dim, str) for dim in dims)"),
        ("unique", VE, "D is not None and isinstance(D, (tuple, list, np.ndarray, str)) and len(dims) != len(set(dims))"),
        ("type", TE, "D is not None and not isinstance(D, (tuple, list, np.ndarray, str))"),
    ],
    "region.Region.units.setter": [
        ("length", VE, "D is not None and isinstance(D, (tuple, list, np.ndarray, str)) and len(units) != self.ndim"),
        ("strings", TE, "D is not None and isinstance(D, (tuple, list, np.ndarray, str)) and "
                        "not all(isinstance(unit, str) for unit in units)"),
        ("type", TE, "D is not None and not isinstance(D, (tuple, list, np.ndarray, str))"),
    ],
}


def refusal_table(chk, pid, quals=None):
    """Every documented refusal is present: for each table row there is a `raise` of the listed type that is reached exactly
    under the row's condition (path condition of the raise statement, decided as a predicate over type tests, None tests
    and comparisons).  `E` stands for the element of the enclosing loop, `D` for the setter's argument as passed."""
    from ..lib import reached_iff_any, path_term, context_literals
    repo = chk.repo
    chk.rule(f"{pid}.refusals", "malformed arguments are refused: each documented refusal (type, length, element type, ordering, "
                                "degeneracy) is a raise reached exactly under its condition; an inverted or weakened test "
                                "either lets malformed input through or refuses well-formed input")
    for q, rows in REFUSALS.items():
        if quals is not None and q not in quals:
            continue
        v = FV(repo, q)
        raises = v.raises()
        allp = v.f.node.args.posonlyargs + v.f.node.args.args
        pname = allp[1].arg if len(allp) > 1 else None
        for key, exc, texts in rows:
            hit = None
            seen = []
            texts = (texts,) if isinstance(texts, str) else texts
            text = texts[0]
            cands = [(r_, n_) for r_, n_ in raises if n_ in exc]
            for text_ in texts:
                # group the raises by the loop element they see (E) - a row speaks about one loop at most
                groups = {}
                for r, name in cands:
                    env = {}
                    for p_, f_ in v.cfg.enclosing(r):
                        if isinstance(p_, ast.For) and "E" not in env:
                            env["E"] = v.ctx.mk(("iter", ()), (v.term(p_.iter, at=p_),))
                    if pname:
                        env["D"] = v.ev._sym(f"param:{pname}")
                    if " E" in text_ and "E" not in env:
                        continue
                    par = v.cfg.parent.get(id(r))
                    at = par[0] if par else r
                    try:
                        want = v.spec(text_, at=at, env=env)
                    except AnalysisError:
                        continue
                    groups.setdefault(want.key(), (want, []))[1].append(r)
                for want, rs in groups.values():
                    got = reached_iff_any(v, rs, want)
                    if got:
                        hit = got[0]
                        break
                if hit is not None:
                    break
            if hit is None:
                seen = [v.show(v.ev._bool("and", [path_term(v, r)] + context_literals(v, r)))[:120] for r, n_ in cands]
            chk.ob(f"{q}::refuses::{key}", hit is not None, f"{pid}.refusals",
                   f"no `raise {'/'.join(exc)}` reached exactly under `{text}`; raises of that type are reached under: {seen[:4]}",
                   v.f, hit)


DEFAULTS = {
    # function: [(key, value expression, condition under which that value replaces the argument)]
    "region.Region.__init__": [
        ("scalar-first-corner", "[p1]", "isinstance(p1, numbers.Real)"),
        ("scalar-second-corner", "[p2]", "isinstance(p2, numbers.Real)"),
    ],
    "region.Region.scale": [
        ("reference-defaults-to-centre", "self.center", "D2 is None"),
        ("scalar-reference", "[D2]", "D2 is not None and isinstance(D2, numbers.Real)"),
    ],
    "region.Region.translate": [
        ("scalar-vector", "[D]", "isinstance(D, numbers.Real)"),
    ],
    "mesh.Mesh.index2point": [
        ("scalar-index", "[D]", ("isinstance(D, numbers.Integral)", "not isinstance(D, (tuple, list, np.ndarray)) and isinstance(D, numbers.Integral)")),
    ],
    "mesh.Mesh.point2index": [
        ("scalar-point", "[D]", ("isinstance(D, numbers.Real)", "not isinstance(D, (tuple, list, np.ndarray)) and isinstance(D, numbers.Real)")),
    ],
    "region.Region.rotate90": [
        ("reference-defaults-to-centre", "self.center", "reference_point is None"),
    ],
    "region.Region.units.setter": [
        ("default-metres", "['m'] * self.ndim", "D is None"),
        ("single-unit", "[D]", "D is not None and isinstance(D, (tuple, list, np.ndarray, str)) and isinstance(D, str)"),
    ],
    "region.Region.dims.setter": [
        ("single-name", "[D]", "D is not None and isinstance(D, (tuple, list, np.ndarray, str)) and isinstance(D, str)"),
    ],
}


def defaults_table(chk, pid, quals=None):
    """argument normalisation: each replacement value is assigned exactly under its condition"""
    from ..lib import cond_equiv, cond_implies, path_term, reached_iff, reached_implies
    repo = chk.repo
    chk.rule(f"{pid}.defaults", "argument normalisation happens exactly when documented: None selects the default (centre, metres), "
                                "a bare number/string is wrapped for one-dimensional use; an inverted test replaces a given "
                                "argument by the default or hands None to the arithmetic")
    for q, rows in DEFAULTS.items():
        if quals is not None and q not in quals:
            continue
        v = FV(repo, q)
        args = [a.arg for a in v.f.node.args.posonlyargs + v.f.node.args.args]
        env0 = {}
        if len(args) > 1:
            env0["D"] = v.ev._sym(f"param:{args[1]}")
        if len(args) > 2:
            env0["D2"] = v.ev._sym(f"param:{args[2]}")
        for key, valtext, condtext in rows:
            hits = []
            for st in v.stmts():
                if isinstance(st, ast.Assign) and len(st.targets) == 1 and isinstance(st.targets[0], ast.Name):
                    try:
                        want_v = v.spec(valtext, at=st, env=env0)
                    except AnalysisError:
                        continue
                    if v.eq(v.term(st.value, at=st), want_v):
                        hits.append(st)
            if not hits:
                chk.ob(f"{q}::normalises::{key}", False, f"{pid}.defaults", f"no assignment of `{valtext}` found", v.f)
                continue
            alts = (condtext,) if isinstance(condtext, str) else condtext
            for st in hits:
                pt = path_term(v, st)
                ok_ = any(reached_iff(v, st, v.spec(ct_, at=st, env=env0)) for ct_ in alts)
                chk.ob(f"{q}::normalises::{key}", ok_, f"{pid}.defaults",
                       f"`{v.src(st)}` happens under {v.show(pt)[:160]}; expected exactly under `{alts[0]}`", v.f, st)
    if quals is not None:
        return
    # default dimension names have as many entries as the region has dimensions
    v = FV(repo, "region.Region.dims.setter")
    nd = v.spec("self.ndim")
    for st in v.stmts():
        if isinstance(st, ast.Assign) and len(st.targets) == 1 and isinstance(st.targets[0], ast.Name):
            t = v.term(st.value, at=st)
            pt = path_term(v, st)
            if v.eq(t, v.spec("['x', 'y', 'z'][: self.ndim]")):
                ok = reached_implies(v, st, v.spec("self.ndim <= 3"), [nd]) and reached_implies(v, st, v.spec("D is None", env={"D": v.ev._sym("param:dims")}), [nd])
                chk.ob("region.Region.dims.setter::default-names-cover-all-dimensions", ok, f"{pid}.defaults",
                       f"x, y, z (cut to ndim) are used under {v.show(pt)}: only regions with at most three dimensions get as "
                       "many names as dimensions this way", v.f, st)
    # keyword corners feed the ordinary path in the right roles
    v = FV(repo, "region.Region.__init__")
    st = _store_terms(v)
    for slot, fn, mine, other in (("_pmin", "np.minimum", "pmin", "pmax"), ("_pmax", "np.maximum", "pmin", "pmax")):
        c = decode_call(v.ctx, st[slot][1])
        ok = False
        if c and c[0] == fn and len(c[1]) == 2:
            m1 = phi_members(v.ctx, c[1][0])
            m2 = phi_members(v.ctx, c[1][1])
            k1, k2 = v.spec("kwargs['pmin']"), v.spec("kwargs['pmax']")
            has1 = {(any(v.eq(m, k1) for m in mm), any(v.eq(m, k2) for m in mm)) for mm in (m1,)}
            has2 = {(any(v.eq(m, k1) for m in mm), any(v.eq(m, k2) for m in mm)) for mm in (m2,)}
            ok = (has1 == {(True, False)} and has2 == {(False, True)}) or (has1 == {(False, True)} and has2 == {(True, False)})
        chk.ob(f"region.Region.__init__::store::{slot}::keyword-corners", ok, f"{pid}.defaults",
               f"{slot} = {v.show(st[slot][1])[:200]}: the keyword corners pmin and pmax must each reach one operand", v.f, st[slot][0])
