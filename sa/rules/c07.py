"""C07 - sub-selection, padding and resampling keep every value at its physical position."""
import ast

from ..model import AnalysisError
from ..lib import (FV, decode_new, decode_call, phi_members, is_sym, is_const, is_str, strip_stores, stores_of,
                   find_assign, find_assigns, simple_assigns, local_term)
from ..lib import (reached_iff, reached_implies, implies_reached, reached_iff_any, path_term, cond_equiv, cond_implies,  # noqa: F401
                   else_stmts, branch_stmts, context_literals)
from ..cfg import always_raises, walk_stmts
from . import common as cm
from . import geom
from .common import FIELD, MESH, REGION
from .c01 import each, _single_return

FLOOR = 40
CLOSURE_ROOTS = ['field.Field._as_array[Field]', 'field.Field.to_xarray']   # nearest-cell resampling is the Field overload of _as_array (a look-up of the new cell centres in the exported coordinates of the source)
ANCHORS = [
    'mesh.Mesh._sel_convert_input',
    'mesh.Mesh.sel',
    'mesh.Mesh.__getitem__',
    'mesh.Mesh.region2slices',
    'mesh.Mesh.pad',
    'field.Field.sel',
    'field.Field.__getitem__',
    'field.Field.pad',
    'field.Field.resample',
    'util.util.assemble_index',
]   # functions whose code the property is anchored in (mutation analysis, evidence)


def assigns_to(v, name, stmts=None):
    out = []
    for s in (stmts if stmts is not None else v.stmts()):
        if isinstance(s, ast.Assign) and len(s.targets) == 1 and isinstance(s.targets[0], ast.Name) and s.targets[0].id == name:
            out.append(s)
    return out


def appends(v, stmts):
    """[(list name, stmt, arg term)] for `x.append(arg)` statements"""
    out = []
    for s in stmts:
        if isinstance(s, ast.Expr) and isinstance(s.value, ast.Call) and isinstance(s.value.func, ast.Attribute) and \
                s.value.func.attr == "append" and isinstance(s.value.func.value, ast.Name) and len(s.value.args) == 1:
            out.append((s.value.func.value.id, s, v.term(s.value.args[0], at=s)))
    return out

AUTOMUT_TRIAGE = [
    (r"_sel_convert_input$|Mesh\.sel$", r"dtype, type\(.*attribute (pmin->pmax|pmax->pmin)", "equivalent: both corners of a region have one dtype"),
    (r"_sel_convert_input$", r"test_point = self\.region\.pmin\.copy.*pmin->pmax", "equivalent: only the selected coordinate of the test "
     "point is looked at, and pmax lies in the (closed) region like pmin"),
    (r"Field\.resample$", r"drop keyword dtype=", "equivalent: the validity setter converts the resampled 0/1 values back to bool"),
]


def run(chk):
    repo = chk.repo
    cm.schema(chk, repo, "C07")
    d1_sel_convert(chk, repo)
    d2_field_sel(chk, repo)
    d3_mesh_sel(chk, repo)
    d4_pad(chk, repo)
    d5_getitem(chk, repo)
    d6_region2slices(chk, repo)
    d7_resample(chk, repo)
    corner_copies_hold_floats(chk, repo, "C07", ["mesh.Mesh._sel_convert_input", "mesh.Mesh.sel", "mesh.Mesh.pad"])
    d8_wiring_and_dispatch(chk, repo)
    chk.rule("C07.validity", "validity is selected / sliced / padded / resampled with the same arguments as the data (rules of C08.D3)")
    from . import c08
    c08.d3_mapped(chk, repo)
    chk.trust("np.pad pads each axis by the (before, after) widths given for it; basic slicing selects the half-open index range")
    chk.assume("which cell contains a coordinate that is not exactly representable, nearest-cell ties and point-wise equality of "
               "values are not decided")


def _centre_index_pairs(chk, v, di, line):
    """per block: the value whose term is point2index(TP)[k] (index-like) and the one that is index2point(...)[k'] (centre-like)"""
    blocks = {}
    entries = [(st, nm, tt) for st, nm, tt in simple_assigns(v)] + [(s_, nm + "+", tt) for nm, s_, tt in appends(v, v.stmts())]
    for r_ in v.returns():
        if isinstance(r_.value, ast.Tuple):        # a helper that hands back (centre, index)
            entries += [(r_, f"<return#{k_}>", v.term(e_, at=r_)) for k_, e_ in enumerate(r_.value.elts)]
    for st, nm, tt in entries:
        hb = v.ctx.head_of(tt)
        if not (hb and hb[0] == "sub"):
            continue
        c = decode_call(v.ctx, v.ctx.args_of(tt)[0])
        if not c or not is_sym(v.ctx, c[1][0], "self"):
            continue
        par = v.cfg.parent.get(id(st))
        key = (id(par[0]) if par and par[0] is not None else 0, par[1] if par else "")
        if c[0] == "Mesh.point2index":
            blocks.setdefault(key, {})["index"] = (st, tt)
        elif c[0] == "Mesh.index2point":
            blocks.setdefault(key, {})["centre"] = (st, tt)
    n_pairs = 0
    for key, d in blocks.items():
        n_pairs += 1
        line += 1
        ok = False
        ta = tb = None
        if "index" in d and "centre" in d:
            (sa, ta), (sb, tb) = d["centre"], d["index"]
            p2i, k = v.ctx.args_of(tb)
            c = decode_call(v.ctx, p2i)
            want_a = v.ctx.mk(("sub",), (v.ctx.mk(("call", "Mesh.index2point", 2, ()), (v.spec("self"), p2i)), k))
            ok = v.eq(ta, want_a) and v.eq(k, di)
            # the test point is the region's lower corner with the requested coordinate at axis k, or the centre
            tp = c[1][1]
            tps = stores_of(v.ctx, tp)
            okt = v.eq(tp, v.spec("self.region.center")) or (len(tps) == 1 and v.eq(tps[0][0], di))
            ok = ok and okt
        anyst = (d.get("centre") or d.get("index"))[0]
        chk.ob(f"mesh.Mesh._sel_convert_input::same-test-point::line{line}", ok, "C07.D1",
               f"centre {v.show(ta)[:140] if ta is not None else None} and index {v.show(tb)[:140] if tb is not None else None} must be "
               "index2point(point2index(tp))[k] and point2index(tp)[k] of one test point tp", v.f, anyst)
    return line, n_pairs


# ------------------------------------------------------------------ D1
def d1_sel_convert(chk, repo):
    chk.rule("C07.D1", "_sel_convert_input: the returned centre and the returned index come from the SAME test point "
                       "(index2point(point2index(tp))[k] and point2index(tp)[k]); a range becomes slice(i0, i1 + 1) over the "
                       "sorted bounds; values outside the region are refused")
    v = FV(repo, "mesh.Mesh._sel_convert_input")
    r, t = _single_return(v)
    h = v.ctx.head_of(t)
    chk.require(h and h[0] == "tuple" and len(v.ctx.args_of(t)) == 4, "_sel_convert_input: return is not a 4-tuple")
    dim, di, sel, seli = v.ctx.args_of(t)
    mem = phi_members(v.ctx, dim)
    okdim = len(mem) == 2 and any(v.eq(m_, v.spec("args[0]")) for m_ in mem) and \
        any(v.eq(m_, v.ctx.mk(("unpack", 0), (v.spec("list(kwargs.items())[0]"),))) for m_ in mem)
    chk.ob("mesh.Mesh._sel_convert_input::dim-is-the-only-argument", okdim, "C07.D1",
           f"dim = {v.show(dim)[:160]}; expected the single positional argument or the name of the single keyword", v.f, r)
    chk.ob("mesh.Mesh._sel_convert_input::axis-of-dim", v.eq(di, v.ctx.mk(("call", "Region._dim2index", 2, ()), (v.spec("self.region"), dim))),
           "C07.D1", f"returned axis index {v.show(di)[:120]} must be region._dim2index of the returned dim", v.f, r)
    # per block: the value whose term is point2index(TP)[k] (index-like) and the one that is index2point(...)[k']
    # (centre-like) - found by their form, whatever the variables are called
    # a helper introduced later inside the function (a closure that now holds the duplicated conversion) is searched as well;
    # what it computes counts once per call site
    views = [(v, 1, di)]
    for q2, f2 in repo.funcs.items():
        if f2.parent is not None and f2.parent.qual == v.f.qual and repo.is_new_function(q2):
            uses = sum(1 for n_ in ast.walk(v.f.node) if isinstance(n_, ast.Call) and isinstance(n_.func, ast.Name)
                       and n_.func.id == f2.node.name)
            w = FV(repo, q2, parent=v)
            views.append((w, uses, None))
    n_pairs = 0
    line = 0
    for vv, weight, axis in views:
        line, found = _centre_index_pairs(chk, vv, axis if axis is not None else vv.spec("dim_index"), line)
        n_pairs += found * weight
    chk.require(n_pairs >= 3, f"_sel_convert_input: only {n_pairs} centre/index pairs found (single value, range bound, default)")
    # the slice
    sl = find_assigns(v, lambda t_, s_: (decode_call(v.ctx, t_) or ("",))[0] == "slice")
    ok = False
    if len(sl) == 1:
        st_, nm_, t_ = sl[0]
        c = decode_call(v.ctx, t_)
        lst = local_term(v, nm_, st_)          # the list of bound indices the slice replaces
        ok = len(c[1]) == 2 and v.eq(c[1][0], v.ctx.mk(("sub",), (lst, v.ctx.const(0)))) and \
            v.eq(c[1][1], v.spec("L[1] + 1", env={"L": lst}))
    chk.ob("mesh.Mesh._sel_convert_input::range-slice", ok, "C07.D1",
           "a range must become slice(index of lower bound, index of upper bound + 1)", v.f, sl[0][0] if sl else None)
    loops = [s for s in v.stmts() if isinstance(s, ast.For)]
    okl = False
    seq_t = None
    if len(loops) == 1:
        it = decode_call(v.ctx, v.term(loops[0].iter, at=loops[0]))
        if it and it[0] == "sorted" and len(it[1]) == 1:
            # the sorted value is the one that was identified as a sequence on the way to the loop (an enclosing
            # `isinstance` branch or a survived `if not isinstance(...): raise` guard)
            seq_t = it[1][0]
            okl = reached_implies(v, loops[0], v.spec("isinstance(R, (tuple, list, np.ndarray))", env={"R": seq_t}))
    chk.ob("mesh.Mesh._sel_convert_input::bounds-sorted", okl, "C07.D1", "range bounds must be processed in sorted order", v.f)
    # refusals: the single value and every range bound outside [pmin[k], pmax[k]] raise ValueError (reached-iff: one guard
    # with `or`, two guards, any nesting)
    ves = [r_ for r_, nme in v.raises() if nme == "ValueError"]
    n_ref = 0
    if seq_t is not None:
        lo = v.spec("self.region.pmin[k]", env={"k": di})
        hi = v.spec("self.region.pmax[k]", env={"k": di})
        R = seq_t
        single = v.spec("R is not None and isinstance(R, numbers.Real) and (R < lo or R > hi)", env={"R": R, "lo": lo, "hi": hi})
        if reached_iff_any(v, ves, single):
            n_ref += 1
        E = v.ctx.mk(("iter", ()), (v.term(loops[0].iter, at=loops[0]),))
        inloop = [r_ for r_ in ves if any(p_ is loops[0] for p_, f_ in v.cfg.enclosing(r_))]
        per_bound = v.spec("E < lo or E > hi", env={"E": E, "lo": lo, "hi": hi})
        own_loop = path_term(v, loops[0])
        if inloop and reached_iff_any(v, inloop, v.ev._bool("and", [own_loop, per_bound])):
            n_ref += 1
    chk.ob("mesh.Mesh._sel_convert_input::outside-refused", n_ref >= 2, "C07.D1",
           f"{n_ref} of 2 refusals found: a single value and every range bound x with `x < pmin[k] or x > pmax[k]` must raise "
           "ValueError, exactly then", v.f)


# ------------------------------------------------------------------ D2
def d2_field_sel(chk, repo):
    chk.rule("C07.D2", "Field.sel indexes the data with assemble_index(slice(None), ndim+1, {axis: index}) from the mesh's own "
                       "conversion of the same arguments, and lives on self.mesh.sel(same arguments)")
    v = FV(repo, "field.Field.sel")
    news = cm.returned_news(v)
    chk.require(news, "Field.sel: no Field construction")
    r, a = news[0]
    conv = v.spec("self.mesh._sel_convert_input(*args, **kwargs)")
    env = {"C": conv}
    k = v.ctx.mk(("unpack", 1), (conv,))
    i = v.ctx.mk(("unpack", 3), (conv,))
    want = v.spec("self.array[dfu.assemble_index(slice(None), self.mesh.region.ndim + 1, {k: i})]", env={"k": k, "i": i})
    chk.ob("field.Field.sel::data-index", a.get("value") is not None and v.eq(a["value"], want), "C07.D2",
           f"value={v.show(a.get('value'))[:200]}", v.f, r)
    chk.ob("field.Field.sel::mesh", a.get("mesh") is not None and v.eq(a["mesh"], v.spec("self.mesh.sel(*args, **kwargs)")), "C07.D2",
           f"mesh={v.show(a.get('mesh'))}", v.f, r)
    # the one-dimensional case: Mesh.sel cannot build a 0-d mesh and says so; only that refusal may be turned into a bare array
    okh = False
    msg = None
    for st in v.stmts():
        if isinstance(st, ast.Try):
            for h in st.handlers:
                for s2 in walk_stmts(h.body):
                    if isinstance(s2, ast.Raise) and s2.exc is None:
                        par = v.cfg.parent.get(id(s2))
                        if par and isinstance(par[0], ast.If) and par[1] == "body" and isinstance(par[0].test, ast.Compare) \
                                and len(par[0].test.ops) == 1 and isinstance(par[0].test.ops[0], ast.NotIn) \
                                and isinstance(par[0].test.left, ast.Constant) and isinstance(par[0].test.left.value, str):
                            msg = par[0].test.left.value
                            cmpr = par[0].test.comparators[0]
                            okh = isinstance(cmpr, ast.Call) and ast.unparse(cmpr.func) == "str" and h.name is not None and \
                                ast.unparse(cmpr.args[0]) == h.name
    chk.ob("field.Field.sel::only-the-empty-mesh-refusal-is-absorbed", okh, "C07.D2",
           "in the handler of Mesh.sel's ValueError every error whose text does NOT contain the empty-region message must be "
           "re-raised (the one-dimensional case returns the bare array)", v.f)
    if msg is not None:
        ri = FV(repo, "region.Region.__init__")
        texts = [x.value for r_, n_ in ri.raises() if n_ == "ValueError" for x in ast.walk(r_) if isinstance(x, ast.Constant) and isinstance(x.value, str)]
        chk.ob("field.Field.sel::empty-region-message-agrees", any(msg in t_ for t_ in texts), "C07.D2",
               f"Field.sel recognises the refusal by the text {msg!r}; Region.__init__ raises ValueError with {texts[:6]}", v.f)
    for kw in ("nvdim", "vdims", "unit", "vdim_mapping"):
        chk.ob(f"field.Field.sel::kw={kw}", a.get(kw) is not None and v.eq(a[kw], v.spec(f"self.{kw}")), "C07.D2",
               f"{kw}={v.show(a.get(kw))}", v.f, r, nontrivial=False)


def d3_subregion_loops(chk, repo):
    # the subregion loops of a selection always run: the setter stores a dict, never None
    from ..lib import cond_implies, path_term
    s_ = FV(repo, "mesh.Mesh.sel")
    nloops = 0
    for st in s_.stmts():
        if isinstance(st, ast.For) and s_.eq(s_.term(st.iter, at=st), s_.spec("self.subregions.items()")):
            nloops += 1
            pt = path_term(s_, st)
            outer = [p_ for p_, f_ in s_.cfg.enclosing(st) if isinstance(p_, ast.If)]
            top = outer[-1] if outer else None
            ctx_ = path_term(s_, top.body[0] if st in list(walk_stmts(top.body)) else top.orelse[0]) if top is not None else None
            has = s_.spec("self.subregions is not None")
            ok = ctx_ is not None and implies_reached(s_, s_.ev._bool("and", [ctx_, has]), st)
            chk.ob(f"mesh.Mesh.sel::subregion-loop#{nloops}::always-runs", ok, "C07.D3",
                   f"the loop over the subregions runs under {s_.show(pt)[:200]}: it must run whenever its selection kind is "
                   "handled (subregions are never None)", s_.f, st)
    chk.require(nloops >= 2, "Mesh.sel: expected a subregion loop for plane and for range selections")


# ------------------------------------------------------------------ D3
def d3_mesh_sel(chk, repo):
    d3_subregion_loops(chk, repo)
    chk.rule("C07.D3", "Mesh.sel: a plane keeps all axes but the chosen one, in order; a range sets the faces of the chosen axis to "
                       "centre -/+ cell/2 and keeps the rest; subregions are kept iff they overlap and are clipped with max/min on "
                       "the chosen axis only")
    v = FV(repo, "mesh.Mesh.sel")
    conv = v.spec("self._sel_convert_input(*args, **kwargs)")
    k = v.ctx.mk(("unpack", 1), (conv,))
    sel = v.ctx.mk(("unpack", 2), (conv,))
    top = [s for s in v.body if isinstance(s, ast.If)]
    chk.require(top, "Mesh.sel: plane/range branch vanished")
    br = top[0]
    chk.ob("mesh.Mesh.sel::plane-condition", v.eq(v.ev.term(br.test, at=br), v.spec("isinstance(s, numbers.Real)", env={"s": sel})),
           "C07.D3", "the plane branch is taken exactly for a single (real) coordinate", v.f, br)
    # plane branch
    want_idxs = v.spec("[i for i in range(self.region.ndim) if i != k]", env={"k": k})
    idxs = [st_ for st_, nm_, t_ in simple_assigns(v, br.body) if (v.ctx.head_of(t_) or ("",))[0] == "seqcomp" and
            (decode_call(v.ctx, v.ctx.args_of(v.ctx.args_of(t_)[1])[0]) or ("",))[0] == "range"]
    oki = len(idxs) == 1 and v.eq(v.term(idxs[0].value, at=idxs[0]), want_idxs)
    chk.ob("mesh.Mesh.sel::plane::kept-axes", oki, "C07.D3", "kept axes must be [i for i in range(ndim) if i != axis]", v.f,
           idxs[0] if idxs else br)
    if oki:
        J = v.term(idxs[0].value, at=idxs[0])
        # (a loop that appends to a list is read as the list comprehension it is)
        want = {"pmin": v.spec("[self.region.pmin[j] for j in J]", env={"J": J}), "pmax": v.spec("[self.region.pmax[j] for j in J]", env={"J": J}),
                "cell": v.spec("[self.cell[j] for j in J]", env={"J": J}), "dims": v.spec("[self.region.dims[j] for j in J]", env={"J": J}),
                "units": v.spec("[self.region.units[j] for j in J]", env={"J": J})}
        got = {}
        for s_, name, tt in simple_assigns(v, br.body):
            for kk, w in want.items():
                if v.eq(tt, w):
                    got[kk] = name
        chk.ob("mesh.Mesh.sel::plane::per-axis-copies", len(got) == 5 and len(set(got.values())) == 5, "C07.D3",
               f"for every kept axis j the new corners, cell, dim and unit must be those of axis j; matched {sorted(got)}", v.f,
               br)
        # which list feeds which constructor argument
        news = cm.returned_news(v, cls=MESH)
        if news and len(got) == 5:
            r, a = news[0]
            d = decode_new(repo, v.ctx, a.get("region")) if a.get("region") is not None else None
            def from_list(t_, nm):
                return any(nm in v.show(m_) for m_ in [t_]) if False else True
        # subregions: kept iff selection inside [pmin, pmax] on the axis
        sub_loops = [s for s in walk_stmts(br.body) if isinstance(s, ast.For) and
                     v.eq(v.term(s.iter, at=s), v.spec("self.subregions.items()"))]
        oks = False
        if sub_loops:
            sr = v.ctx.mk(("unpack", 1), (each(v, v.spec("self.subregions.items()")),))
            for s2 in sub_loops[0].body:
                if isinstance(s2, ast.If) and isinstance(s2.body[-1], ast.Continue):
                    ct = v.ev.term(s2.test, at=s2)
                    oks = v.eq(ct, v.spec("s > sr.pmax[k] or s < sr.pmin[k]", env={"s": sel, "sr": sr, "k": k}))
        chk.ob("mesh.Mesh.sel::plane::subregion-overlap", oks, "C07.D3",
               "a subregion is dropped exactly when the plane coordinate lies outside [pmin, pmax] of it on the chosen axis", v.f)
    # range branch
    rb = br.orelse
    env = {"k": k, "s": sel}
    step = v.spec("self.cell[k] / 2", env=env)
    p1s = [s for s in rb if isinstance(s, ast.Assign) and isinstance(s.targets[0], ast.Subscript)]
    got = {}
    for s in p1s:
        idx = v.ev._index(s.targets[0].slice, v.cfg.node(s), None)
        val = v.term(s.value, at=s)
        base = v.ev.term(s.targets[0].value, at=s)
        b0 = strip_stores(v.ctx, base)
        if v.eq(idx, k) and len(b0) == 1:
            cb = decode_call(v.ctx, b0[0])
            inner = cb[1][0] if cb and cb[0] == "astype" else b0[0]
            if v.eq(inner, v.spec("self.region.pmin")) and v.eq(val, v.spec("s[0] - st", env=dict(env, st=step))):
                got["lower"] = s
            if v.eq(inner, v.spec("self.region.pmax")) and v.eq(val, v.spec("s[1] + st", env=dict(env, st=step))):
                got["upper"] = s
    chk.ob("mesh.Mesh.sel::range::faces", set(got) == {"lower", "upper"}, "C07.D3",
           "the lower face must be centre(lower bound) - cell/2 stored into a copy of pmin, the upper face centre(upper bound) + cell/2 "
           f"into a copy of pmax, on the chosen axis only; matched {sorted(got)}", v.f, p1s[0] if p1s else None)
    # subregion clipping
    sub_loops = [s for s in walk_stmts(rb) if isinstance(s, ast.For) and v.eq(v.term(s.iter, at=s), v.spec("self.subregions.items()"))]
    okc = okk = False
    if sub_loops:
        sr = v.ctx.mk(("unpack", 1), (each(v, v.spec("self.subregions.items()")),))
        lo = v.spec("s[0] - st", env=dict(env, st=step))
        hi = v.spec("s[1] + st", env=dict(env, st=step))
        e2 = {"sr": sr, "k": k, "lo": lo, "hi": hi}
        for s2 in walk_stmts(sub_loops[0].body):
            if isinstance(s2, ast.If) and isinstance(s2.body[-1], ast.Continue):
                okk = v.eq(v.ev.term(s2.test, at=s2), v.spec("sr.pmin[k] >= hi or lo >= sr.pmax[k]", env=e2))
        clips = {}
        for s2 in walk_stmts(sub_loops[0].body):
            if isinstance(s2, ast.Assign) and isinstance(s2.targets[0], ast.Subscript):
                idx = v.ev._index(s2.targets[0].slice, v.cfg.node(s2), None)
                val = v.term(s2.value, at=s2)
                if v.eq(idx, k) and v.eq(val, v.spec("max(lo, sr.pmin[k])", env=e2)):
                    clips["lower"] = 1
                if v.eq(idx, k) and v.eq(val, v.spec("min(hi, sr.pmax[k])", env=e2)):
                    clips["upper"] = 1
        okc = set(clips) == {"lower", "upper"}
    chk.ob("mesh.Mesh.sel::range::subregion-overlap", okk, "C07.D3",
           "a subregion is dropped exactly when it ends at or before the lower face or starts at or after the upper face", v.f)
    chk.ob("mesh.Mesh.sel::range::subregion-clipped", okc, "C07.D3",
           "kept subregions are clipped to [max(lower face, pmin), min(upper face, pmax)] on the chosen axis", v.f)
    news = cm.returned_news(v, cls=MESH)
    chk.require(news, "Mesh.sel: no Mesh construction")
    r, a = news[0]
    d = decode_new(repo, v.ctx, a.get("region")) if a.get("region") is not None else None
    okr = bool(d and d[0] == REGION and d[1].get("tolerance_factor") is not None and
               v.eq(d[1]["tolerance_factor"], v.spec("self.region.tolerance_factor")) and "dims" in d[1] and "units" in d[1])
    chk.ob("mesh.Mesh.sel::result-region", okr, "C07.D3",
           f"region={v.show(a.get('region'))[:160]}: must carry dims, units and the tolerance factor", v.f, r)
    chk.ob("mesh.Mesh.sel::result-cell-subregions", "cell" in a and "subregions" in a, "C07.D3",
           "the selected mesh must be built from the kept cell sizes and subregions", v.f, r)


# ------------------------------------------------------------------ D4
def d4_pad(chk, repo):
    chk.rule("C07.D4", "padding: Mesh.pad moves pmin[a] by -before*cell[a] and pmax[a] by +after*cell[a] for the named axis only, "
                       "keeps cell, bc, dims, units; Field.pad pads the data with the widths placed at the axis of each direction")
    v = FV(repo, "mesh.Mesh.pad")
    loops = [s for s in v.stmts() if isinstance(s, ast.For)]
    chk.require(len(loops) == 1, "Mesh.pad: loop vanished")
    lp = loops[0]
    d = each(v, v.term(lp.iter, at=lp))
    a = v.spec("self.region._dim2index(d)", env={"d": d})
    got = {}
    for s in lp.body:
        if isinstance(s, ast.AugAssign) and isinstance(s.target, ast.Subscript):
            idx = v.ev._index(s.target.slice, v.cfg.node(s), None)
            val = v.term(s.value, at=s)
            base = strip_stores(v.ctx, v.ev.term(s.target.value, at=s))
            base = [b for b in base if (v.ctx.head_of(b) or ("",))[0] != "carried"]
            if len(base) != 1 or not v.eq(idx, a):
                continue
            if isinstance(s.op, ast.Sub) and v.eq(base[0], v.spec("self.region.pmin")) and \
                    v.eq(val, v.spec("pad_width[d][0] * self.cell[a]", env={"d": d, "a": a})):
                got["before"] = s
            if isinstance(s.op, ast.Add) and v.eq(base[0], v.spec("self.region.pmax")) and \
                    v.eq(val, v.spec("pad_width[d][1] * self.cell[a]", env={"d": d, "a": a})):
                got["after"] = s
    chk.ob("mesh.Mesh.pad::corner-moves", set(got) == {"before", "after"} and
           v.eq(v.term(lp.iter, at=lp), v.spec("pad_width")), "C07.D4",
           f"expected pmin[a] -= pad_width[d][0]*cell[a] and pmax[a] += pad_width[d][1]*cell[a] for every direction d; matched {sorted(got)}",
           v.f, lp)
    for r, x in cm.returned_news(v, cls=MESH):
        chk.ob("mesh.Mesh.pad::keeps-cell-bc", v.eq(x.get("cell"), v.spec("self.cell")) and x.get("bc") is not None and
               v.eq(x["bc"], v.spec("self.bc")), "C07.D4", f"cell={v.show(x.get('cell'))[:60]}, bc={v.show(x.get('bc'))}", v.f, r)
        dd = decode_new(repo, v.ctx, x.get("region")) if x.get("region") is not None else None
        okd = bool(dd and all(dd[1].get(kw) is not None and v.eq(dd[1][kw], v.spec(f"self.region.{kw}"))
                              for kw in ("dims", "units", "tolerance_factor")))
        chk.ob("mesh.Mesh.pad::keeps-names", okd, "C07.D4", "dims, units and tolerance must be kept", v.f, r)
    f = FV(repo, "field.Field.pad")
    want_map = f.spec("{self.mesh.region._dim2index(k): w for k, w in pad_width.items()}")
    ok = any(f.eq(t_, want_map) for st_, nm_, t_ in simple_assigns(f)) or \
        any(f.ctx.mentions_or_eq(f.ev.term(r_.value, at=r_), want_map) for r_ in f.returns() if r_.value is not None)
    chk.ob("field.Field.pad::width-at-axis-of-direction", ok, "C07.D4",
           "the (before, after) widths of direction d must be placed at axis _dim2index(d) of the padding sequence", f.f)
    for r, x in cm.returned_news(f):
        c = decode_call(f.ctx, x.get("value")) if x.get("value") is not None else None
        okv = bool(c and c[0] == "np.pad" and f.eq(c[1][0], f.spec("self.array")))
        if okv:
            s = decode_call(f.ctx, c[1][1])
            okv = bool(s and s[0] == "dfu.assemble_index" and f.eq(s[1][0], f.spec("(0, 0)")) and
                       f.eq(s[1][1], f.spec("len(self.array.shape)")))
        chk.ob("field.Field.pad::data-padded", okv, "C07.D4", f"value={f.show(x.get('value'))[:160]}", f.f, r)
        chk.ob("field.Field.pad::mesh-padded-with-same-widths", x.get("mesh") is not None and
               f.eq(x["mesh"], f.spec("self.mesh.pad(pad_width)")), "C07.D4",
               f"mesh={f.show(x.get('mesh'))[:120]}; expected self.mesh.pad(pad_width)", f.f, r)
        for kw in ("nvdim", "vdims", "unit", "vdim_mapping"):
            chk.ob(f"field.Field.pad::kw={kw}", x.get(kw) is not None and f.eq(x[kw], f.spec(f"self.{kw}")), "C07.D4",
                   f"{kw}={f.show(x.get(kw))}", f.f, r, nontrivial=False)
    u = FV(repo, "util.util.assemble_index")
    r, t = _single_return(u)
    base = strip_stores(u.ctx, t)
    sts = stores_of(u.ctx, t)
    oku = len(base) == 1 and u.eq(base[0], u.spec("[value] * n")) and len(sts) == 1
    chk.ob("util.util.assemble_index::definition", oku, "C07.D4",
           f"assemble_index returns {u.show(t)[:160]}; expected [value]*n with dictionary entries stored at their keys", u.f, r)


# ------------------------------------------------------------------ D5
def d5_getitem(chk, repo):
    chk.rule("C07.D5", "extraction by region returns the smallest block of whole cells: lower corner centre(floor) - cell/2, upper "
                       "corner centre(ceil((pmax - pmin0)/cell) - 1) + cell/2; by name: the stored subregion with the parent's cell; "
                       "regions outside the mesh are refused; the field slices [i_min, i_min + submesh.n) on every axis")
    v = FV(repo, "mesh.Mesh.__getitem__")
    news = cm.returned_news(v, cls=MESH)
    chk.require(len(news) == 2, "Mesh.__getitem__: expected two Mesh constructions")
    byname = [(r, a) for r, a in news if a.get("region") is not None and v.eq(a["region"], v.spec("self.subregions[item]"))]
    ok = len(byname) == 1 and v.eq(byname[0][1].get("cell"), v.spec("self.cell"))
    chk.ob("mesh.Mesh.__getitem__::by-name", ok, "C07.D5", "mesh[name] must be Mesh(region=self.subregions[name], cell=self.cell)", v.f)
    byreg = [(r, a) for r, a in news if (r, a) not in byname]
    if byreg:
        r, a = byreg[0]
        d = decode_new(repo, v.ctx, a.get("region")) if a.get("region") is not None else None
        p1 = d[1].get("p1") if d else None
        p2 = d[1].get("p2") if d else None
        w1 = v.spec("self.index2point(self.point2index(item.pmin)) - self.cell / 2")
        w2 = v.spec("self.index2point((np.ceil((item.pmax - self.region.pmin) / self.cell) - 1).astype(int)) + self.cell / 2")
        chk.ob("mesh.Mesh.__getitem__::lower-corner", p1 is not None and v.eq(p1, w1), "C07.D5",
               f"p1={v.show(p1)[:200]}; expected centre of the cell containing item.pmin minus cell/2", v.f, r)
        chk.ob("mesh.Mesh.__getitem__::upper-corner", p2 is not None and v.eq(p2, w2), "C07.D5",
               f"p2={v.show(p2)[:220]}; expected centre of cell ceil((item.pmax - pmin)/cell) - 1 plus cell/2", v.f, r)
        okk = bool(d and all(d[1].get(kw) is not None and v.eq(d[1][kw], v.spec(f"self.region.{kw}"))
                             for kw in ("dims", "units", "tolerance_factor")) and v.eq(a.get("cell"), v.spec("self.cell")))
        chk.ob("mesh.Mesh.__getitem__::keeps-names-and-cell", okk, "C07.D5", "dims, units, tolerance and cell must be kept", v.f, r)
        okg, det = v.guard("item not in self.region", exc=("ValueError",), before=r)
        chk.ob("mesh.Mesh.__getitem__::outside-refused", okg, "C07.D5", det, v.f)
    f = FV(repo, "field.Field.__getitem__")
    for r, a in cm.returned_news(f):
        sub = f.spec("self.mesh[item]")
        imin = f.spec("self.mesh.point2index(S.index2point((0,) * S.region.ndim))", env={"S": sub})
        want = f.spec("self.array[tuple([slice(i, j) for i, j in zip(A, np.add(A, S.n))])]", env={"A": imin, "S": sub})
        chk.ob("field.Field.__getitem__::block", a.get("value") is not None and f.eq(a["value"], want) and
               f.eq(a.get("mesh"), sub), "C07.D5",
               f"value={f.show(a.get('value'))[:200]}; expected the block [i_min, i_min + submesh.n) with i_min the parent index of "
               "the sub-mesh's first cell, on self.mesh[item]", f.f, r)
        for kw in ("nvdim", "vdims", "unit", "vdim_mapping"):
            chk.ob(f"field.Field.__getitem__::kw={kw}", a.get(kw) is not None and f.eq(a[kw], f.spec(f"self.{kw}")), "C07.D5",
                   f"{kw}={f.show(a.get(kw))}", f.f, r, nontrivial=False)


# ------------------------------------------------------------------ D6
def d6_region2slices(chk, repo):
    chk.rule("C07.D6", "region2slices(region) == slice(point2index(pmin + cell/2)[i], point2index(pmax - cell/2)[i] + 1) per axis")
    v = FV(repo, "mesh.Mesh.region2slices")
    r, t = _single_return(v)
    want = v.spec("tuple(slice(self.point2index(region.pmin + self.cell / 2)[i], self.point2index(region.pmax - self.cell / 2)[i] + 1) "
                  "for i in range(self.region.ndim))")
    chk.ob("mesh.Mesh.region2slices::definition", v.eq(t, want), "C07.D6", f"returns {v.show(t)[:260]}", v.f, r)


# ------------------------------------------------------------------ D7
def d7_resample(chk, repo):
    chk.rule("C07.D7", "resample keeps the region: the target mesh is Mesh(region=self.mesh.region, n=n); values come from the "
                       "nearest-cell lookup of self (C02.D8); labels, unit, dtype and mapping are kept")
    v = FV(repo, "field.Field.resample")
    for r, a in cm.returned_news(v):
        d = decode_new(repo, v.ctx, a.get("mesh")) if a.get("mesh") is not None else None
        ok = bool(d and d[0] == MESH and d[1].get("region") is not None and v.eq(d[1]["region"], v.spec("self.mesh.region")) and
                  is_sym(v.ctx, d[1].get("n", v.ctx.const(0)), "param:n") and set(d[1]) == {"region", "n"})
        chk.ob("field.Field.resample::target-mesh", ok, "C07.D7", f"mesh={v.show(a.get('mesh'))}", v.f, r)
        chk.ob("field.Field.resample::value-is-self", a.get("value") is not None and is_sym(v.ctx, a["value"], "self"), "C07.D7",
               f"value={v.show(a.get('value'))}", v.f, r)
        for kw in ("nvdim", "vdims", "unit", "dtype", "vdim_mapping"):
            chk.ob(f"field.Field.resample::kw={kw}", a.get(kw) is not None and v.eq(a[kw], v.spec(f"self.{kw}")), "C07.D7",
                   f"{kw}={v.show(a.get(kw))}", v.f, r, nontrivial=False)


# ------------------------------------------------------------------ dtype of modified corner copies
def corner_copies_hold_floats(chk, repo, pid, quals, floor=8):
    """A coordinate written into a copy of pmin/pmax must not be truncated: region corners may be integer arrays, so
    the copy has to be converted (astype(float) or astype(max(corner dtype, type(value)))) before an element is stored."""
    from ..lib import alias_term
    chk.rule(f"{pid}.corner-dtype", "every element store into a copy of a region corner goes into a float-capable copy "
                                    "(`.astype(float)` or `.astype(max(corner.dtype, type(value)))`): integer-cornered regions "
                                    "must not truncate the stored coordinate")
    n = 0
    per_function = {}
    scan = []
    for q in quals:
        scan.append((q, q, None))
        # helpers introduced later inside these functions (a closure that now holds the copy-and-store) are searched as well
        for q2, f2 in repo.funcs.items():
            if f2.parent is not None and f2.parent.qual == q and repo.is_new_function(q2):
                scan.append((q2, q, FV(repo, q)))
    for q, owner, parent_v in scan:
        v = FV(repo, q, parent=parent_v) if parent_v is not None else FV(repo, q)
        for st in v.stmts():
            tgt = None
            if isinstance(st, ast.Assign) and len(st.targets) == 1 and isinstance(st.targets[0], ast.Subscript):
                tgt = st.targets[0]
            elif isinstance(st, ast.AugAssign) and isinstance(st.target, ast.Subscript):
                tgt = st.target
            if tgt is None or not isinstance(tgt.value, ast.Name):
                continue
            bt = alias_term(v, tgt.value, at=st)
            bases = [b for b in strip_stores(v.ctx, bt)]
            for b in bases:
                heads = v.ctx.heads_in(b)
                if not any(h[0] == "attr" and h[1] in ("_pmin", "_pmax") for h in heads) and \
                        not any(h[0] in ("attr", "prop") and h[1] in ("pmin", "pmax") for h in heads):
                    continue
                n += 1
                per_function[owner] = per_function.get(owner, 0) + 1
                ok = False
                # conversions applied to the copied corner array itself (not ones buried in the dtype expression)
                chain = []
                cur = b
                for _ in range(12):
                    a0 = cur.single_atom()
                    if a0 is None:
                        break
                    hd, ar = v.ctx.atoms[a0]
                    if hd[0] == "call" and ar:
                        chain.append((hd, ar))
                        cur = ar[0]
                    else:
                        break
                for hd, ar in chain:
                    if hd[0] == "call" and hd[1] in (".astype", "astype") and len(ar) >= 2:
                        d = ar[1]
                        hdt = v.ctx.head_of(d)
                        if hdt and hdt[0] == "sym" and hdt[1] in ("float", "np.float64"):
                            ok = True
                        if hdt and hdt[0] == "str" and hdt[1] in ("float", "float64"):
                            ok = True
                        c = decode_call(v.ctx, d)
                        if c and c[0] == "max" and any((decode_call(v.ctx, x) or ("",))[0] == "type" for x in c[1]):
                            ok = True
                chk.ob(f"{q}::corner-copy-float-capable::line{n}", ok, f"{pid}.corner-dtype",
                       f"`{v.src(st)[:80]}` stores into {v.show(b)[:90]}, a copy of a region corner that keeps the corner's "
                       "dtype: with integer corners the stored coordinate is truncated (the selected plane / face moves to "
                       "another cell)", v.f, st)
    missing = [q for q in quals if not per_function.get(q)]
    chk.require(not missing, f"{pid}.corner-dtype: no corner-copy store found any more in {missing} (each of {quals} had some "
                             "when the rule was written)")


# ------------------------------------------------------------------ D8
def _corner_sources(v, t):
    """which corner attributes a corner-array term is derived from: subset of {'pmin', 'pmax'} plus the owner term"""
    out = set()

    def collect(x, depth=0):
        if depth > 30:
            return
        for aid in x.atom_ids():
            hd, ar = v.ctx.atoms[aid]
            if hd[0] == "attr" and hd[1] in ("_pmin", "_pmax"):
                out.add((hd[1][1:], v.show(ar[0])))
                continue
            if hd[0] in ("attr", "prop") and hd[1] in ("pmin", "pmax"):
                out.add((hd[1], v.show(ar[0])))
                continue
            if hd[0] == "call" and hd[1] in ("astype", ".astype") and ar:
                collect(ar[0], depth + 1)              # the converted array, not the dtype expression
                continue
            if hd[0] == "sub" and ar:
                collect(ar[0], depth + 1)              # the indexed array, not the index
                continue
            if hd[0] == "call" and hd[1] == "len":
                continue
            for y in ar:
                collect(y, depth + 1)

    def rec(x, depth=0):
        h = v.ctx.head_of(x)
        if depth > 40:
            return
        if h and h[0] == "store":
            rec(v.ctx.args_of(x)[0], depth + 1)        # the array that is modified, not the values written into it
        elif h and h[0] == "mut":
            for y in v.ctx.args_of(x):
                rec(y, depth + 1)                      # a list: what it was and what is appended
        elif h and h[0] == "phi":
            for y in v.ctx.args_of(x):
                rec(y, depth + 1)
        elif h and h[0] == "carried":
            return
        else:
            collect(x)
    rec(t)
    return out


def d8_wiring_and_dispatch(chk, repo):
    chk.rule("C07.D8", "every Region built by Mesh.sel / Mesh.pad gets one corner derived from pmin and the other from pmax of the "
                       "same source region (mesh region, or the subregion being kept); Field.pad forwards mode and extra keywords; "
                       "_sel_convert_input accepts exactly one dimension, a number or a pair of numbers, and refuses the rest")
    for q in ("mesh.Mesh.sel", "mesh.Mesh.pad"):
        v = FV(repo, q)
        n = 0
        for s_ in v.ctor_sites(REGION):
            p1, p2 = s_.args.get("p1"), s_.args.get("p2")
            n += 1
            if p1 is None or p2 is None:
                chk.ob(f"{q}::region#{n}::both-corners", False, "C07.D8", f"`{v.src(s_.call)[:80]}` does not pass both corners", v.f, s_.call)
                continue
            a, b = _corner_sources(v, p1), _corner_sources(v, p2)
            owners = {o for k, o in a | b}
            ok = len(owners) == 1 and {k for k, o in a} | {k for k, o in b} == {"pmin", "pmax"} and \
                {k for k, o in a} != {k for k, o in b} and len({k for k, o in a}) == 1 and len({k for k, o in b}) == 1
            chk.ob(f"{q}::region#{n}::corner-sources", ok, "C07.D8",
                   f"`{v.src(s_.call)[:70]}`: p1 derives from {sorted(a)}, p2 from {sorted(b)}; one must come from pmin and the other "
                   "from pmax of one and the same region", v.f, s_.call)
        chk.require(n >= (3 if q.endswith("sel") else 1), f"{q}: only {n} Region constructions found")
    # plane branch: subregion corners appended per kept axis
    v = FV(repo, "mesh.Mesh.sel")
    sr = v.ctx.mk(("unpack", 1), (each(v, v.spec("self.subregions.items()")),))
    got = set()
    # the per-axis lists [S.pmin[j] for j in kept] / [S.pmax[j] ...] (loops that append are read as comprehensions): look
    # for them among the arguments of the Region constructions
    for site in v.ctor_sites(REGION):
        for kw in ("p1", "p2"):
            t = site.args.get(kw)
            h = v.ctx.head_of(t) if t is not None else None
            if h and h[0] == "seqcomp":
                elt = v.ctx.args_of(t)[0]
                he = v.ctx.head_of(elt)
                if he and he[0] == "sub":
                    base = v.ctx.args_of(elt)[0]
                    if v.eq(base, v.spec("S.pmin", env={"S": sr})):
                        got.add("pmin")
                    if v.eq(base, v.spec("S.pmax", env={"S": sr})):
                        got.add("pmax")
    chk.ob("mesh.Mesh.sel::plane::subregion-corners", got == {"pmin", "pmax"}, "C07.D8",
           f"kept subregions of a plane selection must copy their pmin[j] and pmax[j] for the kept axes; found {sorted(got)}", v.f)
    f = FV(repo, "field.Field.pad")
    for r, x in cm.returned_news(f):
        c = decode_call(f.ctx, x.get("value")) if x.get("value") is not None else None
        ok = bool(c and c[0] == "np.pad" and is_sym(f.ctx, c[2].get("mode", f.ctx.const(0)), "param:mode") and
                  "**" in c[2] and is_sym(f.ctx, c[2]["**"], "param:kwargs"))
        chk.ob("field.Field.pad::mode-and-options-forwarded", ok, "C07.D8",
               f"data padding {f.show(x.get('value'))[:120]}: must use the caller's mode and extra keywords", f.f, r)
    s = FV(repo, "mesh.Mesh._sel_convert_input")
    for cond, exc, key in (("len(args) > 1 or len(kwargs) > 1", "ValueError", "one-dimension-at-a-time"),):
        ok, det = s.guard(cond, exc=(exc,))
        chk.ob(f"mesh.Mesh._sel_convert_input::{key}", ok, "C07.D8", det, s.f)
    pos_t, kw_t = s.spec("args and (not kwargs)"), s.spec("(not args) and kwargs")
    takes_pos = [st for st in s.stmts() if isinstance(st, ast.Assign) and s.eq(s.term(st.value, at=st), s.spec("args[0]"))]
    takes_kw = [st for st in s.stmts() if isinstance(st, ast.Assign) and s.eq(s.term(st.value, at=st), s.spec("list(kwargs.items())[0]"))]
    ves8 = [r_ for r_, n_ in s.raises() if n_ == "ValueError"]
    okd = len(takes_pos) == 1 and len(takes_kw) == 1 and reached_iff(s, takes_pos[0], pos_t) and reached_iff(s, takes_kw[0], kw_t) \
        and bool(reached_iff_any(s, ves8, s.ev._bool("and", [s.ev._not(pos_t), s.ev._not(kw_t)])))
    chk.ob("mesh.Mesh._sel_convert_input::positional-xor-keyword", okd, "C07.D8",
           "either one positional dimension or one keyword (dimension=value) - anything else raises ValueError", s.f)
    rng = None
    for st in s.stmts():
        if isinstance(st, ast.If):
            ct = s.ev.term(st.test, at=st)
            hd = s.ctx.head_of(ct)
            if hd and hd[0] == "not":
                ct = s.ctx.args_of(ct)[0]
            c = decode_call(s.ctx, ct)
            if c and c[0] == "isinstance" and is_sym(s.ctx, c[1][1], "numbers.Real") and c[1][0].single_atom() is not None \
                    and s.ctx.head_of(c[1][0])[0] in ("phi", "unpack", "sub", "sym"):
                rng = (st, c[1][0])
    okr = False
    if rng:
        R = rng[1]
        tes8 = [r_ for r_, n_ in s.raises() if n_ == "TypeError"]
        okr = bool(reached_iff_any(s, tes8, s.spec("R is not None and not isinstance(R, numbers.Real) and "
                                                   "not isinstance(R, (tuple, list, np.ndarray))", env={"R": R})))
    chk.ob("mesh.Mesh._sel_convert_input::value-kinds", okr, "C07.D8",
           "the selection value is a real number (plane) or a tuple/list/array (range); anything else raises TypeError", s.f)
    if rng:
        okp = oke = okn = False
        for r_, n_ in s.raises():
            par = s.cfg.parent.get(id(r_))
            if par and isinstance(par[0], ast.If) and par[1] == "body":
                ct = s.ev.term(par[0].test, at=par[0])
                if s.eq(ct, s.spec("len(R) != 2", env={"R": rng[1]})) and n_ == "ValueError":
                    okp = True
                if s.eq(ct, s.spec("not all(isinstance(p, numbers.Real) for p in R)", env={"R": rng[1]})) and n_ == "TypeError":
                    oke = True
        chk.ob("mesh.Mesh._sel_convert_input::range-has-two-reals", okp and oke, "C07.D8",
               "a range must consist of exactly two real numbers (ValueError / TypeError otherwise)", s.f)
        # no value -> the central cell
        # (two-way alternatives are read in their positive orientation: `if R is None: <default> else: <given>`)
        none_branch = [st for st in s.stmts() if isinstance(st, ast.If) and st.orelse and
                       (s.eq(s.ev.term(st.test, at=st), s.spec("R is None", env={"R": rng[1]})) or
                        s.eq(s.ev.term(st.test, at=st), s.spec("R is not None", env={"R": rng[1]})))]
        okd = False
        if len(none_branch) == 1:
            nb = none_branch[0]
            blk = nb.body if s.eq(s.ev.term(nb.test, at=nb), s.spec("R is None", env={"R": rng[1]})) else nb.orelse
            vals = [s.term(x.value, at=x) for x in walk_stmts(blk) if isinstance(x, ast.Assign)]
            def ends_in_centre(t_, fn):
                h_ = s.ctx.head_of(t_)
                if not (h_ and h_[0] == "sub"):
                    return False
                c_ = decode_call(s.ctx, s.ctx.args_of(t_)[0])
                return bool(c_ and c_[0] == fn)
            sel_ok = any(ends_in_centre(t_, "Mesh.index2point") and
                         s.eq(s.ctx.args_of(t_)[0], s.spec("self.index2point(self.point2index(self.region.center))")) for t_ in vals)
            idx_ok = any(ends_in_centre(t_, "Mesh.point2index") and
                         s.eq(s.ctx.args_of(t_)[0], s.spec("self.point2index(self.region.center)")) for t_ in vals)
            okd = sel_ok and idx_ok
        chk.ob("mesh.Mesh._sel_convert_input::default-is-centre", okd, "C07.D8",
               "without a value the plane through the region's centre is selected", s.f)
