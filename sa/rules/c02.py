"""C02 - a field holds exactly the value its specification assigns to every cell."""
import ast

from ..model import AnalysisError
from ..lib import FV, decode_new, decode_call, phi_members, is_sym, is_const, is_str, strip_stores, stores_of
from ..lib import (reached_iff, reached_implies, implies_reached, reached_iff_any, path_term, cond_equiv, cond_implies,  # noqa: F401
                   else_stmts, branch_stmts, context_literals)
from ..cfg import always_raises, walk_stmts
from . import common as cm
from . import geom
from .common import FIELD, MESH, REGION
from .c01 import each, _single_return

FLOOR = 34
ANCHORS = [
    'field.Field._as_array',
    'field.Field._as_array[str]',
    'field.Field._as_array[Complex|Iterable]',
    'field.Field._as_array[Callable]',
    'field.Field._as_array[dict]',
    'field.Field._as_array[Field]',
    'field.Field.array.setter',
    'field.Field.update_field_values',
    'field.Field.__call__',
    'field.Field.__getattr__',
    'field.Field.__iter__',
    'field.Field.line',
    'mesh.Mesh.line',
    'line.Line.__init__',
]   # functions whose code the property is anchored in (mutation analysis, evidence)

AUTOMUT_TRIAGE = [
    (r"__getattr__$", r"drop keyword valid=", "a component's validity is C08's subject (C08.D1 reports it)"),
    (r"Line\.__init__$", r"values\[0\]|self\.dim = ", "Line.dim (taken from the first value) is not an observable of the statement; the columns, "
     "points, values and distances are"),
]


def run(chk):
    repo = chk.repo
    cm.schema(chk, repo, "C02")
    chk.rule("C02.D1-D2", "every array/constant/function/dictionary overload of _as_array returns shape (*mesh.n, nvdim); "
                          "_array is written only by the array setter through _as_array(val, self.mesh, self.nvdim); "
                          "update_field_values assigns through that setter")
    geom._field_store_values(chk, "C02")
    d2_setter_path(chk, repo)
    d3_rejection(chk, repo)
    d4_dictionary(chk, repo)
    d5_callable(chk, repo)
    d6_sampling(chk, repo)
    d7_line(chk, repo)
    d8_source_field(chk, repo)
    d9_dtype_and_line(chk, repo)
    chk.trust("xarray DataArray.sel(..., method='nearest') picks, per dimension, the coordinate nearest to each requested value")
    chk.trust("np.full broadcasts the fill value over the requested shape; np.argwhere lists index rows")
    chk.assume("equality of the stored numbers with the specification for arbitrary inputs is not decided (dtype casting, the "
               "NaN sentinel colliding with NaN data, ties in nearest-cell lookup)")


def d2_setter_path(chk, repo):
    writers = []
    for fi in repo.funcs.values():
        for st in walk_stmts(fi.node.body):
            tg = st.targets if isinstance(st, ast.Assign) else ([st.target] if isinstance(st, (ast.AugAssign, ast.AnnAssign)) else [])
            for t in tg:
                for n in ast.walk(t):
                    if isinstance(n, ast.Attribute) and n.attr == "_array" and isinstance(n.ctx, ast.Store):
                        writers.append((fi, st))
    chk.require(writers, "no store to _array anywhere")
    for fi, st in writers:
        chk.ob(f"{fi.qual}::store::_array::owner", fi.qual == "field.Field.array.setter", "C02.D2",
               "only the array setter may write _array", fi, st)
    v = FV(repo, "field.Field.update_field_values")
    sts = [s for s in v.self_stores() if s[1] == "array"]
    ok = False
    if len(sts) == 1 and len(v.body) == 1:
        t = v.term(sts[0][2], at=sts[0][0])
        c = decode_call(v.ctx, t)
        ok = bool(c and c[0] == "Field._as_array" and is_sym(v.ctx, c[1][1], "param:value") and
                  v.eq(c[1][2], v.spec("self.mesh")) and v.eq(c[1][3], v.spec("self.nvdim")) and
                  v.eq(c[2].get("dtype", v.ctx.const(0)), v.spec("self.dtype")))
    chk.ob("field.Field.update_field_values::through-setter", ok, "C02.D2",
           "update_field_values must be the single assignment self.array = self._as_array(value, self.mesh, self.nvdim, "
           "dtype=self.dtype) - a rejected value then leaves the previous array in place", v.f)
    w = FV(repo, "field.Field.array.setter")
    chk.ob("field.Field.array.setter::single-statement", len(w.body) == 1 and len(w.self_stores()) == 1, "C02.D3",
           "the array setter must convert and store in one statement: nothing is written before a conversion error", w.f)
    # constructor order: values, then norm, then validity
    i = FV(repo, "field.Field.__init__")
    order = []
    for st in i.body:
        if isinstance(st, ast.Expr) and isinstance(st.value, ast.Call) and isinstance(st.value.func, ast.Attribute) \
                and st.value.func.attr == "update_field_values":
            order.append("values")
        for s, a_, val, k in i.self_stores():
            if s is st and a_ == "norm":
                order.append("norm")
            if s is st and a_ == "valid" and not (isinstance(val, ast.Constant) and val.value is True):
                order.append("valid")
    chk.ob("field.Field.__init__::values-norm-valid-order", order == ["values", "norm", "valid"], "C02.D2",
           f"constructor applies {order}; expected values, then norm, then the requested validity", i.f)


def d3_rejection(chk, repo):
    chk.rule("C02.D3", "wrong type, wrong component count: the base and str overloads always raise TypeError; the array overload "
                       "raises ValueError when the last axis is not nvdim (and for non-zero constants with nvdim > 1) before "
                       "np.full")
    ov = cm.as_array_overloads(repo)
    for key in ("<base>", "str"):
        v = FV(repo, ov[key].qual)
        ok = always_raises(v.body) and all(n == "TypeError" for r, n in v.raises())
        chk.ob(f"{ov[key].qual}::always-typeerror", ok, "C02.D3", "unsupported value types must raise TypeError", v.f)
    v = FV(repo, ov["Complex|Iterable"].qual, param_types={"mesh": MESH})
    fulls = [r for r in v.returns() if r.value is not None and (decode_call(v.ctx, v.ev.term(r.value, at=r)) or ("",))[0] == "np.full"]
    chk.require(len(fulls) == 1, "array overload: expected one np.full return")
    full = fulls[0]
    # under isinstance(val, Iterable): shape(val)[-1] != nvdim -> ValueError, and it must be on every iterable path to np.full
    ok = False
    det = "no component-count refusal"
    for r, n in v.raises():
        if n != "ValueError":
            continue
        par = v.cfg.parent.get(id(r))
        if par and isinstance(par[0], ast.If):
            ct = v.ev.term(par[0].test, at=par[0])
            if v.eq(ct, v.spec("np.shape(val)[-1] != nvdim", at=par[0])):
                conds = v.cfg.path_condition(par[0])
                under_iter = any(pol and v.eq(v.ev.term(c_, at=geom._if_stmt(v, c_)), v.spec("isinstance(val, collections.abc.Iterable)"))
                                 for c_, pol in conds)
                ok = under_iter
                det = f"refusal at line {r.lineno}, under the iterable branch: {under_iter}"
    chk.ob(f"{ov['Complex|Iterable'].qual}::component-count-refused", ok, "C02.D3", det, v.f, full)
    ok, det = v.guard("isinstance(val, numbers.Complex) and nvdim > 1 and val != 0", exc=("ValueError",), before=full)
    chk.ob(f"{ov['Complex|Iterable'].qual}::scalar-for-vector-refused", ok, "C02.D3", det, v.f, full)
    t = v.ev.term(full.value, at=full)
    c = decode_call(v.ctx, t)
    okf = bool(c and len(c[1]) >= 2 and is_sym(v.ctx, c[1][1], "param:val") and v.eq(c[1][0], v.spec("(*mesh.n, nvdim)")))
    chk.ob(f"{ov['Complex|Iterable'].qual}::full-of-val", okf, "C02.D3",
           f"returns {v.show(t)[:160]}; expected np.full((*mesh.n, nvdim), val, ...)", v.f, full)
    # the mesh-shaped shortcut applies only to scalar fields and arrays of exactly the mesh shape
    exp = [r for r in v.returns() if r.value is not None and r is not full]
    for i, r in enumerate(exp):
        conds = v.cfg.path_condition(r)
        good = any(pol and v.eq(v.ev.term(c_, at=geom._if_stmt(v, c_)), v.spec("nvdim == 1 and np.array_equal(np.shape(val), mesh.n)"))
                   for c_, pol in conds)
        chk.ob(f"{ov['Complex|Iterable'].qual}::shortcut#{i}::condition", good, "C02.D3",
               f"`{v.src(r)}` must be guarded by nvdim == 1 and shape(val) == mesh.n", v.f, r)


def d4_dictionary(chk, repo):
    chk.rule("C02.D4", "dictionary values: subregions are written in REVERSED listing order with unconditional overwrite (so the "
                       "first listed wins); each block is region2slices(submesh.region) filled from the value of the same key; "
                       "cells left at the NaN sentinel get the default (KeyError without one); a callable default is evaluated "
                       "at index2point(idx) and stored at tuple(idx), cell by cell")
    ov = cm.as_array_overloads(repo)
    v = FV(repo, ov["dict"].qual, param_types={"mesh": MESH})
    loops = [s for s in v.stmts() if isinstance(s, ast.For)]
    chk.require(len(loops) >= 2, "dict overload: expected the subregion loop and the default loop")
    sub_loop = loops[0]
    it = v.term(sub_loop.iter, at=sub_loop)
    want_it = v.spec("reversed(mesh.subregions.keys())")
    alt_it = v.spec("reversed(mesh.subregions)")
    alt2 = v.spec("reversed(list(mesh.subregions.keys()))")
    chk.ob(f"{ov['dict'].qual}::reversed-order", v.eq(it, want_it) or v.eq(it, alt_it) or v.eq(it, alt2), "C02.D4",
           f"subregions are visited as {v.show(it)}; with unconditional overwrite they must be visited in reversed listing order",
           v.f, sub_loop)
    stores = [s for s in walk_stmts(sub_loop.body) if isinstance(s, ast.Assign) and isinstance(s.targets[0], ast.Subscript)]
    ok = False
    det = "no block store in the subregion loop"
    if len(stores) == 1:
        st = stores[0]
        key = each(v, it)
        idx = v.ev._index(st.targets[0].slice, v.cfg.node(st), None)
        val = v.term(st.value, at=st)
        env = {"k": key}
        want_idx = v.spec("mesh.region2slices(mesh[k].region)", env=env)
        want_val = v.spec("self._as_array(val[k], mesh[k], nvdim, dtype)", env=env, at=st)
        ok = v.eq(idx, want_idx) and v.eq(val, want_val)
        det = f"array[{v.show(idx)[:120]}] = {v.show(val)[:200]}"
    chk.ob(f"{ov['dict'].qual}::block-store", ok, "C02.D4",
           f"{det}; expected array[mesh.region2slices(mesh[key].region)] = _as_array(val[key], mesh[key], nvdim, dtype)", v.f,
           stores[0] if stores else sub_loop)
    # missing keys are skipped (KeyError -> continue), nothing else is swallowed
    trys = [s for s in walk_stmts(sub_loop.body) if isinstance(s, ast.Try)]
    okt = len(trys) == 1 and len(trys[0].handlers) == 1 and trys[0].handlers[0].type is not None and \
        ast.unparse(trys[0].handlers[0].type) == "KeyError" and isinstance(trys[0].handlers[0].body[-1], ast.Continue)
    chk.ob(f"{ov['dict'].qual}::missing-key-skipped", okt, "C02.D4",
           "a subregion without an entry in the dictionary is skipped (only KeyError is caught)", v.f, sub_loop)
    # sentinel
    fills = [s for s in v.body if isinstance(s, ast.Assign) and (decode_call(v.ctx, v.term(s.value, at=s)) or ("",))[0] == "np.full"]
    chk.require(len(fills) == 1, "dict overload: expected one np.full")
    c = decode_call(v.ctx, v.term(fills[0].value, at=fills[0]))
    want_fill = v.spec("val['default'] if 'default' in val and (not callable(val['default'])) else np.nan")
    chk.ob(f"{ov['dict'].qual}::sentinel", len(c[1]) >= 2 and v.eq(c[1][1], want_fill) and v.eq(c[1][0], v.spec("(*mesh.n, nvdim)")),
           "C02.D4", f"initial fill {v.show(c[1][1]) if len(c[1]) > 1 else '?'}; expected the constant default, else NaN", v.f, fills[0])
    # KeyError when cells remain and no default
    ok = False
    for r, n in v.raises():
        if n != "KeyError":
            continue
        conds = v.cfg.path_condition(r)
        ts = [(v.ev.term(c_, at=geom._if_stmt(v, c_)), pol) for c_, pol in conds]
        has_nan = any(pol and (decode_call(v.ctx, t) or ("",))[0] == "np.any" for t, pol in ts)
        has_nodef = any(pol and v.eq(t, v.spec("'default' not in val")) for t, pol in ts)
        ok = ok or (has_nan and has_nodef)
    chk.ob(f"{ov['dict'].qual}::default-required", ok, "C02.D4",
           "cells not covered by any listed subregion without a 'default' entry must raise KeyError", v.f)
    # callable default, cell by cell
    dl = loops[-1]
    itd = v.term(dl.iter, at=dl)
    cd = decode_call(v.ctx, itd)
    ok_it = bool(cd and cd[0] == "np.argwhere" and (decode_call(v.ctx, cd[1][0]) or ("",))[0] == "np.isnan")
    dst = [s for s in walk_stmts(dl.body) if isinstance(s, ast.Assign) and isinstance(s.targets[0], ast.Subscript)]
    ok = False
    det = "no store in the default loop"
    if len(dst) == 1 and ok_it:
        st = dst[0]
        idx = v.ev._index(st.targets[0].slice, v.cfg.node(st), None)
        val = v.term(st.value, at=st)
        cell = each(v, itd)
        want_idx = v.ctx.mk(("call", "tuple", 1, ()), (cell,))
        want_val = v.spec("np.asarray(val['default'](mesh.index2point(c))).reshape(nvdim)", env={"c": cell})
        ok = v.eq(idx, want_idx) and v.eq(val, want_val)
        det = f"array[{v.show(idx)[:100]}] = {v.show(val)[:160]}"
    chk.ob(f"{ov['dict'].qual}::callable-default-cellwise", ok, "C02.D4",
           f"{det}; the default must be stored at tuple(idx) (an index ARRAY selects whole slabs along the first axis) and "
           "evaluated at index2point of the same idx", v.f, dst[0] if dst else dl)


def d5_callable(chk, repo):
    chk.rule("C02.D5", "function values: array[index] = val(point) with (index, point) drawn pairwise from "
                       "zip(mesh.indices, mesh), reshaped to nvdim")
    ov = cm.as_array_overloads(repo)
    v = FV(repo, ov["Callable"].qual, param_types={"mesh": MESH})
    loops = [s for s in v.stmts() if isinstance(s, ast.For)]
    chk.require(len(loops) == 1, "callable overload: expected one loop")
    lp = loops[0]
    it = v.term(lp.iter, at=lp)
    chk.ob(f"{ov['Callable'].qual}::paired-iteration", v.eq(it, v.spec("zip(mesh.indices, mesh)")), "C02.D5",
           f"iterates {v.show(it)}; expected zip(mesh.indices, mesh)", v.f, lp)
    sts = [s for s in walk_stmts(lp.body) if isinstance(s, ast.Assign) and isinstance(s.targets[0], ast.Subscript)]
    ok = False
    det = "no store"
    if len(sts) == 1:
        st = sts[0]
        idx = v.ev._index(st.targets[0].slice, v.cfg.node(st), None)
        val = v.term(st.value, at=st)
        i_ = each(v, v.spec("mesh.indices"))
        p_ = each(v, v.spec("mesh"))
        ok = v.eq(idx, i_) and v.eq(val, v.spec("np.asarray(val(p)).reshape(nvdim)", env={"p": p_}))
        det = f"array[{v.show(idx)}] = {v.show(val)[:120]}"
    chk.ob(f"{ov['Callable'].qual}::index-point-pairing", ok, "C02.D5",
           f"{det}; the store index must be the index and the call argument the centre of the same cell", v.f, sts[0] if sts else lp)


def d6_sampling(chk, repo):
    chk.rule("C02.D6", "sampling: field(point) == array[mesh.point2index(point)]; iteration yields field(point) over the mesh; "
                       "component access takes column vdims.index(name) of the last axis")
    v = FV(repo, "field.Field.__call__")
    r, t = _single_return(v)
    chk.ob("field.Field.__call__::definition", v.eq(t, v.spec("self.array[self.mesh.point2index(point)]")), "C02.D6",
           f"returns {v.show(t)}", v.f, r)
    v = FV(repo, "field.Field.__iter__")
    loops = [s for s in v.stmts() if isinstance(s, ast.For)]
    ok = False
    if len(loops) == 1:
        it = v.term(loops[0].iter, at=loops[0])
        ys = [s for s in walk_stmts(loops[0].body) if isinstance(s, ast.Expr) and isinstance(s.value, ast.Yield)]
        if len(ys) == 1:
            t = v.term(ys[0].value, at=ys[0])
            want = v.ctx.mk(("yield",), (v.spec("self(p)", env={"p": each(v, v.spec("self.mesh"))}),))
            ok = v.eq(it, v.spec("self.mesh")) and v.eq(t, want)
    chk.ob("field.Field.__iter__::mesh-order", ok, "C02.D6", "__iter__ must yield self(point) for point in self.mesh", v.f)
    v = FV(repo, "field.Field.__getattr__")
    for r, a in cm.returned_news(v):
        val = a.get("value")
        want = v.spec("self.array[..., self.vdims.index(attr), np.newaxis]")
        ok = val is not None and v.eq(val, want) and is_const(v.ctx, a.get("nvdim", v.ctx.const(0)), 1) and \
            v.eq(a.get("mesh"), v.spec("self.mesh"))
        chk.ob("field.Field.__getattr__::component-column", ok, "C02.D6",
               f"value={v.show(val)}; expected self.array[..., vdims.index(attr), newaxis] on self.mesh", v.f, r)
        okc = reached_iff(v, r, v.spec("self.vdims is not None and attr in self.vdims"))
        chk.ob("field.Field.__getattr__::only-for-labels", okc, "C02.D6",
               "component access must be limited to names in self.vdims", v.f, r)
    removed = v.spec("self._removed_attributes")
    for rs, name in v.raises():
        par = v.cfg.parent.get(id(rs))
        if par and isinstance(par[0], ast.If) and par[1] == "body":
            c = v.ev.term(par[0].test, at=par[0])
            if v.ctx.mentions(c, removed):
                chk.ob("field.Field.__getattr__::removed-names-only", v.eq(c, v.spec("attr in self._removed_attributes")), "C02.D6",
                       f"`{v.src(par[0].test)}` raises before component access; only names listed as removed may be refused here",
                       v.f, par[0])


def d7_line(chk, repo):
    chk.rule("C02.D7", "line sampling: Mesh.line yields p1 + i*(p2-p1)/(n-1), i in range(n), after refusing end points outside "
                       "the region; Field.line samples self(p) at exactly those points; Line measures r = |points - points[0]|")
    v = FV(repo, "mesh.Mesh.line")
    loops = [s for s in v.stmts() if isinstance(s, ast.For)]
    chk.require(len(loops) == 1, "Mesh.line: expected one loop")
    lp = loops[0]
    it = v.term(lp.iter, at=lp)
    ys = [s for s in walk_stmts(lp.body) if isinstance(s, ast.Expr) and isinstance(s.value, ast.Yield)]
    ok = False
    det = ""
    if len(ys) == 1:
        t = v.term(ys[0].value, at=ys[0])
        i_ = each(v, v.spec("range(n)"))
        inner = v.spec("p1 + i * (p2 - p1) / (n - 1)", env={"i": i_})
        want = v.ctx.mk(("yield",), (v.ctx.mk(("call", "dfu.array2tuple", 1, ()), (inner,)),))
        ok = v.eq(it, v.spec("range(n)")) and v.eq(t, want)
        det = v.show(t)[:200]
    chk.ob("mesh.Mesh.line::equidistant-points", ok, "C02.D7",
           f"yields {det} over {v.show(it)}; expected p1 + i*(p2-p1)/(n-1) for i in range(n)", v.f, lp)
    okg, detg = v.guard("p1 not in self.region or p2 not in self.region", exc=("ValueError",), before=lp)
    chk.ob("mesh.Mesh.line::outside-refused", okg, "C02.D7", detg, v.f)
    v = FV(repo, "field.Field.line")
    sites = [s for s in v.ctor_sites() if s.cls == "line.Line"]
    ok = False
    if len(sites) == 1:
        s = sites[0]
        pts = s.args.get("points")
        vals = s.args.get("values")
        want_pts = v.spec("list(self.mesh.line(p1=p1, p2=p2, n=n))")
        ok = pts is not None and v.eq(pts, want_pts) and vals is not None and \
            v.eq(vals, v.spec("[self(p) for p in P]", env={"P": want_pts})) and \
            v.eq(s.args.get("point_columns"), v.spec("self.mesh.region.dims"))
    chk.ob("field.Field.line::samples-at-line-points", ok, "C02.D7",
           "Field.line must evaluate self(p) at exactly the points of self.mesh.line(p1, p2, n), in order", v.f)
    v = FV(repo, "line.Line.__init__")
    ok = False
    for st in v.stmts():
        if isinstance(st, ast.Assign) and isinstance(st.targets[0], ast.Subscript):
            idx = v.ev._index(st.targets[0].slice, v.cfg.node(st), None)
            if is_str(v.ctx, idx, "r"):
                t = v.term(st.value, at=st)
                ok = v.eq(t, v.spec("np.linalg.norm(points - points[0, :], axis=1)", at=st))
    chk.ob("line.Line.__init__::distance-from-first-point", ok, "C02.D7",
           "the r column must be the Euclidean distance of every point from the first one", v.f)


def d8_source_field(chk, repo):
    chk.rule("C02.D8", "field values: the target region must lie in the source region (ValueError); every target cell centre is "
                       "looked up by nearest-cell selection along every dimension")
    ov = cm.as_array_overloads(repo)
    v = FV(repo, ov["Field"].qual, param_types={"mesh": MESH})
    rets = [r for r in v.returns() if r.value is not None]
    chk.require(rets, "Field overload: no return")
    ok, det = v.guard("mesh.region not in val.mesh.region", exc=("ValueError",), before=rets)
    chk.ob(f"{ov['Field'].qual}::containment-refused", ok, "C02.D8", det, v.f)
    want = v.spec("val.to_xarray().sel(**{dim: getattr(mesh.cells, dim) for dim in mesh.region.dims}, method='nearest').data")
    for i, r in enumerate(rets):
        t = v.ev.term(r.value, at=r)
        conds = v.cfg.path_condition(r)
        if any(pol for c_, pol in conds):
            want_r = v.spec("W.reshape(*mesh.n, -1)", env={"W": want})
        else:
            want_r = want
        chk.ob(f"{ov['Field'].qual}::return#{i}::nearest-lookup", v.eq(t, want_r), "C02.D8",
               f"returns {v.show(t)[:200]}; expected the source's xarray selected at mesh.cells.<dim> for every dim with "
               "method='nearest'", v.f, r)


def d9_dtype_and_line(chk, repo):
    from ..lib import simple_assigns, find_assign
    chk.rule("C02.D9", "dtype and line details: every allocation in _as_array uses the requested dtype (falling back to at least "
                       "float64 only when none is given); the setters forward self.dtype; the source-field overload reshapes only "
                       "for scalar targets; the default loop looks at component 0 of the sentinel; Line pairs point i with value i, "
                       "column i with coordinate i")
    ov = cm.as_array_overloads(repo)
    v = FV(repo, ov["Complex|Iterable"].qual, param_types={"mesh": MESH})
    fb = find_assign(v, lambda t_, s_: isinstance(s_.value, ast.BoolOp))
    ok = False
    if fb:
        st = fb[0]
        ok = isinstance(st.value.op, ast.Or) and isinstance(st.value.values[0], ast.Name) and st.value.values[0].id == "dtype" and \
            v.eq(v.term(st.value.values[1], at=st), v.spec("max(np.asarray(val).dtype, np.float64)"))
    chk.ob(f"{ov['Complex|Iterable'].qual}::default-dtype", ok, "C02.D9",
           "without a requested dtype the array is at least float64: dtype = dtype or max(asarray(val).dtype, float64)", v.f,
           fb[0] if fb else None)
    for key, alloc in (("Complex|Iterable", ("np.full", "np.array")), ("Callable", ("np.empty",)), ("dict", ("np.full",))):
        w = FV(repo, ov[key].qual, param_types={"mesh": MESH})
        n_ = 0
        for call, st in w.calls():
            fn = ast.unparse(call.func)
            if fn in alloc:
                n_ += 1
                kw = {k.arg: k.value for k in call.keywords if k.arg}
                okk = "dtype" in kw and isinstance(kw["dtype"], ast.Name) and kw["dtype"].id == "dtype"
                chk.ob(f"{ov[key].qual}::{fn}#{n_}::uses-requested-dtype", okk, "C02.D9",
                       f"`{w.src(call)[:80]}` must allocate with dtype=dtype", w.f, call)
        chk.require(n_ >= 1, f"{ov[key].qual}: no allocation found")
    d = FV(repo, ov["dict"].qual, param_types={"mesh": MESH})
    fd = find_assign(d, lambda t_, s_: isinstance(s_.value, ast.BoolOp) and isinstance(s_.targets[0], ast.Name) and s_.targets[0].id == "dtype")
    chk.ob(f"{ov['dict'].qual}::default-dtype", fd is not None and isinstance(fd[0].value.op, ast.Or) and
           ast.unparse(fd[0].value.values[0]) == "dtype" and d.eq(d.term(fd[0].value.values[1], at=fd[0]), d.spec("np.float64")),
           "C02.D9", "dictionary values default to float64 when no dtype is requested", d.f)
    loops = [s for s in d.stmts() if isinstance(s, ast.For)]
    it = d.term(loops[-1].iter, at=loops[-1])
    c = decode_call(d.ctx, it)
    ok = False
    if c and c[0] == "np.argwhere":
        inner = decode_call(d.ctx, c[1][0])
        if inner and inner[0] == "np.isnan":
            h = d.ctx.head_of(inner[1][0])
            ok = bool(h and h[0] == "sub" and d.eq(d.ctx.args_of(inner[1][0])[1], d.spec("(..., 0)")))
    chk.ob(f"{ov['dict'].qual}::sentinel-cells", ok, "C02.D9",
           "the cells still to be filled are np.argwhere(np.isnan(array[..., 0])) (index rows of the spatial axes)", d.f, loops[-1])
    f = FV(repo, ov["Field"].qual, param_types={"mesh": MESH})
    conds = [s for s in f.body if isinstance(s, ast.If) and s.body and isinstance(s.body[-1], ast.Return)]
    ok = any(f.eq(f.ev.term(s.test, at=s), f.spec("nvdim == 1")) and
             (decode_call(f.ctx, f.ev.term(s.body[-1].value, at=s.body[-1])) or ("",))[0] == ".reshape" and
             f.eq(decode_call(f.ctx, f.ev.term(s.body[-1].value, at=s.body[-1]))[1][2], f.ctx.const(-1)) for s in conds)
    chk.ob(f"{ov['Field'].qual}::scalar-reshape", ok, "C02.D9",
           "only for nvdim == 1 the looked-up values are reshaped to (*mesh.n, -1)", f.f)
    a = FV(repo, "field.Field.array.setter")
    st = [s for s in a.self_stores() if s[1] == "_array"][0]
    c = decode_call(a.ctx, a.term(st[2], at=st[0]))
    chk.ob("field.Field.array.setter::forwards-dtype", bool(c and "dtype" in c[2] and a.eq(c[2]["dtype"], a.spec("self.dtype"))),
           "C02.D9", "the array setter must convert with dtype=self.dtype", a.f, st[0])
    g = FV(repo, "field.Field.__getattr__")
    for r, x in cm.returned_news(g):
        ok = g.eq(x.get("unit"), g.spec("self.unit"))
        vm = x.get("vdim_mapping")
        mem = phi_members(g.ctx, vm) if vm is not None else []
        okm = any(g.eq(m, g.spec("{attr: self.vdim_mapping[attr]}")) for m in mem) and \
            any((g.ctx.head_of(m) or ("",))[0] == "dict" and not g.ctx.args_of(m) for m in mem)
        chk.ob("field.Field.__getattr__::component-metadata", ok and okm, "C02.D9",
               "a component keeps the field's unit and its own entry of the axis mapping ({} when it has none)", g.f, r)
    # Field.line value columns
    l = FV(repo, "field.Field.line")
    sites = [s for s in l.ctor_sites() if s.cls == "line.Line"]
    okv = False
    if sites:
        okv = l.eq(sites[0].args.get("value_columns"), l.spec("[f'v{dim}' for dim in self.vdims] if self.vdims is not None else 'v'"))
    chk.ob("field.Field.line::value-columns", okv, "C02.D9", "value columns are v<label> per component, 'v' for unlabelled fields", l.f)
    # Line.__init__
    L = FV(repo, "line.Line.__init__")
    okg, det = L.guard("len(points) != len(values)", exc=("ValueError",))
    chk.ob("line.Line.__init__::same-number-of-points-and-values", okg, "C02.D9", det, L.f)
    pts = find_assign(L, lambda t_, s_: isinstance(s_.targets[0], ast.Name) and s_.targets[0].id == "points")
    vals = find_assign(L, lambda t_, s_: (decode_call(L.ctx, t_) or ("",))[0] == ".reshape" and
                       L.ctx.mentions(decode_call(L.ctx, t_)[1][0], L.spec("values")))
    # the points as an array of rank 2, one row per point: points of a one-dimensional mesh are plain numbers (array2tuple
    # collapses one-element arrays), so without the reshape `points[0, :]` and `points[..., i]` fail for 1-d meshes
    P = pts[2] if pts is not None else L.spec("np.array(points)")
    okp2 = pts is not None and any(L.eq(P, L.spec(t_)) for t_ in (
        "np.array(points).reshape((len(points), -1))", "np.array(points).reshape(len(points), -1)",
        "np.asarray(points).reshape((len(points), -1))", "np.reshape(np.array(points), (len(points), -1))"))
    chk.ob("line.Line.__init__::points-one-row-each", okp2, "C02.D9",
           f"points are used as {L.show(P)[:120]}; they must be reshaped to (number of points, -1) as the values are: a "
           "one-dimensional mesh yields plain numbers and `points[0, :]` raises IndexError", L.f, pts[0] if pts else None)
    okr = vals is not None and (L.eq(vals[2], L.spec("np.array(values).reshape((P.shape[0], -1))", env={"P": P})) or
                                L.eq(vals[2], L.spec("np.array(values).reshape((len(points), -1))")))
    chk.ob("line.Line.__init__::one-row-per-point", okr, "C02.D9",
           "values must be reshaped to (number of points, -1): row i belongs to point i", L.f, vals[0] if vals else None)
    loops = [s for s in L.stmts() if isinstance(s, ast.For)]
    okp = okc = False
    for lp in loops:
        it = L.term(lp.iter, at=lp)
        sts = [s for s in lp.body if isinstance(s, ast.Assign) and isinstance(s.targets[0], ast.Subscript)]
        if len(sts) != 1:
            continue
        idx = L.ev._index(sts[0].targets[0].slice, L.cfg.node(sts[0]), None)
        val = L.term(sts[0].value, at=sts[0])
        if L.eq(it, L.spec("enumerate(point_columns)")):
            i_ = L.ctx.mk(("index",), (L.spec("point_columns"),))
            c_ = L.ctx.mk(("iter", ()), (L.spec("point_columns"),))
            okp = L.eq(idx, c_) and L.eq(val, L.spec("P[..., i]", env={"i": i_, "P": P}))
        elif (decode_call(L.ctx, it) or ("",))[0] == "zip" and vals is not None:
            zc = decode_call(L.ctx, it)
            i_ = L.ctx.mk(("iter", ()), (zc[1][0],))
            c_ = L.ctx.mk(("iter", ()), (zc[1][1],))
            okc = L.eq(zc[1][0], L.spec("range(V.shape[-1])", env={"V": vals[2]})) and L.eq(zc[1][1], L.spec("value_columns")) and \
                L.eq(idx, c_) and L.eq(val, L.spec("V[..., i]", env={"V": vals[2], "i": i_}))
    chk.ob("line.Line.__init__::point-columns", okp, "C02.D9", "column k of the points goes under point_columns[k]", L.f)
    chk.ob("line.Line.__init__::value-columns", okc, "C02.D9", "column k of the values goes under value_columns[k]", L.f)
