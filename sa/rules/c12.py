"""C12 - quarter-turn rotations move values, vectors, validity and geometry together."""
import ast

from ..model import AnalysisError
from ..lib import (FV, Alias, alias_term, decode_new, decode_call, phi_members, is_sym, is_const, strip_stores, stores_of)
from ..lib import (reached_iff, reached_implies, implies_reached, reached_iff_any, path_term, cond_equiv, cond_implies,  # noqa: F401
                   else_stmts, branch_stmts, context_literals)
from ..cfg import always_raises, walk_stmts
from . import common as cm
from . import geom
from .common import FIELD, MESH, REGION

FLOOR = 60
ANCHORS = [
    'region.Region.rotate90',
    'mesh.Mesh.rotate90',
    'field.Field.rotate90',
]   # functions whose code the property is anchored in (mutation analysis, evidence)
ROT = ["region.Region.rotate90", "mesh.Mesh.rotate90", "field.Field.rotate90"]

AUTOMUT_TRIAGE = [
    (r"Field\.rotate90$", r"drop keyword inplace=", "equivalent: inplace=False is Mesh.rotate90's default"),
]


def run(chk):
    repo = chk.repo
    cm.schema(chk, repo, "C12")
    d1_region_sense(chk, repo)
    d1_field_sense(chk, repo)
    d2_units(chk, repo)
    chk.rule("C12.D3-D5", "mesh: cell counts swap iff k odd, subregions rotate about the mesh's reference, bc kept; field: "
                          "labels, mapping, dtype, unit kept; in-place == copy for region, mesh and field (sibling rules)")
    geom.region_siblings(chk, "C12", only=["region.Region.rotate90"])
    geom.region_inplace_corners(chk, "C12", "region.Region.rotate90")
    geom.mesh_siblings(chk, "C12", only=["mesh.Mesh.rotate90"])
    geom.field_rotate_siblings(chk, "C12")
    d6_refusal(chk, repo)
    geom.refusal_table(chk, "C12", quals=["region.Region.rotate90"])
    geom.defaults_table(chk, "C12", quals=["region.Region.rotate90"])
    from .c07 import corner_copies_hold_floats
    corner_copies_hold_floats(chk, repo, "C12", ["region.Region.rotate90"], floor=4)
    chk.trust("np.rot90(m, k, axes=(a, b)) rotates by k quarter turns from axis a towards axis b (numpy reference)")
    chk.trust("np.dot of a 2x2 matrix with a 2-vector is the matrix-vector product")
    chk.assume("g(R+Q(p-R)) = Q f(p) numerically, k versus k mod 4, and exactness of cos(k*pi/2) are not decided")


def _theta_matrix(v, at):
    return v.spec("[[np.cos(k * np.pi / 2), -np.sin(k * np.pi / 2)], [np.sin(k * np.pi / 2), np.cos(k * np.pi / 2)]]", at=at)


def d1_region_sense(chk, repo):
    chk.rule("C12.D1", "one rotation sense: the region rotates the (ax1, ax2) coordinates of both corners about the "
                       "reference with [[cos t, -sin t], [sin t, cos t]], t = k*pi/2, and only those two coordinates; the "
                       "field mixes the two mapped components with the same matrix and rotates data and validity with "
                       "np.rot90(k, axes=(idx1, idx2))")
    v = FV(repo, "region.Region.rotate90")
    news = cm.returned_news(v, cls=REGION)
    chk.require(news, "Region.rotate90: copy form vanished")
    r, a = news[0]
    M = _theta_matrix(v, r)
    i1 = v.spec("self._dim2index(ax1)")
    i2 = v.spec("self._dim2index(ax2)")
    R = v.ev.term(ast.Name(id="reference_point", ctx=ast.Load()), at=r)
    refs = phi_members(v.ctx, R)
    okr = any(v.eq(m, v.spec("self.center")) for m in refs) and any(is_sym(v.ctx, m, "param:reference_point") for m in refs) \
        and len(refs) == 2
    chk.ob("region.Region.rotate90::reference", okr, "C12.D1",
           f"reference values: {[v.show(m) for m in refs]}; must be the caller's point or the region's centre", v.f, r)
    for kw, corner in (("p1", "self.pmin"), ("p2", "self.pmax")):
        got = a.get(kw)
        C = v.spec(corner)
        env = {"M": M, "C": C, "R": R, "i1": i1, "i2": i2}
        rot = v.spec("np.dot(M, [C[i1] - R[i1], C[i2] - R[i2]])", env=env)
        e1 = v.spec("R[i1] + rot[0]", env=dict(env, rot=rot))
        e2 = v.spec("R[i2] + rot[1]", env=dict(env, rot=rot))
        want = v.ctx.mk(("store",), (v.ctx.mk(("store",), (C, i1, e1)), i2, e2))
        ok = got is not None and v.eq(got, want)
        if not ok and got is not None:
            # order of the two element stores is irrelevant (distinct indices)
            want2 = v.ctx.mk(("store",), (v.ctx.mk(("store",), (C, i2, e2)), i1, e1))
            ok = v.eq(got, want2)
        chk.ob(f"region.Region.rotate90::corner::{kw}", ok, "C12.D1",
               f"{kw}={v.show(got)[:260]}; expected {corner} with entries idx1, idx2 replaced by "
               "R + [[cos,-sin],[sin,cos]](k*pi/2) . (corner - R) in the (ax1, ax2) order", v.f, r)


def d1_field_sense(chk, repo):
    v = FV(repo, "field.Field.rotate90")
    news = cm.returned_news(v, cls=FIELD)
    chk.require(news, "Field.rotate90: copy form vanished")
    r, a = news[0]
    val, vld = a.get("value"), a.get("valid")
    bases = strip_stores(v.ctx, val) if val is not None else []
    idx1 = v.spec("self.mesh.region._dim2index(ax1)")
    idx2 = v.spec("self.mesh.region._dim2index(ax2)")
    wantb = v.spec("np.rot90(self.array, k=k, axes=(i1, i2))", env={"i1": idx1, "i2": idx2})
    okb = len(bases) == 1 and v.eq(bases[0], wantb)
    chk.ob("field.Field.rotate90::data-rot90", okb, "C12.D1",
           f"data={[v.show(b)[:160] for b in bases]}; expected np.rot90(self.array, k=k, axes=(idx(ax1), idx(ax2)))", v.f, r)
    wantv = v.spec("np.rot90(self.valid, k=k, axes=(i1, i2))", env={"i1": idx1, "i2": idx2})
    vb = strip_stores(v.ctx, vld) if vld is not None else []
    chk.ob("field.Field.rotate90::valid-rot90", len(vb) == 1 and v.eq(vb[0], wantv) and not stores_of(v.ctx, vld), "C12.D1",
           f"valid={v.show(vld)[:160]}; expected np.rot90(self.valid, k=k, axes=(idx(ax1), idx(ax2))) unmodified", v.f, r)
    # component mixing
    sts = stores_of(v.ctx, val) if val is not None else []
    B = bases[0] if bases else v.ctx.const(0)
    v1 = v.spec("self.vdims.index(self._r_dim_mapping[ax1])")
    v2 = v.spec("self.vdims.index(self._r_dim_mapping[ax2])")
    env = {"B": B, "v1": v1, "v2": v2}
    ix1 = v.spec("(..., v1)", env=env)
    ix2 = v.spec("(..., v2)", env=env)
    got = {}
    for i, x in sts:
        if v.eq(i, ix1):
            got[1] = x
        elif v.eq(i, ix2):
            got[2] = x
        else:
            got["other"] = x
    ok = exact = False
    for rnd in ("round", "np.round", "np.rint", ""):
        e2 = dict(env, C=v.spec(f"{rnd}(np.cos(k * np.pi / 2))"), S=v.spec(f"{rnd}(np.sin(k * np.pi / 2))"))
        w1 = v.spec("C * B[..., v1] - S * B[..., v2]", env=e2)
        w2 = v.spec("S * B[..., v1] + C * B[..., v2]", env=e2)
        if len(sts) == 2 and 1 in got and 2 in got and v.eq(got[1], w1) and v.eq(got[2], w2):
            ok = True
            exact = rnd != ""
    chk.ob("field.Field.rotate90::component-mixing", ok, "C12.D1",
           "the components mapped to ax1/ax2 (through _r_dim_mapping) must become cos*v1 - sin*v2 and sin*v1 + cos*v2 of the "
           f"rotated array's OLD components; found {[(v.show(i)[:70], v.show(x)[:200]) for i, x in sts]}", v.f, r)
    chk.ob("field.Field.rotate90::mixing-coefficients-exact", ok and exact, "C12.D1",
           "Q must be the EXACT quarter-turn matrix: cos(k*pi/2) and sin(k*pi/2) have to be rounded to -1, 0, 1 before they "
           "multiply the components - the result is cast to the field's dtype (dtype=self.dtype), so 6e-17 instead of 0 "
           "truncates integer-typed fields ((5,3,1) -> (-2,5,1))", v.f, r)
    # mixing only for vector fields
    mix_stmts = [s for s in v.stmts() if isinstance(s, ast.Assign) and isinstance(s.targets[0], ast.Subscript)
                 and isinstance(s.targets[0].value, ast.Name)]
    okc = bool(mix_stmts)
    for s in mix_stmts:
        conds = v.cfg.path_condition(s)
        okc = okc and any(pol and v.eq(v.ev.term(c, at=geom_if(v, c)), v.spec("self.nvdim > 1")) for c, pol in conds)
    chk.ob("field.Field.rotate90::mixing-only-for-vectors", okc, "C12.D1",
           "component mixing must run exactly for nvdim > 1 (scalars are unchanged)", v.f, mix_stmts[0] if mix_stmts else None)
    # snapshot rule: the operands of the mixing stores must not be views of the array being overwritten
    al = Alias(repo, allocs=True)
    bad = []
    for s in mix_stmts:
        tb = alias_term(v, s.targets[0].value, at=s)
        rb = al.roots(v.ctx, tb)
        for n in ast.walk(s.value):
            if isinstance(n, ast.Name) and isinstance(n.ctx, ast.Load) and n.id != s.targets[0].value.id \
                    and n.id in v.ev._local_names:
                rn = al.roots(v.ctx, alias_term(v, n, at=s))
                if rn & rb:
                    bad.append((s, n.id))
    chk.ob("field.Field.rotate90::mixing-operands-are-snapshots", not bad, "C12.D1",
           "; ".join(f"`{v.src(s)}` reads {n}, a view of the array it overwrites: the second component would be computed "
                     "from the already rotated first one" for s, n in bad) or "operands are copies", v.f,
           bad[0][0] if bad else None)


def geom_if(v, testexpr):
    for st in v.stmts():
        if isinstance(st, (ast.If, ast.While)) and st.test is testexpr:
            return st
    raise AnalysisError("internal: test without statement")


def d2_units(chk, repo):
    chk.rule("C12.D2", "units of the two rotated axes swap exactly for odd k; dimension names and tolerance stay")
    v = FV(repo, "region.Region.rotate90")
    r, a = cm.returned_news(v, cls=REGION)[0]
    u = a.get("units")
    mem = phi_members(v.ctx, u) if u is not None else []
    base = v.spec("self.units")
    swapped = [m for m in mem if not v.eq(m, base)]
    ok = any(v.eq(m, base) for m in mem) and len(swapped) == 1
    if ok:
        i1 = v.spec("self._dim2index(ax1)")
        i2 = v.spec("self._dim2index(ax2)")
        sts = stores_of(v.ctx, swapped[0])
        got = set()
        for idx, val in sts:
            hv = v.ctx.head_of(val)
            if hv and hv[0] == "sub":
                b, j = v.ctx.args_of(val)
                if v.eq(b, base):
                    if v.eq(idx, i1) and v.eq(j, i2):
                        got.add((1, 2))
                    if v.eq(idx, i2) and v.eq(j, i1):
                        got.add((2, 1))
        ok = got == {(1, 2), (2, 1)} and len(sts) == 2
    chk.ob("region.Region.rotate90::units-swap", ok, "C12.D2",
           f"units={v.show(u)[:220]}: entries at idx1/idx2 must be exchanged (from the old values), nothing else", v.f, r)
    cond_ok = False
    for st in v.stmts():
        if isinstance(st, ast.If):
            ct = v.ev.term(st.test, at=st)
            if v.eq(ct, v.spec("k % 2 == 1", at=st)) or v.eq(ct, v.spec("k % 2 != 0", at=st)):
                for s2 in walk_stmts(st.body):
                    if isinstance(s2, ast.Assign) and any(isinstance(t_, ast.Subscript) for t_ in geom._flat(s2.targets[0])):
                        cond_ok = True
    chk.ob("region.Region.rotate90::units-swap-iff-odd", cond_ok, "C12.D2", "units swap exactly when k is odd", v.f, r)


def d6_refusal(chk, repo):
    chk.rule("C12.D6", "malformed arguments and a missing component-to-axis mapping are refused before anything is modified")
    v = FV(repo, "region.Region.rotate90")
    ifst = geom.inplace_if(v)
    first_store = [s for s, a_, val, k in v.self_stores()][0]
    for cond, exc, key in (("ax1 == ax2", ("ValueError",), "distinct-axes"),
                           ("not isinstance(k, int)", ("TypeError",), "integer-k"),
                           ("len(reference_point) != self.ndim", ("ValueError",), "reference-length")):
        ok, det = guard_any(v, cond, exc, first_store)
        chk.ob(f"region.Region.rotate90::refuses::{key}", ok, "C12.D6", det, v.f)
    v = FV(repo, "field.Field.rotate90")
    ok = False
    for st in v.stmts():
        if isinstance(st, ast.Try):
            body_src = " ".join(ast.unparse(s) for s in st.body)
            for h in st.handlers:
                names = ast.unparse(h.type) if h.type is not None else ""
                if "ValueError" in names and any(isinstance(s, ast.Raise) and s.exc is not None and
                                                 "RuntimeError" in ast.unparse(s.exc) for s in h.body):
                    t1 = [v.term(s.value, at=s) for s in st.body if isinstance(s, ast.Assign)]
                    want1 = v.spec("self.vdims.index(self._r_dim_mapping[ax1])")
                    want2 = v.spec("self.vdims.index(self._r_dim_mapping[ax2])")
                    ok = any(v.eq(t, want1) for t in t1) and any(v.eq(t, want2) for t in t1)
    chk.ob("field.Field.rotate90::refuses::missing-mapping", ok, "C12.D6",
           "looking up the components mapped to ax1 and ax2 must turn a failed lookup into a RuntimeError", v.f)
    for q in ROT:
        w = FV(repo, q)
        muts = [s for s, a_, val, k in w.self_stores()]
        for call, st in w.calls():
            c = decode_call(w.ctx, w.term(call, at=st))
            if c and c[0].split(".")[-1] == "rotate90" and geom._inplace_flag(w, c) in ("true", "flag"):
                muts.append(st)
            if isinstance(call.func, ast.Attribute) and call.func.attr == "update_field_values":
                muts.append(st)
        bad = [(m, r_, n) for r_, n in w.raises() for m in muts if w.cfg.reachable(w.cfg.node(m), w.cfg.node(r_))]
        chk.ob(f"{q}::no-raise-after-mutation", not bad, "C12.D6",
               "; ".join(f"`raise {n}` (line {r_.lineno}) can follow `{w.src(m)[:60]}` (line {m.lineno})" for m, r_, n in bad[:2])
               or "every refusal precedes every mutation", w.f, bad[0][1] if bad else None)


def guard_any(v, cond, exc, before):
    """guard() that tolerates the guard sitting in an elif chain whose earlier branches do not raise"""
    ok, det = v.guard(cond, exc=exc, before=before)
    if ok:
        return ok, det
    # elif-chain form: the refusal applies whenever its branch is taken; accept if the test is on every path that
    # does not take an earlier, non-raising alternative (e.g. `if ref is None: ref = centre  elif ...: raise`)
    for r, name in v.raises():
        if name not in exc:
            continue
        par = v.cfg.parent.get(id(r))
        if par and isinstance(par[0], ast.If) and par[1] == "body" and always_raises(par[0].body):
            try:
                same = v.eq(v.ev.term(par[0].test, at=par[0]), v.spec(cond, at=par[0]))
            except AnalysisError:
                same = False
            if same and v.cfg.reachable(v.cfg.node(par[0]), v.cfg.node(before)):
                return True, f"raise {name} under `{v.src(par[0].test)}` precedes the effect (in an alternative chain)"
    return False, det
