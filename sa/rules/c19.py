"""C19 - topological and demagnetisation tools obey their physical invariances."""
import ast

from ..model import AnalysisError
from ..lib import (FV, decode_new, decode_call, phi_members, is_sym, is_const, is_str, strip_stores, stores_of,
                   find_assign, find_assigns, simple_assigns, local_term, cond_equiv, cond_implies, path_term)
from ..lib import full_term  # noqa: F401
from ..lib import (reached_iff, reached_implies, implies_reached, reached_iff_any, path_term, cond_equiv, cond_implies,  # noqa: F401
                   else_stmts, branch_stmts, context_literals)
from ..cfg import always_raises, walk_stmts
from ..terms import r_neg, r_mul, r_div, r_sub, r_add
from . import common as cm
from . import geom
from .common import FIELD, MESH, REGION
from .c01 import each, _single_return

FLOOR = 45
CLOSURE_ROOTS = ['field.Field.rotate90', 'field.Field.orientation']   # the statement speaks about quarter-turn rotations of the sample and about unit vectors (sa/shared.py)
ANCHORS = [
    'tools.tools.topological_charge_density',
    'tools.tools.topological_charge',
    'tools.tools.emergent_magnetic_field',
    'tools.tools.neighbouring_cell_angle',
    'tools.tools.count_bps',
    'tools.tools._demag_tensor_field_based',
    'tools.tools.demag_tensor',
    'tools.tools.demag_field',
    'tools.tools._N_element',
    'tools.tools._N',
    'util.util.bergluescher_angle',
]   # functions whose code the property is anchored in (mutation analysis, evidence)
T = "tools.tools."
PT = {"field": FIELD, "mesh": MESH, "m": FIELD, "tensor": FIELD}

AUTOMUT_TRIAGE = [
    (r"count_bps$", r"pattern|for q_val in", "the run-length pattern string is auxiliary output; the statement speaks of the Bloch-point counts "
     "(bp_number, head-to-head, tail-to-tail), which are checked (C19.D5)"),
]


def run(chk):
    repo = chk.repo
    cm.schema(chk, repo, "C19")
    d1_refusals(chk, repo)
    d2_orientation_only(chk, repo)
    d3_tables(chk, repo)
    d4_neighbour_angle(chk, repo)
    d5_bloch_points(chk, repo)
    d6_demag(chk, repo)
    d7_completions(chk, repo)
    d8_newell(chk, repo)
    d9_max_angle(chk, repo)
    chk.trust("np.einsum('...j,...j->...') is the per-cell dot product; np.arccos o np.clip[-1,1] lies in [0, pi]; "
              "itertools.product([0,1], repeat=6) enumerates the 64 corner combinations")
    chk.assume("integer charges, invariance under vector rotation, trace -1 of the Fourier-space tensor, agreement of the two "
               "tensor implementations (they share _N) and the -|M| sum rule are numerical and not decided")


# ------------------------------------------------------------------ D1
def d1_refusals(chk, repo):
    chk.rule("C19.D1", "every tool refuses fields of the wrong component or spatial dimension (and unknown method / direction / "
                       "units) before it computes anything")
    n_raise = sum(1 for q, f in repo.funcs.items() if q.startswith(T) and f.parent is None
                  for x in ast.walk(f.node) if isinstance(x, ast.Raise))
    chk.require(n_raise >= 13, f"tools.py: only {n_raise} raise statements (13 confirmed by reading)")
    table = {
        "topological_charge_density": [("field.nvdim != 3", "ValueError"), ("field.mesh.region.ndim != 2", "ValueError")],
        "topological_charge": [("field.nvdim != 3", "ValueError"), ("field.mesh.region.ndim != 2", "ValueError")],
        "emergent_magnetic_field": [("field.nvdim != 3", "ValueError"), ("field.mesh.region.ndim != 3", "ValueError")],
        "neighbouring_cell_angle": [("not field.nvdim == 3", "ValueError"), ("direction not in field.mesh.region.dims", "ValueError"),
                                    ("units not in ['rad', 'deg']", "ValueError")],
        "count_bps": [("field.mesh.region.ndim != 3", "ValueError"), ("field.nvdim != 3", "ValueError"),
                      ("direction not in field.mesh.region.dims", "ValueError")],
    }
    for fn, guards in table.items():
        v = FV(repo, T + fn, param_types=PT)
        first = [s for s in v.body if not (isinstance(s, ast.If) and _all_raise(s))]
        chk.require(first, f"{fn}: no computation")
        for cond, exc in guards:
            ok, det = guard_chain(v, cond, (exc,), first[0])
            chk.ob(f"{T}{fn}::refuses::{cond}", ok, "C19.D1", det, v.f)
    v = FV(repo, T + "topological_charge_density", param_types=PT)
    has_else = any(n == "ValueError" and "method" in ast.unparse(r) for r, n in v.raises())
    chk.ob(T + "topological_charge_density::unknown-method-refused", has_else, "C19.D1",
           "methods other than 'continuous' / 'berg-luescher' must raise ValueError", v.f)


def _all_raise(ifst):
    cur = ifst
    while True:
        if not always_raises(cur.body):
            return False
        if not cur.orelse:
            return True
        if len(cur.orelse) == 1 and isinstance(cur.orelse[0], ast.If):
            cur = cur.orelse[0]
            continue
        return always_raises(cur.orelse)


def guard_chain(v, cond_text, exc, before):
    """guard in an if/elif chain whose every alternative raises (so each test is reached unless an earlier one refused)"""
    ok, det = v.guard(cond_text, exc=exc, before=before)
    if ok:
        return ok, det
    for r, name in v.raises():
        if name not in exc:
            continue
        par = v.cfg.parent.get(id(r))
        if par and isinstance(par[0], ast.If) and par[1] == "body" and always_raises(par[0].body):
            try:
                same = v.eq(v.ev.term(par[0].test, at=par[0]), v.spec(cond_text, at=par[0]))
            except AnalysisError:
                same = False
            if not same:
                continue
            # walk up the elif chain: all earlier alternatives must raise as well
            cur = par[0]
            good = True
            while True:
                pp = v.cfg.parent.get(id(cur))
                if pp and isinstance(pp[0], ast.If) and pp[1] == "orelse":
                    if not always_raises(pp[0].body):
                        good = False
                    cur = pp[0]
                else:
                    break
            if good and v.cfg.dominates(v.cfg.node(cur), v.cfg.node(before)):
                return True, f"raise {name} under `{cond_text}` in a chain of refusals before the computation"
    return False, det


# ------------------------------------------------------------------ D2
def d2_orientation_only(chk, repo):
    chk.rule("C19.D2", "scale invariance by construction: both charge-density methods read field data only through "
                       "field.orientation; geometry enters only through mesh.cell / mesh.n / dims")
    v = FV(repo, T + "topological_charge_density", param_types=PT)
    fld = v.spec("field")
    of = v.spec("field.orientation")
    bad = []
    for st in v.stmts():
        if isinstance(st, (ast.If,)) and always_raises(st.body):
            continue
        exprs = []
        if isinstance(st, ast.If):
            exprs = [st.test]
        elif isinstance(st, ast.For):
            exprs = [st.iter]
        elif isinstance(st, (ast.Assign, ast.AugAssign, ast.Return, ast.Expr)):
            exprs = [st.value] + ([st.targets[0]] if isinstance(st, ast.Assign) else [])
        for e in exprs:
            if e is None:
                continue
            for n in ast.walk(e):
                if isinstance(n, ast.Attribute) and n.attr in ("array", "valid", "diff", "dot", "cross", "norm", "x", "y", "z"):
                    try:
                        recv = v.term(n.value, at=st)
                    except AnalysisError:
                        continue
                    if v.eq(recv, fld):
                        bad.append(f"line {n.lineno}: field.{n.attr}")
    chk.ob(T + "topological_charge_density::data-through-orientation", not bad, "C19.D2",
           f"field data read without normalisation: {bad}" if bad else "all data reads go through field.orientation", v.f)


# ------------------------------------------------------------------ D3
def d3_tables(chk, repo):
    chk.rule("C19.D3", "orientation tables: continuous density n.(d0 n x d1 n)/4pi with the mesh's first and second dim; lattice "
                       "method's neighbours +x,+y,-x,-y with bounds and validity tests and the four triangles (v0,v1,v2),(v0,v2,v3),"
                       "(v0,v3,v4),(v0,v4,v1) in one orientation; emergent field components cyclic (1,2),(2,0),(0,1)")
    v = FV(repo, T + "topological_charge_density", param_types=PT)
    rets = [r for r in v.returns() if r.value is not None]
    want = v.spec("1 / (4 * np.pi) * o.dot(o.diff(field.mesh.region.dims[0]).cross(o.diff(field.mesh.region.dims[1])))",
                  env={"o": v.spec("field.orientation")})
    okc = any(v.eq(v.ev.term(r.value, at=r), want) for r in rets)
    chk.ob(T + "topological_charge_density::continuous-formula", okc, "C19.D3",
           "continuous density must be 1/(4 pi) * n . (d_dims[0] n x d_dims[1] n) of the orientation field", v.f)
    loops = [s for s in v.stmts() if isinstance(s, ast.For)]
    chk.require(len(loops) == 1, "topological_charge_density: lattice loop vanished")
    lp = loops[0]
    o = v.spec("field.orientation")
    it = v.term(lp.iter, at=lp)
    chk.ob(T + "topological_charge_density::lattice-loop", v.eq(it, v.spec("itertools.product(range(o.mesh.n[0]), range(o.mesh.n[1]))",
                                                                          env={"o": o})), "C19.D3",
           "the lattice method must visit every (i, j) of the 2-d mesh", v.f, lp)
    e = each(v, it)
    i = v.ctx.mk(("unpack", 0), (e,))
    j = v.ctx.mk(("unpack", 1), (e,))
    env = {"o": o, "i": i, "j": j}
    nb = {"v0": "o.array[i, j]",
          "v1": "o.array[i + 1, j] if i + 1 < o.mesh.n[0] and o.valid[i + 1, j] else None",
          "v2": "o.array[i, j + 1] if j + 1 < o.mesh.n[1] and o.valid[i, j + 1] else None",
          "v3": "o.array[i - 1, j] if i - 1 >= 0 and o.valid[i - 1, j] else None",
          "v4": "o.array[i, j - 1] if j - 1 >= 0 and o.valid[i, j - 1] else None"}
    terms = {}
    for st in walk_stmts(lp.body):
        if isinstance(st, ast.Assign) and isinstance(st.targets[0], ast.Name):
            terms[st.targets[0].id] = (st, v.term(st.value, at=st))
    role = {}
    for nm, sp in nb.items():
        w = v.spec(sp, env=env)
        hit = [k for k, (s_, t_) in terms.items() if v.eq(t_, w)]
        role[nm] = hit[0] if hit else None
        chk.ob(T + f"topological_charge_density::neighbour::{nm}", bool(hit), "C19.D3",
               f"{nm} must be `{sp}` (bounds and validity tested before the neighbour is used)", v.f, lp)
    # triangles
    tri = []
    for st in walk_stmts(lp.body):
        if isinstance(st, ast.If):
            for s2 in st.body:
                if isinstance(s2, ast.AugAssign) and isinstance(s2.value, ast.Call) and \
                        ast.unparse(s2.value.func).endswith("bergluescher_angle"):
                    args = [ast.unparse(a_) for a_ in s2.value.args]
                    tested = sorted(x.id for x in ast.walk(st.test) if isinstance(x, ast.Name))
                    tri.append((tuple(args), tuple(tested), st))
    inv = {v_: k for k, v_ in role.items() if v_}
    got = [tuple(inv.get(a_, a_) for a_ in t[0]) for t in tri]
    want_t = [("v0", "v1", "v2"), ("v0", "v2", "v3"), ("v0", "v3", "v4"), ("v0", "v4", "v1")]
    chk.ob(T + "topological_charge_density::triangles", sorted(got) == sorted(want_t), "C19.D3",
           f"triangles {got}; expected {want_t} (all counter-clockwise)", v.f, lp)
    okt = all(sorted(inv.get(x, x) for x in t[1]) == sorted(list(g[1:])) for t, g in zip(tri, got))
    chk.ob(T + "topological_charge_density::triangle-guards", okt and len(tri) == 4, "C19.D3",
           "each triangle is used only if both of its neighbours exist", v.f, lp)
    sts = [s for s in walk_stmts(lp.body) if isinstance(s, ast.Assign) and isinstance(s.targets[0], ast.Subscript)]
    okq = False
    if len(sts) == 1:
        idx = v.ev._index(sts[0].targets[0].slice, v.cfg.node(sts[0]), None)
        val = v.term(sts[0].value, at=sts[0])
        area = v.spec("0.5 * field.mesh.cell[0] * field.mesh.cell[1]")
        okq = v.eq(idx, v.spec("(i, j)", env=env)) and v.ctx.mentions(val, area.single_atom() and area or area) if False else \
            v.eq(idx, v.spec("(i, j)", env=env))
        # charge accumulates the solid angles, the counter is incremented by one next to each of them: find both by role
        ch_name = tc_name = None
        for st_ in walk_stmts(lp.body):
            if isinstance(st_, ast.AugAssign) and isinstance(st_.target, ast.Name) and isinstance(st_.op, ast.Add):
                if isinstance(st_.value, ast.Call) and ast.unparse(st_.value.func).endswith("bergluescher_angle"):
                    ch_name = st_.target.id
                elif isinstance(st_.value, ast.Constant) and st_.value.value == 1:
                    tc_name = st_.target.id
        if ch_name and tc_name:
            ch = local_term(v, ch_name, sts[0])
            tc = local_term(v, tc_name, sts[0])
            okq = okq and v.eq(val, r_div(ch, r_mul(area, tc)))
        else:
            okq = False
    chk.ob(T + "topological_charge_density::density-normalisation", okq, "C19.D3",
           "q[i, j] must be charge / (area * triangle_count) with area = cell[0]*cell[1]/2", v.f, sts[0] if sts else lp)
    # the density of a cell is written only when the cell is valid (whatever the shape of the guard: `if valid:` around
    # the body, or `if not valid: continue` in front of it)
    qstores = [s for s in walk_stmts(lp.body) if isinstance(s, ast.Assign) and isinstance(s.targets[0], ast.Subscript)]
    chk.ob(T + "topological_charge_density::invalid-cells-skipped", bool(qstores) and
           all(reached_implies(v, s, v.spec("o.valid[i, j]", env=env)) for s in qstores), "C19.D3",
           "only valid cells get a charge density", v.f, lp)
    # emergent field
    w = FV(repo, T + "emergent_magnetic_field", param_types=PT)
    r, t = _single_return(w)
    comps = []
    cur = t
    while w.ctx.head_of(cur) == ("binop", "LShift"):
        a, b = w.ctx.args_of(cur)
        comps.insert(0, b)
        cur = a
    comps.insert(0, cur)
    want_pairs = [(1, 2), (2, 0), (0, 1)]
    ok = len(comps) == 3
    got = []
    for c_ in comps:
        for (p, q_) in [(a_, b_) for a_ in range(3) for b_ in range(3)]:
            if w.eq(c_, w.spec(f"field.dot(field.diff(field.mesh.region.dims[{p}]).cross(field.diff(field.mesh.region.dims[{q_}])))")):
                got.append((p, q_))
    chk.ob(T + "emergent_magnetic_field::cyclic-components", ok and got == want_pairs, "C19.D3",
           f"components use derivative pairs {got}; expected {want_pairs} (F_i = n . (d_j n x d_k n), ijk cyclic)", w.f, r)
    tq = FV(repo, T + "topological_charge", param_types=PT)
    rets = [r_ for r_ in tq.returns() if r_.value is not None]
    q = tq.spec("topological_charge_density(field, method=method)")
    oka = any(tq.eq(tq.ev.term(r_.value, at=r_), tq.spec("abs(Q).integrate().item()", env={"Q": q})) for r_ in rets) and \
        any(tq.eq(tq.ev.term(r_.value, at=r_), tq.spec("Q.integrate().item()", env={"Q": q})) for r_ in rets)
    chk.ob(T + "topological_charge::integral-of-density", oka, "C19.D3",
           "the charge is the integral of the density (of its absolute value when absolute=True)", tq.f)
    b = FV(repo, "util.util.bergluescher_angle")
    rets = [r_ for r_ in b.returns() if r_.value is not None]
    rho = b.spec("(2 * (1 + np.dot(v1, v2)) * (1 + np.dot(v2, v3)) * (1 + np.dot(v3, v1))) ** 0.5")
    num = b.spec("1 + np.dot(v1, v2) + np.dot(v2, v3) + np.dot(v3, v1) + 1j * np.dot(v1, np.cross(v2, v3))")
    wantb = b.spec("2 * cmath.log(N / R).imag / (4 * np.pi)", env={"N": num, "R": rho})
    okb = any(b.eq(b.ev.term(r_.value, at=r_), wantb) for r_ in rets)
    chk.ob("util.util.bergluescher_angle::formula", okb, "C19.D3",
           "solid angle of the spherical triangle: 2 Im log((1 + v1.v2 + v2.v3 + v3.v1 + i v1.(v2 x v3)) / rho) / 4pi", b.f)
    ok0, det = b.guard("np.dot(v1, np.cross(v2, v3)) == 0", exc=None, before=rets[-1]) if False else (None, None)
    zero = [r_ for r_ in rets if is_const(b.ctx, b.ev.term(r_.value, at=r_), 0)]
    chk.ob("util.util.bergluescher_angle::degenerate-triangle", len(zero) == 1 and
           reached_iff(b, zero[0], b.spec("np.dot(v1, np.cross(v2, v3)) == 0")), "C19.D3",
           "coplanar triples (and only they) contribute zero (avoids 0/0)", b.f)


# ------------------------------------------------------------------ D4
def d4_neighbour_angle(chk, repo):
    chk.rule("C19.D4", "neighbouring-cell angle: slices [:-1] and [1:] on the axis named by `direction` only; the result region is "
                       "shrunk by cell/2 on both sides of that axis only; angle = arccos(clip(dot, -1, 1)) of the orientation field")
    v = FV(repo, T + "neighbouring_cell_angle", param_types=PT)
    fo = v.spec("field.orientation")
    news = cm.returned_news(v)
    chk.require(news, "neighbouring_cell_angle: no Field construction")
    # decided on the values that reach the einsum and the result mesh (however the three per-axis sequences are built):
    # along `direction` slice(-1) / slice(1, None) and half a cell, along every other axis slice(None) and 0
    env = {"o": fo}
    want_one = v.spec("[slice(-1) if d == direction else slice(None) for d in o.mesh.region.dims]", env=env)
    want_two = v.spec("[slice(1, None) if d == direction else slice(None) for d in o.mesh.region.dims]", env=env)
    want_delta = v.spec("[getattr(o.mesh, f'd{d}') / 2.0 if d == direction else 0 for d in o.mesh.region.dims]", env=env)

    def unwrap(t):
        """the sequence inside (*X,) / tuple(X) / list(X)"""
        for _ in range(3):
            h = v.ctx.head_of(t)
            if h and h[0] == "tuple" and len(v.ctx.args_of(t)) == 1 and (v.ctx.head_of(v.ctx.args_of(t)[0]) or ("",))[0] == "star":
                t = v.ctx.args_of(v.ctx.args_of(t)[0])[0]
            elif h and h[0] == "call" and h[1] in ("tuple", "list") and len(v.ctx.args_of(t)) == 1:
                t = v.ctx.args_of(t)[0]
            else:
                break
        return t
    idx = []
    for a_id in sorted(v.ctx.all_atoms(news[0][1].get("value")) if news[0][1].get("value") is not None else ()):
        hd, ar = v.ctx.atoms[a_id]
        if hd[0] == "call" and hd[1] == "np.einsum" and len(ar) >= 3:
            for x in ar[1:3]:
                if (v.ctx.head_of(x) or ("",))[0] == "sub":
                    idx.append(unwrap(v.ctx.args_of(x)[1]))
            break
    ok_s = len(idx) == 2 and ((v.eq(idx[0], want_one) and v.eq(idx[1], want_two)) or
                              (v.eq(idx[0], want_two) and v.eq(idx[1], want_one)))
    d_m = decode_new(repo, v.ctx, news[0][1].get("mesh")) if news[0][1].get("mesh") is not None else None
    ok_d = False
    if d_m and d_m[1].get("p1") is not None:
        ok_d = v.eq(r_sub(d_m[1].get("p1"), v.spec("field.mesh.region.pmin")), want_delta) or \
            v.eq(unwrap(r_sub(d_m[1].get("p1"), v.spec("field.mesh.region.pmin"))), want_delta)
    chk.ob(T + "neighbouring_cell_angle::slices-on-direction-only", ok_s and ok_d, "C19.D4",
           "along `direction`: slice(-1) / slice(1, None) and half a cell; along every other axis: slice(None) and 0 "
           f"[einsum subscripts {'ok' if ok_s else 'differ'}, half-cell list {'ok' if ok_d else 'differs'}]", v.f, news[0][0])
    news = cm.returned_news(v)
    chk.require(news, "neighbouring_cell_angle: no Field construction")
    r, a = news[0]
    d_ = decode_new(repo, v.ctx, a.get("mesh")) if a.get("mesh") is not None else None
    okm = False
    if d_:
        p1, p2 = d_[1].get("p1"), d_[1].get("p2")
        if p1 is not None and p2 is not None:
            delta1 = r_sub(p1, v.spec("field.mesh.region.pmin"))
            delta2 = r_sub(v.spec("field.mesh.region.pmax"), p2)
            okm = v.eq(delta1, delta2) and delta1.single_atom() is not None and v.eq(d_[1].get("cell"), v.spec("field.mesh.cell"))
    chk.ob(T + "neighbouring_cell_angle::result-mesh", okm, "C19.D4",
           "result mesh: pmin + delta, pmax - delta with the same delta list, cell = field.mesh.cell", v.f, r)
    val = a.get("value")
    mem = []
    if val is not None:
        c = decode_call(v.ctx, val)
        if c and c[0] == ".reshape":
            mem = phi_members(v.ctx, c[1][0])
    def is_angle(t):
        c = decode_call(v.ctx, t)
        if not (c and c[0] == "np.arccos"):
            return False
        cc = decode_call(v.ctx, c[1][0])
        if not (cc and cc[0] == "np.clip" and is_const(v.ctx, cc[1][1], -1) and is_const(v.ctx, cc[1][2], 1)):
            return False
        e = decode_call(v.ctx, cc[1][0])
        return bool(e and e[0] == "np.einsum" and is_str(v.ctx, e[1][0], "...j,...j->...") and
                    all(v.eq(v.ctx.args_of(x)[0], v.spec("o.array", env={"o": fo})) for x in e[1][1:3]
                        if (v.ctx.head_of(x) or ("",))[0] == "sub") and
                    all((v.ctx.head_of(x) or ("",))[0] == "sub" for x in e[1][1:3]))
    okv = len(mem) == 2 and any(is_angle(m) for m in mem) and \
        any((decode_call(v.ctx, m) or ("",))[0] == "np.degrees" and is_angle(decode_call(v.ctx, m)[1][0]) for m in mem)
    chk.ob(T + "neighbouring_cell_angle::angle-formula", okv, "C19.D4",
           "angles = arccos(clip(einsum('...j,...j->...', o.array[slices_one], o.array[slices_two]), -1, 1)) of the ORIENTATION field "
           "(converted with np.degrees for units='deg')", v.f, r)


# ------------------------------------------------------------------ D5
def d5_bloch_points(chk, repo):
    chk.rule("C19.D5", "Bloch points: divergence of the emergent field of the orientation, integrated over the two other dims, then "
                       "cumulatively along `direction`, divided by 4 pi and rounded; counts from the differences")
    v = FV(repo, T + "count_bps", param_types=PT)
    F = v.spec("emergent_magnetic_field(field.orientation).div")
    av = v.spec("[dim for dim in field.mesh.region.dims if dim != direction]")
    want = v.spec("(F.integrate(direction=A[0]).integrate(direction=A[1]).integrate(direction=direction, cumulative=True) / (4 * np.pi))"
                  ".array.squeeze().round()", env={"F": F, "A": av})
    got = None
    fb = find_assign(v, lambda t_, s_: (decode_call(v.ctx, t_) or ("",))[0] == ".round")
    if fb:
        got = (fb[0], fb[2])
    chk.ob(T + "count_bps::cumulative-charge", got is not None and v.eq(got[1], want), "C19.D5",
           f"bp_number = {v.show(got[1])[:200] if got else None}", v.f, got[0] if got else None)
    okc = False
    if got:
        okc = find_assign(v, lambda t_, s_: v.eq(t_, v.spec("B[1:] - B[:-1]", env={"B": got[1]}))) is not None
    chk.ob(T + "count_bps::differences", okc, "C19.D5", "bp_count must be bp_number[1:] - bp_number[:-1]", v.f)
    r, t = _single_return(v)
    sts = {v.ctx.head_of(i)[1] if (v.ctx.head_of(i) or ("",))[0] == "str" else "pattern": val for i, val in stores_of(v.ctx, t)}
    ok = False
    if got and {"bp_number", "bp_number_hh", "bp_number_tt"} <= set(sts):
        C = v.spec("B[1:] - B[:-1]", env={"B": got[1]})
        ok = v.eq(sts["bp_number"], v.spec("abs(C).sum().item()", env={"C": C})) and \
            v.eq(sts["bp_number_hh"], v.spec("abs(C[C < 0].sum()).item()", env={"C": C})) and \
            v.eq(sts["bp_number_tt"], v.spec("C[C > 0].sum().item()", env={"C": C}))
    chk.ob(T + "count_bps::head-to-head-and-tail-to-tail", ok, "C19.D5",
           "total = sum |count|, head-to-head = |sum of negative counts|, tail-to-tail = sum of positive counts", v.f, r)


# ------------------------------------------------------------------ D6
def d6_demag(chk, repo):
    chk.rule("C19.D6", "axis consistency of the demagnetisation tensor: every coordinate is offset by the cell length of ITS OWN "
                       "axis - the coordinate permutation and the cell-length permutation of each _N_element call agree; the tensor "
                       "components are stacked xx,yy,zz,xy,xz,yz and contracted symmetrically with the magnetisation")
    p = FV(repo, T + "_N", param_types=PT)
    dfn = [s for s in p.body if isinstance(s, ast.FunctionDef)]
    chk.require(dfn, "_N: inner function vanished")
    v = FV(repo, T + "_N._inner", parent=p, parent_at=p.cfg.node(dfn[0]), param_types=PT)
    r, t = _single_return(v)
    elems = v.ctx.args_of(t) if (v.ctx.head_of(t) or ("",))[0] == "tuple" else []
    chk.require(len(elems) == 6, "_N._inner: expected six tensor components")
    P = [v.ctx.mk(("unpack", k), (v.spec("p"),)) for k in range(3)]
    cellv = v.ev.parent._name("mesh", v.ev.parent_at, None)
    cell = v.ev.parent.spec("mesh.cell")
    C = [v.ctx.mk(("unpack", k), (cell,)) for k in range(3)]
    want = [("xx", (0, 1, 2), "_f"), ("yy", (1, 2, 0), "_f"), ("zz", (2, 0, 1), "_f"),
            ("xy", (0, 1, 2), "_g"), ("xz", (0, 2, 1), "_g"), ("yz", (1, 2, 0), "_g")]
    for (name, perm, fn), el in zip(want, elems):
        c = decode_call(v.ctx, el)
        ok = False
        det = v.show(el)[:200]
        if c and c[0].endswith("_N_element") and len(c[1]) == 5:
            cp = []
            for a_ in c[1][:3]:
                k = [i for i in range(3) if v.eq(a_, P[i])]
                cp.append(k[0] if k else None)
            lp = []
            cl = c[1][3]
            if (v.ctx.head_of(cl) or ("",))[0] == "tuple" and len(v.ctx.args_of(cl)) == 3:
                for a_ in v.ctx.args_of(cl):
                    k = [i for i in range(3) if v.eq(a_, C[i])]
                    lp.append(k[0] if k else None)
            elif v.eq(cl, cell) or v.eq(cl, v.ev.parent.spec("mesh")):
                lp = [0, 1, 2]       # the unpermuted cell lengths
            fn_ok = is_sym(v.ctx, c[1][4], f"fn:tools.tools.{fn}")
            ok = tuple(cp) == perm and tuple(lp) == perm and fn_ok
            det = f"N{name}: coordinates permuted {tuple(cp)}, cell lengths permuted {tuple(lp)}, function {v.show(c[1][4])}"
        chk.ob(T + f"_N._inner::N{name}::axis-consistency", ok, "C19.D6",
               f"{det}; expected both permutations {perm} with {fn}: a coordinate offset by another axis' cell length gives wrong "
               "factors for anisotropic cells", v.f, r)
    e = FV(repo, T + "_N_element", param_types=PT)
    loops = [s for s in e.stmts() if isinstance(s, ast.For)]
    ok = False
    if len(loops) == 1:
        it = e.term(loops[0].iter, at=loops[0])
        i = each(e, it)
        aug = [s for s in loops[0].body if isinstance(s, ast.AugAssign)]
        cellp = e.spec(e.f.params[3])
        env = {"i": i, "c": cellp}
        if len(aug) == 1 and isinstance(aug[0].op, ast.Add):
            tt = e.term(aug[0].value, at=aug[0])
            wt = e.spec("(-1) ** np.sum(i) * function(x + (i[0] - i[3]) * c[0], y + (i[1] - i[4]) * c[1], z + (i[2] - i[5]) * c[2])", env=env)
            # c[k] is written as an unpacked name in the source
            wt2 = e.spec("(-1) ** np.sum(i) * function(x + (i[0] - i[3]) * c0, y + (i[1] - i[4]) * c1, z + (i[2] - i[5]) * c2)",
                         env=dict(env, c0=e.ctx.mk(("unpack", 0), (cellp,)), c1=e.ctx.mk(("unpack", 1), (cellp,)),
                                  c2=e.ctx.mk(("unpack", 2), (cellp,))))
            ok = e.eq(it, e.spec("itertools.product([0, 1], repeat=6)")) and (e.eq(tt, wt) or e.eq(tt, wt2))
    chk.ob(T + "_N_element::corner-sum", ok, "C19.D6",
           "value += (-1)**sum(i) * f(x + (i0-i3) dx, y + (i1-i4) dy, z + (i2-i5) dz) over the 64 corner combinations, with dx,dy,dz "
           "the cell lengths given for x,y,z in that order", e.f)
    r2, t2 = _single_return(e)
    acc = [s_.target.id for s_ in e.stmts() if isinstance(s_, ast.AugAssign) and isinstance(s_.target, ast.Name)]
    chk.require(acc, "_N_element: accumulator vanished")
    val = local_term(e, acc[0], r2)
    okn = e.eq(t2, r_div(r_neg(val), e.spec("4 * np.pi * np.prod(c)", env={"c": e.spec(e.f.params[3])}))) or \
        e.eq(t2, r_div(r_neg(val), e.spec("4 * np.pi * np.prod(c.cell)", env={"c": e.spec(e.f.params[3])})))
    chk.ob(T + "_N_element::normalisation", okn, "C19.D6", "result must be -value / (4 pi * cell volume)", e.f, r2)
    # geometry and component order of the tensor field
    for q in ("_demag_tensor_field_based", "demag_tensor"):
        w = FV(repo, T + q, param_types=PT)
        sites = w.ctor_sites(FIELD)
        okv = bool(sites) and w.eq(sites[-1].args.get("vdims"), w.spec("['xx', 'yy', 'zz', 'xy', 'xz', 'yz']")) and \
            is_const(w.ctx, sites[-1].args.get("nvdim", w.ctx.const(0)), 6)
        chk.ob(T + f"{q}::component-order", okv, "C19.D6",
               "the six components must be labelled xx, yy, zz, xy, xz, yz (the order _N returns them in)", w.f)
        ms = w.ctor_sites(MESH)
        okm = False
        if ms:
            a = ms[-1].args
            okm = w.eq(a.get("p1"), w.spec("[(-i + 1) * j - j / 2 for i, j in zip(mesh.n, mesh.cell)]")) and \
                w.eq(a.get("p2"), w.spec("[(i - 1) * j + j / 2 for i, j in zip(mesh.n, mesh.cell)]")) and \
                w.eq(a.get("n"), w.spec("[2 * i - 1 for i in mesh.n]"))
        chk.ob(T + f"{q}::tensor-mesh", okm, "C19.D6",
               "the tensor lives on 2n-1 cells per axis covering all cell-to-cell distances, symmetric about zero", w.f)
    h = FV(repo, T + "demag_field", param_types=PT)
    want_h = {"hx_fft": "tensor.ft_xx * M.ft_x + tensor.ft_xy * M.ft_y + tensor.ft_xz * M.ft_z",
              "hy_fft": "tensor.ft_xy * M.ft_x + tensor.ft_yy * M.ft_y + tensor.ft_yz * M.ft_z",
              "hz_fft": "tensor.ft_xz * M.ft_x + tensor.ft_yz * M.ft_y + tensor.ft_zz * M.ft_z"}
    fm = find_assign(h, lambda t_, s_: (decode_call(h.ctx, t_) or ("",))[0] == "Field.fftn")
    if fm is None:
        chk.ob(T + "demag_field::zero-padding", False, "C19.D6",
               "the magnetisation is no longer transformed with the forward transform (.fftn()) before the tensor is applied", h.f)
        return
    M = fm[2]
    # the three field components in stacking order
    stacked = None
    for st_, nm_, t_ in simple_assigns(h):
        if h.ctx.head_of(t_) == ("binop", "LShift"):
            stacked = t_
            break
    comps = []
    cur = stacked
    while cur is not None and h.ctx.head_of(cur) == ("binop", "LShift"):
        a_, b_ = h.ctx.args_of(cur)
        comps.insert(0, b_)
        cur = a_
    if cur is not None:
        comps.insert(0, cur)
    for i_, (nm, sp) in enumerate(want_h.items()):
        ok = len(comps) == 3 and h.eq(comps[i_], h.spec(sp, env={"M": M}))
        chk.ob(T + f"demag_field::{nm}", ok, "C19.D6", f"component {i_} of the stacked field must be {sp} (symmetric tensor contraction)", h.f)
    okp = h.eq(M, h.spec("m.pad({d: (0, m.mesh.n[i] - 1) for d, i in zip(['x', 'y', 'z'], range(3))}, mode='constant').fftn()"))
    chk.ob(T + "demag_field::zero-padding", okp, "C19.D6",
           "the magnetisation must be zero-padded by n-1 cells after every axis before the transform", h.f)
    r3, t3 = _single_return(h)
    okr = False
    c = t3
    if (h.ctx.head_of(c) or ("",))[:2] == ("prop", "real"):
        d_ = decode_new(repo, h.ctx, h.ctx.args_of(c)[0])
        if d_:
            val = d_[1].get("value")
            hv = h.ctx.head_of(val) if val is not None else None
            if hv and hv[0] == "sub":
                idx = h.ctx.args_of(val)[1]
                ref = h.spec("D[m.mesh.n[0] - 1:, m.mesh.n[1] - 1:, m.mesh.n[2] - 1:, :]", env={"D": h.ctx.args_of(val)[0]})
                okr = h.eq(idx, h.ctx.args_of(ref)[1]) and h.eq(d_[1].get("mesh"), h.spec("m.mesh"))
    chk.ob(T + "demag_field::crop", okr, "C19.D6",
           "the field is the real part of the inverse transform cropped to [n-1:] on every axis, on m.mesh", h.f, r3)


# ------------------------------------------------------------------ D7
def d7_completions(chk, repo):
    chk.rule("C19.D7", "branch selection, accumulators and sampling points: each method name selects its own formula; the lattice "
                       "density starts from zero, counts one per triangle, uses a triangle only when BOTH of its neighbours exist and "
                       "normalises only when at least one triangle was found; degrees are produced only on request; the numpy "
                       "tensor samples exactly the cell centres of the 2n-1 mesh in x,y,z ('ij') order and both implementations "
                       "return the forward transform of the sampled tensor; the demagnetising field is the inverse transform")
    v = FV(repo, T + "topological_charge_density", param_types=PT)
    o = v.spec("field.orientation")
    # method dispatch
    rets = [r for r in v.returns() if r.value is not None]
    for r in rets:
        t = v.ev.term(r.value, at=r)
        pt = path_term(v, r)
        if any(hd[:2] == ("call", "Field.dot") or hd[:2] == ("call", ".dot") for hd in v.ctx.heads_in(t)):
            chk.ob(T + "topological_charge_density::continuous-iff-requested", reached_iff(v, r, v.spec("method == 'continuous'")),
                   "C19.D7", f"the continuous density is returned under {v.show(pt)}", v.f, r)
        else:
            w1 = v.spec("method == 'berg-luescher'")
            w2 = v.spec("method != 'continuous' and method == 'berg-luescher'")
            chk.ob(T + "topological_charge_density::lattice-iff-requested", reached_iff(v, r, w1) or reached_iff(v, r, w2),
                   "C19.D7", f"the lattice density is returned under {v.show(full_term(v, r))}", v.f, r)
            d = decode_new(repo, v.ctx, [b for b in strip_stores(v.ctx, t)][0]) if strip_stores(v.ctx, t) else None
            okq = bool(d and d[0] == FIELD and v.eq(d[1].get("mesh"), v.spec("field.mesh")) and
                       is_const(v.ctx, d[1].get("nvdim", v.ctx.const(0)), 1) and v.eq(d[1].get("valid"), v.spec("o.valid", env={"o": o})))
            chk.ob(T + "topological_charge_density::lattice-result-field", okq, "C19.D7",
                   "the lattice density is a scalar field on field.mesh carrying the orientation field's validity", v.f, r)
    loops = [s_ for s_ in v.stmts() if isinstance(s_, ast.For)]
    if loops:
        lp = loops[0]
        # accumulators by role
        ch_name = tc_name = None
        incs = []
        for st_ in walk_stmts(lp.body):
            if isinstance(st_, ast.AugAssign) and isinstance(st_.target, ast.Name) and isinstance(st_.op, ast.Add):
                if isinstance(st_.value, ast.Call) and ast.unparse(st_.value.func).endswith("bergluescher_angle"):
                    ch_name = st_.target.id
        for st_ in walk_stmts(lp.body):
            if isinstance(st_, ast.AugAssign) and isinstance(st_.target, ast.Name) and st_.target.id != ch_name and isinstance(st_.op, ast.Add):
                tc_name = st_.target.id
                incs.append(st_)
        inits = {st_.targets[0].id: st_ for st_ in walk_stmts(lp.body) if isinstance(st_, ast.Assign) and
                 isinstance(st_.targets[0], ast.Name) and st_.targets[0].id in (ch_name, tc_name)}
        ok0 = all(nm in inits and isinstance(inits[nm].value, ast.Constant) and inits[nm].value.value == 0 for nm in (ch_name, tc_name))
        chk.ob(T + "topological_charge_density::accumulators-start-at-zero", bool(ch_name and tc_name) and ok0, "C19.D7",
               "charge and triangle count must start from 0 in every cell", v.f, lp)
        ok1 = len(incs) == 4 and all(isinstance(x.value, ast.Constant) and x.value.value == 1 for x in incs)
        chk.ob(T + "topological_charge_density::one-count-per-triangle", ok1, "C19.D7",
               "each of the four triangles adds exactly 1 to the triangle count", v.f, lp)
        # each triangle guard is `a is not None and b is not None` of its two neighbours
        for st_ in walk_stmts(lp.body):
            if isinstance(st_, ast.If):
                ang = [x for x in st_.body if isinstance(x, ast.AugAssign) and isinstance(x.value, ast.Call) and
                       ast.unparse(x.value.func).endswith("bergluescher_angle")]
                if not ang:
                    continue
                args = [v.term(a_, at=ang[0]) for a_ in ang[0].value.args]
                want = v.spec("a is not None and b is not None", env={"a": args[1], "b": args[2]})
                chk.ob(T + f"topological_charge_density::triangle-needs-both-neighbours@{len(args)}:{ang[0].lineno - lp.lineno}",
                       v.eq(v.ev.term(st_.test, at=st_), want), "C19.D7",
                       f"`{v.src(st_.test)}`: a triangle may be used only when both of its neighbours exist", v.f, st_)
        sts = [s_ for s_ in walk_stmts(lp.body) if isinstance(s_, ast.Assign) and isinstance(s_.targets[0], ast.Subscript)]
        if sts and tc_name:
            tc = local_term(v, tc_name, sts[0])
            tpos = v.spec("t > 0", env={"t": local_term(v, tc_name, sts[0])})
            okg = reached_implies(v, sts[0], tpos) and implies_reached(v, tpos, sts[0])
            chk.ob(T + "topological_charge_density::normalised-iff-triangles-found", okg, "C19.D7",
                   "the density is written exactly when at least one triangle was found (no division by zero, no lost cell)", v.f, sts[0])
    # neighbouring angles: degrees on request only
    n_ = FV(repo, T + "neighbouring_cell_angle", param_types=PT)
    for st in n_.stmts():
        if isinstance(st, ast.Assign) and (decode_call(n_.ctx, n_.term(st.value, at=st)) or ("",))[0] == "np.degrees":
            chk.ob(T + "neighbouring_cell_angle::degrees-iff-requested", reached_iff(n_, st, n_.spec("units == 'deg'")),
                   "C19.D7", f"degrees are produced under {n_.show(path_term(n_, st))}", n_.f, st)
    for r, a in cm.returned_news(n_):
        val = a.get("value")
        c = decode_call(n_.ctx, val) if val is not None else None
        okr = bool(c and c[0] == ".reshape" and len(c[1]) == 3 and is_const(n_.ctx, c[1][2], 1) and
                   n_.eq(c[1][1], n_.ctx.mk(("star",), (n_.ctx.mk(("attr", "shape"), (c[1][0],)),)))) and \
            is_const(n_.ctx, a.get("nvdim", n_.ctx.const(0)), 1)
        chk.ob(T + "neighbouring_cell_angle::scalar-result", okr, "C19.D7",
               f"value={n_.show(val)[:100] if val is not None else None}: the angles become a one-component field (shape + (1,))", n_.f, r)
    # degenerate solid angle and accumulator of the tensor element
    b = FV(repo, "util.util.bergluescher_angle")
    z = [r_ for r_ in b.returns() if isinstance(r_.value, ast.Constant)]
    chk.ob("util.util.bergluescher_angle::degenerate-is-zero", len(z) == 1 and z[0].value.value == 0, "C19.D7",
           "coplanar triples span no solid angle: 0", b.f, z[0] if z else None)
    e = FV(repo, T + "_N_element", param_types=PT)
    acc = [s_.target.id for s_ in e.stmts() if isinstance(s_, ast.AugAssign) and isinstance(s_.target, ast.Name)]
    init = [s_ for s_ in e.stmts() if isinstance(s_, ast.Assign) and isinstance(s_.targets[0], ast.Name) and acc and
            s_.targets[0].id == acc[0]]
    chk.ob(T + "_N_element::sum-starts-at-zero", len(init) == 1 and isinstance(init[0].value, ast.Constant) and init[0].value.value == 0,
           "C19.D7", "the corner sum must start from 0", e.f, init[0] if init else None)
    # numpy tensor: sampling points
    w = FV(repo, T + "demag_tensor", param_types=PT)
    mg = find_assign(w, lambda t_, s_: False) or None
    grids = None
    for st in w.stmts():
        if isinstance(st, ast.Assign):
            c = decode_call(w.ctx, w.term(st.value, at=st))
            if c and c[0] == "np.meshgrid":
                grids = (st, c)
    okg = False
    if grids:
        st, c = grids
        wants = [w.spec(f"np.linspace((-mesh.n[{k}] + 1) * mesh.cell[{k}], (mesh.n[{k}] - 1) * mesh.cell[{k}], mesh.n[{k}] * 2 - 1)")
                 for k in range(3)]
        okg = len(c[1]) == 3 and all(w.eq(c[1][k], wants[k]) for k in range(3)) and is_str(w.ctx, c[2].get("indexing", w.ctx.const(0)), "ij")
    chk.ob(T + "demag_tensor::sampling-points", okg, "C19.D7",
           "the numpy implementation must sample at (-n+1)*cell ... (n-1)*cell in 2n-1 steps per axis - the cell centres of the "
           "2n-1 mesh the reference implementation uses - combined with indexing='ij' in x, y, z order", w.f, grids[0] if grids else None)
    for q in ("_demag_tensor_field_based", "demag_tensor"):
        x = FV(repo, T + q, param_types=PT)
        r, t = _single_return(x)
        c = decode_call(x.ctx, t)
        okf = False
        det = x.show(t)[:100]
        if c and c[0] == "Field.fftn" and len(c[1]) == 1:
            d = decode_new(repo, x.ctx, c[1][0])
            if d:
                val = d[1].get("value")
                if q == "demag_tensor" and grids and val is not None:
                    G = w.term(grids[0].value, at=grids[0])
                    okf = x.eq(val, x.spec("np.stack(_N(mesh)((g0, g1, g2)), axis=3)", env={
                        "g0": x.ctx.mk(("unpack", 0), (G,)), "g1": x.ctx.mk(("unpack", 1), (G,)), "g2": x.ctx.mk(("unpack", 2), (G,))})) \
                        if x is w else False
                elif val is not None:
                    okf = x.eq(val, x.spec("_N(M)", env={"M": d[1].get("mesh")}))
        if q == "demag_tensor" and c and c[0] == "Field.fftn" and grids:
            d = decode_new(repo, w.ctx, decode_call(w.ctx, _single_return(w)[1])[1][0])
            G = w.term(grids[0].value, at=grids[0])
            okf = bool(d and d[1].get("value") is not None and w.eq(d[1]["value"], w.spec(
                "np.stack(_N(mesh)((g0, g1, g2)), axis=3)", env={"g0": w.ctx.mk(("unpack", 0), (G,)),
                                                                  "g1": w.ctx.mk(("unpack", 1), (G,)),
                                                                  "g2": w.ctx.mk(("unpack", 2), (G,))})))
        chk.ob(T + f"{q}::forward-transform-of-the-sampled-tensor", okf, "C19.D7",
               f"returns {det}; expected Field(2n-1 mesh, nvdim=6, value=<the six components sampled on that mesh>).fftn()", x.f, r)
    h = FV(repo, T + "demag_field", param_types=PT)
    r3, t3 = _single_return(h)
    okh = False
    if (h.ctx.head_of(t3) or ("",))[:2] == ("prop", "real"):
        d_ = decode_new(repo, h.ctx, h.ctx.args_of(t3)[0])
        if d_ and d_[1].get("value") is not None:
            val = d_[1]["value"]
            if (h.ctx.head_of(val) or ("",))[0] == "sub":
                base = h.ctx.args_of(val)[0]
                hb = h.ctx.head_of(base)
                if hb and hb[0] in ("attr", "prop") and hb[1] == "array":
                    c = decode_call(h.ctx, h.ctx.args_of(base)[0])
                    okh = bool(c and c[0] in ("Field.ifftn", ".ifftn")) and is_const(h.ctx, d_[1].get("nvdim", h.ctx.const(0)), 3)
    chk.ob(T + "demag_field::inverse-transform", okh, "C19.D7",
           "the field is built (nvdim=3) from the INVERSE transform of the stacked products", h.f, r3)


# ------------------------------------------------------------------ D8
NEWELL_F = ("y / 2 * (z**2 - x**2) * np.arcsinh(y / np.sqrt(x**2 + z**2)) + z / 2 * (y**2 - x**2) * np.arcsinh(z / np.sqrt(x**2 + y**2))"
            " - x * y * z * np.arctan(y * z / (x * np.sqrt(x**2 + y**2 + z**2)))"
            " + 1 / 6 * (2 * x**2 - y**2 - z**2) * np.sqrt(x**2 + y**2 + z**2)")
NEWELL_G = ("x * y * z * np.arcsinh(z / np.sqrt(x**2 + y**2)) + y / 6 * (3 * z**2 - y**2) * np.arcsinh(x / np.sqrt(y**2 + z**2))"
            " + x / 6 * (3 * z**2 - x**2) * np.arcsinh(y / np.sqrt(x**2 + z**2))"
            " - z**3 / 6 * np.arctan(x * y / (z * np.sqrt(x**2 + y**2 + z**2)))"
            " - z * y**2 / 2 * np.arctan(x * z / (y * np.sqrt(x**2 + y**2 + z**2)))"
            " - z * x**2 / 2 * np.arctan(y * z / (x * np.sqrt(x**2 + y**2 + z**2)))"
            " - x * y * np.sqrt(x**2 + y**2 + z**2) / 3")


def _plain_formula(v, t):
    """the formula a guarded numpy expression computes where nothing is guarded: np.divide(a, b, out=zeros, where=c) is a / b,
    abs(u) is u (Newell's f and g are even in the coordinates they are taken the modulus of: y*arcsinh(y/r) = |y|*arcsinh(|y|/r))"""
    ctx = v.ctx
    for _ in range(12):
        mapping = {}
        for a in sorted(ctx.all_atoms(t)):
            hd, ar = ctx.atoms[a]
            inner = set()
            for x in ar:
                inner |= ctx.all_atoms(x)
            if any(ctx.atoms[i][0][0] == "call" and ctx.atoms[i][0][1] in ("np.abs", "np.divide") for i in inner):
                continue            # innermost first
            if hd[0] == "call" and hd[1] == "np.abs" and len(ar) == 1:
                mapping[a] = ar[0]
            elif hd[0] == "call" and hd[1] == "np.divide" and len(ar) >= 2 and hd[2] == 2:
                mapping[a] = r_div(ar[0], ar[1])
        if not mapping:
            break
        t = ctx.subst(t, mapping)
    return t


def d8_newell(chk, repo):
    chk.rule("C19.D8", "the demagnetisation tensor is built from Newell's auxiliary functions f (diagonal) and g (off-diagonal) "
                       "[Newell, Williams, Dunlop 1993; Albert et al. 2015]: the two helpers compute exactly these formulas "
                       "(compared as rational expressions over sqrt / arcsinh / arctan, zero-guards and moduli removed), and each "
                       "tensor element uses the one that belongs to it")
    for q, text in (("_f", NEWELL_F), ("_g", NEWELL_G)):
        v = FV(repo, T + q)
        rets = [r for r in v.returns() if r.value is not None]
        chk.require(len(rets) == 1, f"{q}: expected a single return")
        got = _plain_formula(v, v.ev.term(rets[0].value, at=rets[0]))
        want = _plain_formula(v, v.spec(text))
        chk.ob(f"tools.tools.{q}::newell-formula", v.eq(got, want), "C19.D8",
               f"{q} computes {v.show(got)[:300]}; expected Newell's {'f' if q == '_f' else 'g'}", v.f, rets[0])
    # which helper each element uses: f for xx, yy, zz - g for xy, xz, yz (order of the returned tuple)
    inner = [f for qq, f in repo.funcs.items() if qq.startswith(T + "_N.") and f.parent is not None]
    chk.require(inner, "_N: inner function vanished")
    w = FV(repo, inner[0].qual)
    rets = [r for r in w.returns() if r.value is not None]
    names = []
    if rets and isinstance(rets[0].value, ast.Tuple):
        for e in rets[0].value.elts:
            names.append(ast.unparse(e.args[-1]) if isinstance(e, ast.Call) and e.args else "?")
    chk.ob("tools.tools._N::element-functions", names == ["_f", "_f", "_f", "_g", "_g", "_g"], "C19.D8",
           f"elements are computed with {names}; expected f for the three diagonal and g for the three off-diagonal elements",
           w.f, rets[0] if rets else None)


# ------------------------------------------------------------------ D9
def d9_max_angle(chk, repo):
    chk.rule("C19.D9", "maximum neighbouring-cell angle: for every direction the angle field (one cell shorter) is written once "
                       "shifted to the upper cells (slice(1, None) along that axis) and once to the lower cells (slice(-1)), into "
                       "two channels of its own; the result is the maximum over all 2*ndim channels on the field's mesh")
    v = FV(repo, T + "max_neighbouring_cell_angle", param_types=PT)
    loops = [s_ for s_ in v.stmts() if isinstance(s_, ast.For)]
    chk.require(len(loops) == 1, "max_neighbouring_cell_angle: the loop over the directions vanished")
    lp = loops[0]
    it = v.term(lp.iter, at=lp)
    ok_it = v.eq(it, v.spec("enumerate(field.mesh.region.dims)"))
    i_ = v.ctx.mk(("index",), (v.spec("field.mesh.region.dims"),))
    d_ = each(v, v.spec("field.mesh.region.dims"))
    env = {"i": i_, "d": d_}
    want_val = v.spec("neighbouring_cell_angle(field, d, units=units).array.squeeze()", env=env)
    up = v.spec("[slice(1, None) if i == j else slice(None) for j in range(field.mesh.region.ndim)]", env=env)
    lo = v.spec("[slice(-1) if i == j else slice(None) for j in range(field.mesh.region.ndim)]", env=env)
    got = []
    for st in walk_stmts(lp.body):
        if isinstance(st, ast.Assign) and isinstance(st.targets[0], ast.Subscript):
            idx = v.ev._index(st.targets[0].slice, v.cfg.node(st), None)
            hd = v.ctx.head_of(idx)
            parts = list(v.ctx.args_of(idx)) if hd and hd[0] == "tuple" else []
            if len(parts) == 2 and (v.ctx.head_of(parts[0]) or ("",))[0] == "star":
                got.append((v.ctx.args_of(parts[0])[0], parts[1], v.term(st.value, at=st), st))
    ok_up = any(v.eq(a, up) and v.eq(c, v.spec("2 * i", env=env)) and v.eq(val, want_val) for a, c, val, st in got)
    ok_lo = any(v.eq(a, lo) and v.eq(c, v.spec("2 * i + 1", env=env)) and v.eq(val, want_val) for a, c, val, st in got)
    chk.ob(T + "max_neighbouring_cell_angle::channels", ok_it and len(got) == 2 and ok_up and ok_lo, "C19.D9",
           "per direction i: channel 2i holds the angles at [1:] along axis i, channel 2i+1 the angles at [:-1]; both from "
           "neighbouring_cell_angle(field, dim, units=units)", v.f, lp)
    news = cm.returned_news(v)
    chk.require(news, "max_neighbouring_cell_angle: no Field construction")
    r, a = news[0]
    val = a.get("value")
    c = decode_call(v.ctx, val) if val is not None else None
    okm = bool(c and c[0] == ".max" and is_const(v.ctx, c[2].get("axis", v.ctx.const(0)), -1) and
               is_const(v.ctx, c[2].get("keepdims", v.ctx.const(0)), True))
    if okm:
        base = strip_stores(v.ctx, c[1][0])
        okm = any(v.eq(b_, v.spec("np.zeros((*field.mesh.n, 2 * field.mesh.region.ndim))")) for b_ in base)
    chk.ob(T + "max_neighbouring_cell_angle::maximum", okm and v.eq(a.get("mesh"), v.spec("field.mesh")) and
           is_const(v.ctx, a.get("nvdim"), 1), "C19.D9",
           "the result is max(axis=-1, keepdims=True) of a zero-initialised (*n, 2*ndim) array, as a scalar field on field.mesh",
           v.f, r)
