"""Equivalence of a function with its reference form (global value numbering over gated alternatives).

The rules of this checker were confirmed by hand on one version of every function - the *reference* (sa/../reference, a
copy of the package as it was when the rules were written).  When a function of the current tree differs from its reference
form, its *summary* is computed for both forms in one term context:

  * exits: every `return` (with the term of its value) and every `raise` (with its exception type), each under the
    conjunction of all branch decisions that lead to it (enclosing branches and survived guards);
  * effects, in order: stores to attributes / elements of non-local objects, expression statements (calls), yields, loop
    headers, with-items, asserts - each with its terms and its reach condition.

Terms are built in *exact* mode: copies and conversions are kept (np.array vs np.asarray differ), a local with several
reaching definitions is a gated alternative `gphi(g1 -> v1 | g2 -> v2)` whose gates say when each definition arrives, and
a conditional expression is the same gated alternative.  Helpers the rules do not know are inlined first.  Two forms are
equivalent when exits and effects agree pairwise (values by normal-form equality after lifting gated alternatives to the
top, conditions as predicates).  Nothing is executed and no path is enumerated: it is the value numbering a compiler does
for translation validation.  A function that is proven equivalent to its reference is analysed in its reference form (the
form the rules were written for); one that is not is analysed as it stands."""
import ast

from .model import AnalysisError, body_nodoc
from .cfg import walk_stmts
from .terms import Ctx


class NotSummarisable(Exception):
    pass


def _exc_name(r):
    if r.exc is None:
        return "<reraise>"
    e = r.exc.func if isinstance(r.exc, ast.Call) else r.exc
    return ast.unparse(e).split(".")[-1]


_LC_TERMS = {}       # key of a loop's iteration base -> the term (loop positions are compared as values, see _same_items)


def _target_shape(t):
    """the shape of a loop target (its names are bound variables: every use is a term over the element of the iterable)"""
    if isinstance(t, (ast.Tuple, ast.List)):
        return "(" + ",".join(_target_shape(e) for e in t.elts) + ")"
    if isinstance(t, ast.Starred):
        return "*" + _target_shape(t.value)
    if isinstance(t, ast.Name):
        return "_"
    return ast.dump(t)


def summary(v):
    """(exits, effects) of the function viewed by v (an FV whose evaluator is in exact + alias mode)"""
    from .lib import full_term
    ev = v.ev
    exits, effects = [], []
    local_stores = []      # (position among the effects, statement, container name, effect item)

    tries = {}

    def loop_ctx(st):
        """the loops and the try / except arms a statement sits in (part of its identity: an effect inside a handler is
        another thing than the same effect outside)"""
        out = []
        for p, f in v.cfg.enclosing(st):
            if isinstance(p, ast.For):
                t_ = v.ev._loop_base(v.term(p.iter, at=p))
                _LC_TERMS[t_.key()] = t_
                out.append(("for", t_.key()))
            elif isinstance(p, ast.While):
                out.append("while")
            elif isinstance(p, ast.Try):
                out.append(f"try#{tries.setdefault(id(p), len(tries))}:{f}")
            elif isinstance(p, ast.ExceptHandler):
                out.append("except " + (ast.unparse(p.type) if p.type is not None else "") + (" as e" if p.name else ""))
        return tuple(out)

    for st in v.stmts():
        if isinstance(st, (ast.FunctionDef, ast.AsyncFunctionDef, ast.ClassDef)):
            continue
        if isinstance(st, ast.Try):
            # exception flow is not modelled: the statements of the body, of every handler and of else / finally are
            # summarised in place (each carries its try / except position); the same calls raise the same exceptions
            effects.append(("try", ";".join((ast.unparse(h.type) if h.type is not None else "") for h in st.handlers) +
                            f"|else={bool(st.orelse)}|finally={bool(st.finalbody)}", full_term(v, st), [], loop_ctx(st)))
            continue
        if isinstance(st, (ast.If, ast.Pass)):
            continue
        cond = full_term(v, st)
        lc = loop_ctx(st)
        if isinstance(st, ast.Return):
            val = v.term(st.value, at=st) if st.value is not None else v.ctx.mk(("const", None))
            exits.append(("return", "", cond, [val], lc))
        elif isinstance(st, ast.Raise):
            exits.append(("raise", _exc_name(st), cond, [], lc))
        elif isinstance(st, (ast.Assign, ast.AnnAssign, ast.AugAssign)):
            targets = st.targets if isinstance(st, ast.Assign) else [st.target]
            if getattr(st, "value", None) is None:
                continue
            flat = []
            for t in targets:
                flat += _flatten(t)
            pairwise = None
            if isinstance(st, ast.Assign) and len(targets) == 1 and isinstance(targets[0], (ast.Tuple, ast.List)) and \
                    isinstance(st.value, (ast.Tuple, ast.List)) and len(targets[0].elts) == len(st.value.elts) and \
                    not any(isinstance(e, ast.Starred) for e in list(targets[0].elts) + list(st.value.elts)) and \
                    all(not isinstance(e, (ast.Tuple, ast.List)) for e in targets[0].elts):
                pairwise = {id(t_): e_ for t_, e_ in zip(targets[0].elts, st.value.elts)}      # a, b = x, y
            for t in flat:
                if isinstance(t, ast.Name):
                    prev_ = ev._name_before(t.id, v.cfg.node(st), None) if isinstance(st, ast.AugAssign) else None
                    hp_ = v.ctx.head_of(prev_) if prev_ is not None else None
                    fresh_ = prev_ is not None and (prev_.is_const() or (hp_ and hp_[0] in (
                        "list", "seqcomp", "dict", "dictcomp", "tuple", "str", "fstr", "const", "concat", "set", "setcomp")))
                    if isinstance(st, ast.AugAssign) and not fresh_:
                        # `x op= y` may change the object x is bound to in place (an array that is shared with the caller):
                        # it is an effect, never the same as `x = x op y` (a freshly built list / number is not shared)
                        effects.append(("aug-name:" + type(st.op).__name__, t.id if False else "", cond,
                                        [v.ev._name_before(t.id, v.cfg.node(st), None), v.term(st.value, at=st)], lc))
                    elif isinstance(st, ast.Assign) and any(isinstance(x, str) and x.endswith(":body") for x in lc) and \
                            t is flat[0]:
                        # inside a try body a call is also made for the exception it may raise: `x = f(a)` and a bare
                        # `f(a)` (its value built again later) are the same evaluation at this point; `a, b = f(x), g(y)`
                        # is the two evaluations in that order
                        vals = [st.value] if isinstance(st.value, ast.Call) else \
                            [e_ for e_ in st.value.elts if isinstance(e_, ast.Call)] if isinstance(st.value, (ast.Tuple, ast.List)) else []
                        for e_ in vals:
                            effects.append(("expr", "", cond, [v.term(e_, at=st)], lc))
                    continue
                if isinstance(t, ast.Subscript) and isinstance(t.value, ast.Name) and t.value.id in ev._local_names \
                        and t.value.id not in ev._params:
                    # element store into a local container: part of that local's value, but the container may be an
                    # object with identity (an h5py dataset, an array shared with the caller): also an effect
                    local_stores.append((len(effects), st, t.value.id,
                                         ("store-local", "", cond,
                                          [ev._name_before(t.value.id, v.cfg.node(st), None),
                                           ev._index(t.slice, v.cfg.node(st), None), v.term(st.value, at=st)], lc)))
                    continue
                if isinstance(t, ast.Attribute):
                    tt = [v.term(t.value, at=st), v.ctx.mk(("str", t.attr))]
                    if isinstance(st, ast.Assign) and isinstance(t.value, ast.Name) and t.value.id == "self" and \
                            _setter_ignores_none(v.repo, v.ev.self_type, t.attr):
                        # `self.p = x` where the setter of p does nothing for None happens only when x is not None
                        # (guarding the assignment at the call site changes nothing)
                        rhs_ = pairwise[id(t)] if pairwise and id(t) in pairwise else st.value
                        xt = v.term(rhs_, at=st)
                        cond = v.ev._bool("and", [cond, v.ev._cmpn("isnot", xt, v.ctx.mk(("const", None)))])
                elif isinstance(t, ast.Subscript):
                    tt = [v.term(t.value, at=st), ev._index(t.slice, v.cfg.node(st), None)]
                else:
                    raise NotSummarisable(f"store target {type(t).__name__}")
                kind = "aug:" + type(st.op).__name__ if isinstance(st, ast.AugAssign) else "store"
                rhs = pairwise[id(t)] if pairwise and id(t) in pairwise else st.value
                effects.append((kind, "", cond, tt + [v.term(rhs, at=st)], lc))
        elif isinstance(st, ast.Expr):
            if isinstance(st.value, ast.Constant):
                continue
            item = ("expr", "", cond, [v.term(st.value, at=st)], lc)
            cf = st.value.func if isinstance(st.value, ast.Call) else None
            if isinstance(cf, ast.Attribute) and isinstance(cf.value, ast.Name) and cf.attr in ("append", "extend", "insert", "update") \
                    and cf.value.id in ev._local_names and cf.value.id not in ev._params:
                # grows a container that was built right here (a literal, a comprehension, list()): the element is part of
                # that container's value wherever it is used afterwards, not an effect of its own
                try:
                    before = ev._name_before(cf.value.id, v.cfg.node(st), None)
                except AnalysisError:
                    before = None
                if before is not None and _fresh_container(v.ctx, before):
                    continue
            if isinstance(st.value, ast.Call) and any(k.arg == "out" and isinstance(k.value, ast.Name) and
                                                     k.value.id in ev._local_names and k.value.id not in ev._params
                                                     for k in st.value.keywords):
                # fills a local buffer: an effect only if that buffer does not flow into an exit / effect
                local_stores.append((len(effects), st, None, item))
                continue
            effects.append(item)
        elif isinstance(st, ast.For):
            effects.append(("for", "", cond, [v.ev._loop_base(v.term(st.iter, at=st))], lc))
            if st.orelse:
                raise NotSummarisable("for-else")
        elif isinstance(st, ast.While):
            effects.append(("while", "", cond, [v.ev.term(st.test, at=st)], lc))
            if st.orelse:
                raise NotSummarisable("while-else")
        elif isinstance(st, ast.With):
            effects.append(("with", ";".join(ast.dump(i.optional_vars) if i.optional_vars is not None else "" for i in st.items),
                            cond, [v.term(i.context_expr, at=st) for i in st.items], lc))
        elif isinstance(st, ast.Assert):
            effects.append(("assert", "", cond, [v.term(st.test, at=st)], lc))
        elif isinstance(st, (ast.Break, ast.Continue)):
            effects.append((type(st).__name__, "", cond, [], lc))
        elif isinstance(st, (ast.Import, ast.ImportFrom, ast.Global, ast.Nonlocal, ast.Delete)):
            effects.append(("misc", ast.dump(st), cond, [], lc))
        else:
            raise NotSummarisable(type(st).__name__)
    # a local that is assigned the result of a call and never flows into an exit or effect: the call ran for its effect
    used = set()
    for it in exits + effects:
        for t in [it[2]] + list(it[3]):
            used |= v.ctx.all_atoms(t)
    # element stores into a local container: when the container flows into an exit / effect they are part of that value
    # (functional store semantics); when it does not (an h5py dataset, a buffer that is only written), they are effects
    extra = []
    for pos, st, name, item in local_stores:
        after = ev._t(ast.Name(id=name, ctx=ast.Load()), None, None) if False else None
        stored = v.ctx.mk(("store",), (item[3][0], item[3][1], item[3][2])) if name is not None else item[3][0]
        ids = set(stored.atom_ids())
        if name is not None:
            try:
                ids |= set(ev._def_term(name, v.cfg.node(st), None).atom_ids())     # the container as it is after the store
            except AnalysisError:
                pass
        if name is not None and _fresh_container(v.ctx, item[3][0]):
            continue        # a container built right here: what is stored into it is part of its value wherever it is used
        if not (ids & used):
            extra.append((pos, item))
    for pos, item in sorted(extra, key=lambda x: -x[0]):
        effects.insert(pos, item)
    for it in extra:
        for t in [it[1][2]] + list(it[1][3]):
            used |= v.ctx.all_atoms(t)
    dead = []
    for st in v.stmts():
        if isinstance(st, ast.Assign) and len(st.targets) == 1 and isinstance(st.targets[0], ast.Name) and \
                any(isinstance(n, (ast.Call, ast.Await)) for n in ast.walk(st.value)):
            t = v.term(st.value, at=st)
            roots = t.atom_ids()
            ht = v.ctx.head_of(t) or ("",)
            if ht[0] in ("seqcomp", "dictcomp", "setcomp", "list", "tuple", "dict", "set") or \
                    (ht[0] == "call" and ht[1] in _FRESH_CALLS):
                continue        # a container built in place is a value, not a call made for its effect
            if ht[0] == "gphi":
                # `x = f() if c else y`: the calls are the alternatives
                roots = set()
                ar_ = v.ctx.args_of(t)
                for i_ in range(1, len(ar_), 2):
                    hv = v.ctx.head_of(ar_[i_]) or ("",)
                    if hv[0] in ("call", "new"):
                        roots |= set(ar_[i_].atom_ids())
                if roots and roots <= used:
                    continue
            if roots and not (roots & used):
                dead.append(("unused-call", "", full_term(v, st), [t], loop_ctx(st)))
    return exits, effects + dead


_SETTER_NONE = {}


def _setter_ignores_none(repo, cls, attr):
    """the setter of property `attr` does nothing at all when it is given None: its whole body stands under
    `if <param> is not None:` (or begins with the guard `if <param> is None: return`)"""
    if not cls:
        return False
    key = (repo.root, repo.digest, cls, attr)
    if key in _SETTER_NONE:
        return _SETTER_NONE[key]
    res = False
    try:
        fi = repo.resolve_setter(cls, attr)
        if fi is not None and len(fi.node.args.args) == 2:
            p = fi.node.args.args[1].arg
            body = body_nodoc(fi.node)

            def is_none_test(t, positive):
                return isinstance(t, ast.Compare) and len(t.ops) == 1 and isinstance(t.left, ast.Name) and t.left.id == p and \
                    isinstance(t.ops[0], ast.Is if positive else ast.IsNot) and isinstance(t.comparators[0], ast.Constant) and \
                    t.comparators[0].value is None
            if len(body) == 1 and isinstance(body[0], ast.If) and not body[0].orelse and is_none_test(body[0].test, False):
                res = True
            elif body and isinstance(body[0], ast.If) and not body[0].orelse and is_none_test(body[0].test, True) and \
                    len(body[0].body) == 1 and isinstance(body[0].body[0], ast.Return) and body[0].body[0].value is None:
                res = True
    except Exception:       # noqa: BLE001
        res = False
    _SETTER_NONE[key] = res
    return res


_FRESH_CALLS = {"list", "dict", "set", "sorted", "tuple", "np.zeros", "np.ones", "np.empty", "np.full", "np.zeros_like",
                "np.ones_like", "np.empty_like", "np.full_like", "np.array", "np.copy", ".copy", "collections.OrderedDict"}


def _fresh_container(ctx, t, depth=0):
    """t is a container that was built in this function (a literal, a comprehension, list(...), np.zeros(...)), possibly with
    elements stored into it since"""
    h = ctx.head_of(t)
    if not h or depth > 20:
        return False
    if h[0] in ("list", "dict", "set", "seqcomp", "dictcomp", "setcomp", "concat", "repeat"):
        return True
    if h[0] in ("store", "mut"):
        return _fresh_container(ctx, ctx.args_of(t)[0], depth + 1)
    if h[0] == "call" and h[1] in _FRESH_CALLS:
        return True
    if h[0] == "gphi":
        ar = ctx.args_of(t)
        return all(_fresh_container(ctx, ar[i + 1], depth + 1) for i in range(0, len(ar), 2))
    return False


def _flatten(t):
    if isinstance(t, (ast.Tuple, ast.List)):
        out = []
        for e in t.elts:
            out += _flatten(e)
        return out
    if isinstance(t, ast.Starred):
        return _flatten(t.value)
    return [t]


# ---------------------------------------------------------------------------------------------------------------------
def alternatives(v, t, limit=24):
    """[(gate, gphi-free term)]: the gated alternatives inside t lifted to the top (f(gphi(g -> a | h -> b)) is
    gphi(g -> f(a) | h -> f(b))); None when there are too many"""
    ctx = v.ctx
    out = [(ctx.mk(("const", True)), t)]
    for _ in range(8):
        nxt = []
        again = False
        for g, x in out:
            gp = _outermost_gphi(ctx, x)
            if gp is None:
                nxt.append((g, x))
                continue
            again = True
            args = ctx.atoms[gp][1]
            for i in range(0, len(args), 2):
                nxt.append((v.ev._bool("and", [g, args[i]]), ctx.subst(x, {gp: args[i + 1]})))
            if len(nxt) > limit:
                return None
        out = nxt
        if not again:
            break
    return out


def _outermost_gphi(ctx, x):
    """a gated alternative of x that does not sit inside another gated alternative (the gates of an inner one only cover
    the situation in which the outer one selects it: the outer one has to be split first)"""
    seen = set()
    stack = sorted(x.atom_ids())
    while stack:
        a = stack.pop(0)
        if a in seen:
            continue
        seen.add(a)
        head, args = ctx.atoms[a]
        if head[0] == "gphi":
            return a
        for y in args:
            stack.extend(sorted(y.atom_ids()))
    return None


def _name_carried(ctx, exits, effects, tag):
    """Loop-carried values are cut points named after the place of their definition in one form of the function; here they
    are renamed by order of first appearance (effects in program order, then exits), so that two forms whose loops carry the
    same values in the same roles use the same names.  The renaming is one-to-one within a form."""
    order = []
    seen = set()

    def walk(t):
        for a in sorted(t.atom_ids()):
            if a in seen:
                continue
            seen.add(a)
            hd, args = ctx.atoms[a]
            if hd[0] in ("carried", "gate-carried") and hd[1] not in order:
                order.append(hd[1])
            for x in args:
                walk(x)
    for it in list(effects) + list(exits):
        for t in [it[2]] + list(it[3]):
            walk(t)
    if not order:
        return exits, effects
    mapping = {}
    for a in seen:
        hd, args = ctx.atoms[a]
        if hd[0] in ("carried", "gate-carried"):
            mapping[a] = ctx.mk((hd[0], f"{tag}{order.index(hd[1])}"), ())

    def ren(items):
        return [(it[0], it[1], ctx.subst(it[2], mapping), [ctx.subst(t, mapping) for t in it[3]], it[4]) for it in items]
    return ren(exits), ren(effects)


def _same_terms(va, ta, tb, given=None):
    """equal as values: normal-form equality, else equality of every pair of gated alternatives that can occur together
    (`given`: a condition that holds wherever the two values are used - the reach condition of the statement)"""
    cond_implies = _implies
    ctx = va.ctx
    if ctx.eq(ta, tb):
        return True
    # same constructor / call on both sides: argument by argument (a value that has many independent gated alternatives
    # inside would otherwise have to be split into all their combinations)
    ia, ib = ta.single_atom(), tb.single_atom()
    if ia is not None and ib is not None:
        (ha, aa), (hb, ab) = ctx.atoms[ia], ctx.atoms[ib]
        if ha == hb and ha[0] not in ("gphi", "phi") and len(aa) == len(ab) and aa and \
                all(_same_terms(va, x, y, given) for x, y in zip(aa, ab)):
            return True
    A, B = alternatives(va, ta), alternatives(va, tb)
    if A is None or B is None or (len(A) == 1 and len(B) == 1):
        return False
    if given is not None:
        A = [(va.ev._bool("and", [given, g]), x) for g, x in A]
        B = [(va.ev._bool("and", [given, g]), x) for g, x in B]
    false = ctx.mk(("const", False))
    for ga, xa in A:
        for gb, xb in B:
            if ctx.eq(xa, xb):
                continue
            both = va.ev._bool("and", [ga, gb])
            # different values: fine only if the two alternatives can never occur together
            if not cond_implies(va, both, false):
                return False
    # and every alternative of one side must be covered by alternatives of the other side that have the same value
    for X, Y in ((A, B), (B, A)):
        for gx, x in X:
            same = [gy for gy, y in Y if ctx.eq(x, y)]
            if not same:
                if cond_implies(va, gx, false):
                    continue
                return False
            cover = va.ev._bool("or", same) if len(same) > 1 else same[0]
            if not cond_implies(va, gx, cover):
                return False
    return True


# class invariants usable in conditions: (attribute slot, lower bound, how it is confirmed on the current tree)
_INV = {"_nvdim": 1}
_INV_OK = {}         # repo digest -> set of confirmed slots


def confirmed_invariants(repo):
    """`x._nvdim >= 1`: holds when the only store to the slot in the package is `self._nvdim = nvdim` in Field.__init__ and a
    raise under `nvdim < 1` dominates it (confirmed from the source of the tree under analysis on every run; an invariant
    that does not confirm is simply not used)"""
    key = (repo.root, repo.digest)
    if key in _INV_OK:
        return _INV_OK[key]
    ok = set()
    try:
        from .lib import FV
        stores = []
        for q, fi in repo.funcs.items():
            for n in ast.walk(fi.node):
                if isinstance(n, ast.Attribute) and n.attr == "_nvdim" and isinstance(n.ctx, (ast.Store, ast.Del)):
                    stores.append((q, n))
        if len(stores) == 1 and stores[0][0] == "field.Field.__init__":
            v = FV(repo, "field.Field.__init__")
            st = next((s for s in v.stmts() if isinstance(s, ast.Assign) and any(t is stores[0][1] for t in s.targets)), None)
            if st is not None and isinstance(st.value, ast.Name) and st.value.id == "nvdim":
                g, _ = v.guard("nvdim < 1", exc=("ValueError", "TypeError"), before=st)
                if g:
                    ok.add("_nvdim")
    except Exception:        # noqa: BLE001 - not confirmed, not used
        ok = set()
    _INV_OK[key] = ok
    return ok


def _int_vars(va, terms):
    """integer quantities of conditions: lengths (>= 0; bool(x) == (len(x) != 0) for sized objects) and slots with a confirmed
    lower bound -> (variables, {atom id: lower bound})"""
    ctx = va.ctx
    inv = confirmed_invariants(va.repo)
    out, lows = [], {}
    for t in terms:
        for a in sorted(ctx.all_atoms(t)):
            hd = ctx.atoms[a][0]
            if hd[0] == "attr" and hd[1] in inv and a not in lows:
                lows[a] = _INV[hd[1]]
                out.append(ctx.var(a))
    n_inv = len(out)
    for t in terms:
        for a in sorted(ctx.all_atoms(t)):
            hd = ctx.atoms[a][0]
            if hd[0] == "call" and hd[1] == "len" and not any(va.eq(ctx.var(a), x) for x in out):
                out.append(ctx.var(a))
    out = out[:min(n_inv, 2) ] + out[n_inv:n_inv + 3]
    return out, {k: v_ for k, v_ in lows.items() if any(x.single_atom() == k for x in out)}


def _len_set_pre(va, variables):
    """len(set(X)) and len(X) are not independent: 0 <= len(set(X)) <= len(X), and one is 0 exactly when the other is.
    -> a predicate over the value tuple of `variables` (None when no such pair is among them)"""
    ctx = va.ctx
    pairs = []
    for i, x in enumerate(variables):
        hx = ctx.head_of(x)
        if not (hx and hx[0] == "call" and hx[1] == "len"):
            continue
        ax = ctx.args_of(x)[0]
        ha = ctx.head_of(ax)
        if ha and ha[0] == "call" and ha[1] == "set" and len(ctx.args_of(ax)) == 1:
            inner = ctx.args_of(ax)[0]
            for j, y in enumerate(variables):
                hy = ctx.head_of(y)
                if j != i and hy and hy[0] == "call" and hy[1] == "len" and ctx.eq(ctx.args_of(y)[0], inner):
                    pairs.append((i, j))
    if not pairs:
        return None
    return lambda vals: all(vals[i] <= vals[j] and (vals[i] == 0) == (vals[j] == 0) for i, j in pairs)


def _implies(va, a, b):
    from .lib import cond_implies
    vs, lows = _int_vars(va, (a, b))
    pre = _len_set_pre(va, vs)
    if not lows and pre is None:
        return cond_implies(va, a, b)
    return cond_implies(va, a, b, vs, lo=0, lows=lows, pre=pre)


def _lift_cond(va, c):
    """a condition over gated alternatives as the disjunction of its alternatives: P(gphi(g -> a | h -> b)) is
    (g and P(a)) or (h and P(b))"""
    alts = alternatives(va, c)
    if alts is None or len(alts) <= 1:
        return c
    return va.ev._bool("or", [va.ev._bool("and", [g, x]) for g, x in alts])


def _same_cond(va, ca, cb):
    from .lib import cond_equiv
    if va.eq(ca, cb):
        return True
    vs, lows = _int_vars(va, (ca, cb))
    if cond_equiv(va, ca, cb, vs, lo=0, lows=lows, pre=_len_set_pre(va, vs)):
        return True
    la, lb = _lift_cond(va, ca), _lift_cond(va, cb)
    if la is ca and lb is cb:
        return False
    vs, lows = _int_vars(va, (la, lb))
    return cond_equiv(va, la, lb, vs, lo=0, lows=lows, pre=_len_set_pre(va, vs))


def _same_items(va, a, b):
    ka, na, ca, ta, la = a
    kb, nb, cb, tb, lb = b
    if ka != kb or na != nb or len(la) != len(lb) or len(ta) != len(tb):
        return False
    if not _same_cond(va, ca, cb):
        return False
    for x, y in zip(la, lb):
        if x == y:
            continue
        if not (isinstance(x, tuple) and isinstance(y, tuple) and x[0] == y[0] == "for" and
                _same_terms(va, _LC_TERMS[x[1]], _LC_TERMS[y[1]], given=ca)):
            return False
    return all(_same_terms(va, x, y, given=ca) for x, y in zip(ta, tb))


BUDGET_S = 8.0      # per function: beyond it the current form is simply "not proven equivalent"


def equivalent(repo_cur, repo_ref, qual):
    """(True, note) when the current form of function `qual` is proven equivalent to its reference form, else (False, why)"""
    import time
    from . import lib
    lib._DEADLINE[0] = time.time() + BUDGET_S
    try:
        ok, note = _equivalent(repo_cur, repo_ref, qual)
        if ok and time.time() > lib._DEADLINE[0]:
            return False, "time budget exhausted"
        return ok, note
    finally:
        lib._DEADLINE[0] = None


class _LookupForms(ast.NodeTransformer):
    """Forms used only while two versions of one function are compared (the rules never see them): asking forgiveness and
    asking permission for one dictionary key are the same look-up.

      try: S[D[K]]  except KeyError: A  else: B      ->   if K in D: S[D[K]]; B  else: A
      D.get(K, X)  /  D.get(K)                       ->   D[K] if K in D else X / None

    D is a plain name that the function also subscripts or membership-tests elsewhere (it is used as a mapping), K a string
    constant, S one statement whose only subscript is D[K] and whose calls are methods of that value or `re` functions on it
    (none of which raises KeyError)."""

    def __init__(self, fn):
        self.mappings = set()
        for n in ast.walk(fn):
            if isinstance(n, ast.Subscript) and isinstance(n.value, ast.Name) and isinstance(n.slice, ast.Constant) \
                    and isinstance(n.slice.value, str):
                self.mappings.add(n.value.id)
            if isinstance(n, ast.Compare) and len(n.ops) == 1 and isinstance(n.ops[0], (ast.In, ast.NotIn)) and \
                    isinstance(n.comparators[0], ast.Name) and isinstance(n.left, ast.Constant) and isinstance(n.left.value, str):
                self.mappings.add(n.comparators[0].id)
        # ... or a parameter / local of the function whose .get is called with a string key
        own = {a.arg for a in fn.args.posonlyargs + fn.args.args + fn.args.kwonlyargs} | \
            {n.id for n in ast.walk(fn) if isinstance(n, ast.Name) and isinstance(n.ctx, ast.Store)}
        for n in ast.walk(fn):
            if isinstance(n, ast.Call) and isinstance(n.func, ast.Attribute) and n.func.attr == "get" and \
                    isinstance(n.func.value, ast.Name) and n.func.value.id in own and n.args and \
                    isinstance(n.args[0], ast.Constant) and isinstance(n.args[0].value, str):
                self.mappings.add(n.func.value.id)
        self.changed = False

    def visit_Call(self, node):
        self.generic_visit(node)
        f = node.func
        if isinstance(f, ast.Attribute) and f.attr == "get" and isinstance(f.value, ast.Name) and f.value.id in self.mappings \
                and 1 <= len(node.args) <= 2 and not node.keywords and isinstance(node.args[0], ast.Constant) \
                and isinstance(node.args[0].value, str):
            key = node.args[0]
            dflt = node.args[1] if len(node.args) == 2 else ast.Constant(value=None)
            new = ast.IfExp(test=ast.Compare(left=key, ops=[ast.In()], comparators=[ast.Name(id=f.value.id, ctx=ast.Load())]),
                            body=ast.Subscript(value=ast.Name(id=f.value.id, ctx=ast.Load()), slice=key, ctx=ast.Load()),
                            orelse=dflt)
            self.changed = True
            return ast.fix_missing_locations(ast.copy_location(new, node))
        return node

    def visit_Try(self, node):
        self.generic_visit(node)
        if node.finalbody or len(node.handlers) != 1 or len(node.body) != 1:
            return node
        h = node.handlers[0]
        if h.name is not None or not (isinstance(h.type, ast.Name) and h.type.id == "KeyError"):
            return node
        st = node.body[0]
        if not isinstance(st, (ast.Assign, ast.Expr)):
            return node
        subs = [n for n in ast.walk(st) if isinstance(n, ast.Subscript) and isinstance(n.ctx, ast.Load)]
        if len(subs) != 1:
            return node
        sub = subs[0]
        if not (isinstance(sub.value, ast.Name) and isinstance(sub.slice, ast.Constant) and isinstance(sub.slice.value, str)):
            return node
        if any(isinstance(n, ast.Subscript) and not isinstance(n.ctx, ast.Load) for n in ast.walk(st)):
            return node
        # every call in S is a method of the looked-up value (str / list methods) or a function of the `re` module
        for n in ast.walk(st):
            if isinstance(n, ast.Call):
                f = n.func
                ok = isinstance(f, ast.Attribute) and (
                    any(x is sub for x in ast.walk(f.value)) or (isinstance(f.value, ast.Name) and f.value.id == "re"))
                if not ok:
                    return node
        test = ast.Compare(left=sub.slice, ops=[ast.In()], comparators=[ast.Name(id=sub.value.id, ctx=ast.Load())])
        new = ast.If(test=test, body=[st] + list(node.orelse), orelse=list(h.body) or [ast.Pass()])
        self.changed = True
        return ast.fix_missing_locations(ast.copy_location(new, node))


def _lookup_forms(fn_node):
    """a copy of the function in the look-up forms above (canonical control flow restored), or None when nothing applies"""
    import copy
    from .model import _CanonicalBranches
    tr = _LookupForms(fn_node)
    new = tr.visit(copy.deepcopy(fn_node))
    if not tr.changed:
        return None
    new = _CanonicalBranches().visit(new)
    ast.fix_missing_locations(new)
    return new


def _equivalent(repo_cur, repo_ref, qual):
    ok, note = _equivalent_as_is(repo_cur, repo_ref, qual)
    if ok:
        return ok, note
    fc, fr = repo_cur.funcs[qual], repo_ref.funcs[qual]
    nc_, nr_ = _lookup_forms(fc.node), _lookup_forms(fr.node)
    if nc_ is None and nr_ is None:
        return ok, note
    oc, orr = fc.node, fr.node
    try:
        fc.node, fr.node = nc_ or oc, nr_ or orr
        ok2, note2 = _equivalent_as_is(repo_cur, repo_ref, qual)
    finally:
        fc.node, fr.node = oc, orr
    if ok2:
        return True, note2 + " (dictionary look-ups compared in one form)"
    return ok, note + " | with dictionary look-ups in one form: " + note2


def _equivalent_as_is(repo_cur, repo_ref, qual):
    from .lib import FV
    fc, fr = repo_cur.funcs[qual], repo_ref.funcs[qual]
    if ast.dump(fc.node.args) != ast.dump(fr.node.args) or \
            [ast.dump(d) for d in fc.node.decorator_list] != [ast.dump(d) for d in fr.node.decorator_list]:
        return False, "signature or decorators differ"
    # nested definitions the rules know must be unchanged (they are referred to by name in the terms)
    def nested(fn, repo, q):
        out = {}
        for n in ast.walk(fn):
            if isinstance(n, (ast.FunctionDef, ast.AsyncFunctionDef, ast.Lambda)) and n is not fn:
                out.setdefault(getattr(n, "name", "<lambda>"), []).append(ast.dump(n))
        return out
    nc, nr = nested(fc.node, repo_cur, qual), nested(fr.node, repo_ref, qual)
    # (a nested function that differs - or is gone - is tolerated when every call of it was looked through, i.e. no term
    # refers to it by name any more)
    differing_nested = {name for name, dumps in nr.items() if nc.get(name) != dumps}
    if "<lambda>" in nc and "<lambda>" not in nr:
        return False, "new lambda"
    new_nested = set(nc) - set(nr)
    ctx = Ctx()
    try:
        va = FV(repo_cur, qual, ctx=ctx)
        vb = FV(repo_ref, qual, ctx=ctx)
        for v in (va, vb):
            v.ev.exact = True
            v.ev.alias_mode = True
        sa, sb = summary(va), summary(vb)
    except NotSummarisable as e:
        return False, f"not summarisable: {e}"
    except AnalysisError as e:
        return False, f"analysis error: {e}"
    except RecursionError:
        return False, "recursion limit"
    (xa, ea), (xb, eb) = _name_carried(ctx, *sa, "A"), _name_carried(ctx, *sb, "A")
    if differing_nested:
        for items in (xa, ea, xb, eb):
            for it in items:
                for t in [it[2]] + list(it[3]):
                    for a in ctx.all_atoms(t):
                        hd = ctx.atoms[a][0]
                        if hd[0] == "sym" and hd[1].startswith("localfn:") and hd[1][8:].split("#")[0] in differing_nested:
                            return False, f"nested function {hd[1][8:]} differs"
    # helpers that are new must have been inlined everywhere
    for items in (xa, ea):
        for it in items:
            for t in [it[2]] + list(it[3]):
                for a in ctx.all_atoms(t):
                    hd = ctx.atoms[a][0]
                    if hd[0] == "sym" and hd[1].startswith("localfn:") and hd[1][8:] in new_nested:
                        return False, f"call to the new helper {hd[1][8:]} could not be inlined"
                    if hd[0] == "sym" and hd[1].startswith("fn:") and repo_cur.is_new_function(hd[1][3:]):
                        return False, f"call to the new helper {hd[1][3:]} could not be inlined"
                    if hd[0] == "call" and "." in str(hd[1]) and not str(hd[1]).startswith("."):
                        cls_, _, m_ = str(hd[1]).rpartition(".")
                        for cq, ci in repo_cur.classes.items():
                            if cq.split(".")[-1] == cls_ and m_ in ci.methods and repo_cur.is_new_function(ci.methods[m_].qual):
                                return False, f"call to the new method {hd[1]} could not be inlined"
    _imp = _implies
    false_ = ctx.mk(("const", False))
    # effects: `x.f = a if c else b` is `if c: x.f = a else: x.f = b` - every effect is split into the gphi-free alternatives
    # of its terms; then the two sequences must match item by item, where two effects that can never both happen in one
    # run (mutually exclusive conditions) may stand in either order
    def expand_effects(effects, v):
        out = []
        for it in effects:
            if not it[3]:
                out.append(it)
                continue
            tup = ctx.mk(("tuple",), list(it[3]))
            alts = alternatives(v, tup)
            if alts is None or len(alts) == 1:
                out.append(it)
                continue
            for g, x in alts:
                cnd = v.ev._bool("and", [it[2], g])
                if _imp(v, cnd, false_):
                    continue          # this alternative can never be the one (its gate contradicts the reach condition)
                out.append((it[0], it[1], cnd, list(ctx.args_of(x)), it[4]))
        # identical neighbours (same kind, terms and position) under different conditions are one effect
        merged = []
        for it in out:
            if merged and merged[-1][0] == it[0] and merged[-1][1] == it[1] and merged[-1][4] == it[4] and \
                    len(merged[-1][3]) == len(it[3]) and all(ctx.eq(x, y) for x, y in zip(merged[-1][3], it[3])):
                merged[-1] = (it[0], it[1], v.ev._bool("or", [merged[-1][2], it[2]]), it[3], it[4])
            else:
                merged.append(it)
        return merged
    def match_effects(ea, eb):
        rest = list(eb)
        for k, a in enumerate(ea):
            hit = None
            for j, b in enumerate(rest):
                if _same_items(va, a, b):
                    if all(_imp(va, va.ev._bool("and", [b[2], x[2]]), false_) for x in rest[:j]):
                        hit = j
                    if hit is not None:
                        break
            if hit is None:
                return f"effect #{k} ({a[0]}) has no counterpart in the reference form (or not at this position)"
            rest.pop(hit)
        if rest:
            return f"the reference form has {len(rest)} more effect(s), first: {rest[0][0]}"
        return None
    # as they stand first (values are compared argument by argument); only then split into their alternatives
    if len(ea) != len(eb) or match_effects(ea, eb) is not None:
        ea, eb = expand_effects(ea, va), expand_effects(eb, vb)
        why = match_effects(ea, eb)
        if why is not None:
            return False, why
    # exits: every exit of one form is matched by an exit of the other with the same kind / type / value whose conditions
    # together are the same predicate
    def grouped(exits):
        groups = []
        for it in exits:
            for g in groups:
                if g[0][0] == it[0] and g[0][1] == it[1] and g[0][4] == it[4] and len(g[0][3]) == len(it[3]) and \
                        all(ctx.eq(x, y) for x, y in zip(g[0][3], it[3])):
                    g.append(it)
                    break
            else:
                groups.append([it])
        return [(g[0][0], g[0][1], va.ev._bool("or", [x[2] for x in g]) if len(g) > 1 else g[0][2], g[0][3], g[0][4]) for g in groups]
    # returning None is what happens whenever no other exit is taken: explicit `return` / `return None` statements and
    # falling off the end are one and the same outcome, fixed once every other exit and every effect agree
    def not_none_return(it):
        if it[0] != "return":
            return True
        hd = ctx.head_of(it[3][0])
        return not (hd and hd[0] == "const" and hd[1] is None)
    xa = [it for it in xa if not_none_return(it)]
    xb = [it for it in xb if not_none_return(it)]

    # a returned truth value V under condition c is "True under c and V, False under c and not V": `return a and b` and
    # `if a: return b` / `return False` are the same function
    def split_truth(exits, v):
        out = []
        t_, f_ = ctx.mk(("const", True)), ctx.mk(("const", False))
        for it in exits:
            if it[0] == "return" and len(it[3]) == 1 and v.ev._is_truth_value(it[3][0]) and \
                    not ((ctx.head_of(it[3][0]) or ("",))[0] == "const"):
                val = it[3][0]
                out.append((it[0], it[1], v.ev._bool("and", [it[2], val]), [t_], it[4]))
                out.append((it[0], it[1], v.ev._bool("and", [it[2], v.ev._not(val)]), [f_], it[4]))
            else:
                out.append(it)
        return out
    if any(it[0] == "return" and len(it[3]) == 1 and (ctx.head_of(it[3][0]) or ("",))[0] == "const" and
           isinstance(ctx.head_of(it[3][0])[1], bool) for it in xa + xb):
        xa, xb = split_truth(xa, va), split_truth(xb, vb)
    # one `return` of a gated alternative and several returns of its alternatives are the same thing: every returned value
    # is split into its gphi-free alternatives before the exits are grouped by value
    def expanded(exits, v):
        out = []
        for it in exits:
            if it[0] == "return" and len(it[3]) == 1:
                alts = alternatives(v, it[3][0])
                if alts is not None and len(alts) > 1:
                    for g, x in alts:
                        cnd = v.ev._bool("and", [it[2], g])
                        if not _imp(v, cnd, false_):
                            out.append((it[0], it[1], cnd, [x], it[4]))
                    continue
            out.append(it)
        return out
    def match_exits(ga, gb):
        used = set()
        for a in ga:
            hit = None
            for j, b in enumerate(gb):
                if j not in used and _same_items(va, a, b):
                    hit = j
                    break
            if hit is None:
                return f"exit `{a[0]} {a[1]}` under {va.show(a[2])[:80]} has no counterpart in the reference form"
            used.add(hit)
        if len(used) != len(gb):
            return "the reference form has an exit without counterpart"
        return None
    ga, gb = grouped(xa), grouped(xb)
    if len(ga) != len(gb) or match_exits(ga, gb) is not None:
        xa, xb = expanded(xa, va), expanded(xb, vb)
        ga, gb = grouped(xa), grouped(xb)
        why = match_exits(ga, gb)
        if why is not None:
            return False, why
    return True, f"{len(ga)} exits and {len(ea)} effects agree with the reference form"
