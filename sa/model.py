"""E1 - program model of /repo/discretisedfield (parsed on every run, nothing imported)."""
import ast
import copy
import hashlib
import os

PKG = "discretisedfield"


class AnalysisError(Exception):
    """Anchor vanished / form outside recognised idioms / floor not met.  Exit code 2."""


class FuncInfo:
    def __init__(self, qual, node, module, cls=None, kind="function", parent=None):
        self.qual = qual          # e.g. field.Field.diff
        self.node = node
        self.module = module      # ModuleInfo
        self.cls = cls            # ClassInfo or None
        self.kind = kind          # function|method|property|setter|classmethod|staticmethod|dispatch
        self.parent = parent      # enclosing FuncInfo for nested defs

    @property
    def params(self):
        a = self.node.args
        names = [x.arg for x in a.posonlyargs + a.args]
        if a.vararg:
            names.append(a.vararg.arg)
        names += [x.arg for x in a.kwonlyargs]
        if a.kwarg:
            names.append(a.kwarg.arg)
        return names

    @property
    def named_params(self):
        a = self.node.args
        return [x.arg for x in a.posonlyargs + a.args + a.kwonlyargs]

    def defaults(self):
        """name -> default expr node"""
        a = self.node.args
        pos = a.posonlyargs + a.args
        out = {}
        for p, d in zip(pos[len(pos) - len(a.defaults):], a.defaults):
            out[p.arg] = d
        for p, d in zip(a.kwonlyargs, a.kw_defaults):
            if d is not None:
                out[p.arg] = d
        return out

    def __repr__(self):
        return f"<Func {self.qual}>"

    @property
    def file(self):
        return self.module.relpath

    def loc(self, node=None):
        n = node if node is not None else self.node
        return f"{self.module.relpath}:{getattr(n, 'lineno', '?')}"


class ClassInfo:
    def __init__(self, qual, node, module):
        self.qual = qual
        self.name = node.name
        self.node = node
        self.module = module
        self.methods = {}     # name -> FuncInfo (plain methods, classmethods, staticmethods)
        self.getters = {}     # property name -> FuncInfo
        self.setters = {}     # property name -> FuncInfo
        self.dispatch = {}    # (methodname, regkey) -> FuncInfo
        self.bases = [ast.unparse(b) for b in node.bases]
        self.slots = None
        self.class_attrs = {}  # name -> value node


_NEG_CMP = {ast.NotEq: ast.Eq, ast.IsNot: ast.Is, ast.NotIn: ast.In}


def _positive(test):
    """(test', flipped): strip negations from a condition - `not c`, `a != b`, `a is not b`, `a not in b` become their
    positive counterparts and the caller swaps the two alternatives"""
    flipped = False
    for _ in range(8):
        if isinstance(test, ast.UnaryOp) and isinstance(test.op, ast.Not):
            test = test.operand
            flipped = not flipped
        elif isinstance(test, ast.Compare) and len(test.ops) == 1 and type(test.ops[0]) in _NEG_CMP:
            new = ast.Compare(left=test.left, ops=[_NEG_CMP[type(test.ops[0])]()], comparators=test.comparators)
            ast.copy_location(new, test)
            test = new
            flipped = not flipped
        else:
            break
    return test, flipped


def _block_terminates(stmts):
    """no path falls through the end of the block (raise / return / continue / break on all paths)"""
    if not stmts:
        return False
    last = stmts[-1]
    if isinstance(last, (ast.Raise, ast.Return, ast.Continue, ast.Break)):
        return True
    if isinstance(last, ast.If):
        return bool(last.orelse) and _block_terminates(last.body) and _block_terminates(last.orelse)
    return False


def _always_raises(stmts):
    if not stmts:
        return False
    last = stmts[-1]
    if isinstance(last, ast.Raise):
        return True
    if isinstance(last, ast.If):
        return bool(last.orelse) and _always_raises(last.body) and _always_raises(last.orelse)
    return False


def _negated(test):
    if isinstance(test, ast.UnaryOp) and isinstance(test.op, ast.Not):
        return test.operand
    inv = {ast.Eq: ast.NotEq, ast.NotEq: ast.Eq, ast.Is: ast.IsNot, ast.IsNot: ast.Is, ast.In: ast.NotIn, ast.NotIn: ast.In}
    if isinstance(test, ast.Compare) and len(test.ops) == 1 and type(test.ops[0]) in inv:
        new = ast.Compare(left=test.left, ops=[inv[type(test.ops[0])]()], comparators=test.comparators)
        return ast.copy_location(new, test)
    return ast.copy_location(ast.UnaryOp(op=ast.Not(), operand=test), test)


def _is_negative(test):
    """the test is written as a negation (not c, a != b, a is not b, a not in b, or a disjunction/conjunction of such)"""
    if isinstance(test, ast.UnaryOp) and isinstance(test.op, ast.Not):
        return True
    if isinstance(test, ast.Compare) and len(test.ops) == 1 and type(test.ops[0]) in _NEG_CMP:
        return True
    if isinstance(test, ast.BoolOp):
        return all(_is_negative(x) for x in test.values)
    return False


def _negate_negative(test):
    """the positive counterpart of a test for which _is_negative holds (De Morgan for and/or of negations)"""
    if isinstance(test, ast.BoolOp):
        dual = ast.And() if isinstance(test.op, ast.Or) else ast.Or()
        return ast.copy_location(ast.BoolOp(op=dual, values=[_negate_negative(x) for x in test.values]), test)
    return _negated(test)


def _to_positive(test):
    """(test', flipped): strip negations until the test is no longer written as one"""
    flipped = False
    for _ in range(8):
        if not _is_negative(test):
            break
        test = _negate_negative(test)
        flipped = not flipped
    return test, flipped


class _CanonicalBranches(ast.NodeTransformer):
    """Control flow is put into one canonical form before any rule looks at it, so that rules never depend on which of
    several equivalent ways an alternative is written.  The control-flow graph of a function is the same before and after;
    only the nesting and the orientation of tests change.

    * an alternative whose arms both fall through keeps its two arms, with the test in its positive form (`if not c: A
      else: B` is read as `if c: B else: A`; likewise !=, is not, not in, and conditional expressions);
    * guard-clause style: when an arm cannot fall through (it ends in raise / return / continue / break on all its paths)
      it becomes a guard `if <its condition>: <arm>` and the other arm follows un-nested.  `if c: A; return x` followed by
      the rest of the block is the same thing as `if c: A; return x  else: <rest>`; when both arms leave, the guard is the
      arm that always raises, otherwise the arm whose condition is positive.  elif chains of leaving arms therefore become
      sequences of guards, however they were nested;
    * a guard that only raises under a disjunction is split: `if a or b: raise E` is read as `if a: raise E` followed by
      `if b: raise E` (the same control flow)."""

    def visit_IfExp(self, node):
        self.generic_visit(node)
        test, flipped = _to_positive(node.test)
        if flipped:
            node.test = test
            node.body, node.orelse = node.orelse, node.body
        return node

    def _guard(self, st, cond, arm):
        """[if cond: arm] with raise-only disjunctions split"""
        if len(arm) == 1 and isinstance(arm[0], ast.Raise) and isinstance(cond, ast.BoolOp) and isinstance(cond.op, ast.Or):
            out = []
            for k, val in enumerate(cond.values):
                body = arm[0] if k == 0 else copy.deepcopy(arm[0])
                out.extend(self._guard(st, val, [body]))
            return out
        return [ast.copy_location(ast.If(test=cond, body=arm, orelse=[]), st)]

    def _two_way_leaving(self, st, cond, arm_t, arm_f):
        """both arms leave: `if cond: arm_t else: arm_f` -> guard + the other arm"""
        rt, rf = _always_raises(arm_t), _always_raises(arm_f)
        pos, flipped = _to_positive(cond)          # pos holds on arm_t iff not flipped
        if rt != rf:
            guard_true = rt
        else:
            guard_true = not flipped
        if guard_true:
            return self._guard(st, cond if not flipped else _negated(pos), arm_t) + arm_f
        return self._guard(st, pos if flipped else _negated(pos), arm_f) + arm_t

    def _loop_guard(self, st, following=()):
        """`for T in IT: if C: raise E`  ->  `if any(C for T in IT): raise E`  (the element-wise guard as one condition; the
        first offending element raises either way).  `if G: continue` in front of the guard and temporaries of the loop body
        (not used after the loop) are folded into the condition.  Other loops are returned unchanged."""
        if not isinstance(st, ast.For) or st.orelse or getattr(st, "type_comment", None):
            return st
        body = list(st.body)
        while body and isinstance(body[-1], ast.Continue):
            body = body[:-1]
        if not body:
            return st
        last = body[-1]
        if not (isinstance(last, ast.If) and not last.orelse and len(last.body) == 1 and isinstance(last.body[0], ast.Raise)):
            return st
        temps = {}
        conds = []
        for b_ in body[:-1]:
            if isinstance(b_, ast.Assign) and len(b_.targets) == 1 and isinstance(b_.targets[0], ast.Name) \
                    and b_.targets[0].id not in temps:
                temps[b_.targets[0].id] = self._subst_names(b_.value, temps)
            elif isinstance(b_, ast.If) and not b_.orelse and len(b_.body) == 1 and isinstance(b_.body[0], ast.Continue):
                pos, flipped = _to_positive(copy.deepcopy(b_.test))
                conds.append(self._subst_names(pos if flipped else _negated(pos), temps))
            else:
                return st
        if temps and (any(self._mentions(x, t_) for t_ in temps for x in following) or
                      any(self._mentions(last.body[0], t_) for t_ in temps) or
                      any(self._mentions(st.iter, t_) or self._mentions(st.target, t_) for t_ in temps)):
            return st
        conds.append(self._subst_names(last.test, temps))
        test = conds[0] if len(conds) == 1 else ast.BoolOp(op=ast.And(), values=conds)
        gen = ast.GeneratorExp(elt=test, generators=[ast.comprehension(target=copy.deepcopy(st.target), iter=st.iter,
                                                                       ifs=[], is_async=0)])
        for n in ast.walk(gen.generators[0].target):
            if isinstance(n, ast.Name):
                n.ctx = ast.Store()
        call = ast.Call(func=ast.Name(id="any", ctx=ast.Load()), args=[gen], keywords=[])
        new = ast.If(test=call, body=[last.body[0]], orelse=[])
        ast.copy_location(new, st)
        ast.copy_location(call, st)
        ast.copy_location(gen, st)
        ast.copy_location(test, st)
        ast.fix_missing_locations(new)
        return new

    @staticmethod
    def _mentions(node, name):
        return any(isinstance(n, ast.Name) and n.id == name for n in ast.walk(node))

    def _accumulate_loops(self, stmts):
        """`X = {}` ... `for T in IT: X[K] = V`  ->  `X = {K: V for T in IT}` and
        `X = []` ... `for T in IT: [if C:] X.append(E)`  ->  `X = [E for T in IT [if C]]`; a loop that fills several such
        containers (one statement each, after optional temporaries of its own) becomes one comprehension per container.
        Nothing between the initialisation and the loop mentions X, and IT / K / V / E / C mention none of the containers."""
        out = list(stmts)
        changed = True
        while changed:
            changed = False
            for j, lp in enumerate(out):
                if not isinstance(lp, ast.For) or lp.orelse or not lp.body:
                    continue
                body = list(lp.body)
                conds = []
                if len(body) == 1 and isinstance(body[0], ast.If) and not body[0].orelse:
                    conds, body = [body[0].test], list(body[0].body)
                # temporaries of the loop body (`t = f(x)` used by the fills that follow) are substituted into the fills;
                # `if G: continue` in front of the fills is the filter `not G` of the comprehension
                temps = {}
                fills = []
                ok = True
                for b_ in body:
                    sum_fill = self._fill_of(b_)
                    if isinstance(b_, ast.Assign) and len(b_.targets) == 1 and isinstance(b_.targets[0], ast.Name) and not fills \
                            and not (sum_fill and sum_fill[0] == "sum"):
                        if b_.targets[0].id in temps:
                            ok = False
                            break
                        temps[b_.targets[0].id] = self._subst_names(b_.value, temps)
                        continue
                    if isinstance(b_, ast.If) and not b_.orelse and len(b_.body) == 1 and isinstance(b_.body[0], ast.Continue) \
                            and not fills:
                        pos, flipped = _to_positive(copy.deepcopy(b_.test))
                        conds.append(self._subst_names(pos if flipped else _negated(pos), temps))
                        continue
                    fill = self._fill_of(b_)
                    if fill is None:
                        many = self._fills_of_two_arms(b_)
                        if many is None:
                            ok = False
                            break
                        for fl in many:
                            fills.append((fl[0], fl[1], [self._subst_names(x, temps) for x in fl[2]]))
                        continue
                    fills.append((fill[0], fill[1], [self._subst_names(x, temps) for x in fill[2]]))
                if not ok or not fills:
                    continue
                names = [f[1] for f in fills]
                if len(set(names)) != len(names) or set(names) & set(temps):
                    continue
                # the temporaries must be the loop's own (not read after it) - conservatively: not mentioned after the loop
                if any(self._mentions(x, t_) for t_ in temps for x in out[j + 1:]):
                    continue
                exprs = [x for f in fills for x in f[2]] + [lp.iter] + conds
                if any(self._mentions(x, n_) for x in exprs for n_ in names):
                    continue
                inits = {}
                starts = {}
                for kind, name, parts in fills:
                    for i in range(j - 1, -1, -1):
                        if self._mentions(out[i], name):
                            st0 = out[i]
                            if isinstance(st0, ast.Assign) and len(st0.targets) == 1 and isinstance(st0.targets[0], ast.Name) \
                                    and st0.targets[0].id == name:
                                v0 = st0.value
                                empty_dict = (isinstance(v0, ast.Dict) and not v0.keys) or \
                                    (isinstance(v0, ast.Call) and isinstance(v0.func, ast.Name) and v0.func.id == "dict" and not v0.args and not v0.keywords)
                                empty_list = (isinstance(v0, ast.List) and not v0.elts) or \
                                    (isinstance(v0, ast.Call) and isinstance(v0.func, ast.Name) and v0.func.id == "list" and not v0.args and not v0.keywords)
                                if (kind == "dict" and empty_dict) or (kind == "list" and empty_list):
                                    inits[name] = i
                                if kind == "sum" and isinstance(v0, ast.Constant) and isinstance(v0.value, (int, float)) \
                                        and not isinstance(v0.value, bool):
                                    inits[name] = i
                                    starts[name] = v0
                            break
                if len(inits) != len(fills):
                    continue
                # other statements between an initialisation and the loop must not mention any of the containers
                lo = min(inits.values())
                if any(self._mentions(out[i], n_) for i in range(lo, j) if i not in inits.values() for n_ in names):
                    continue
                news = []
                for kind, name, parts in fills:
                    tgt = copy.deepcopy(lp.target)
                    for n in ast.walk(tgt):
                        if isinstance(n, (ast.Name, ast.Tuple, ast.List, ast.Starred)):
                            n.ctx = ast.Store()
                    gen = [ast.comprehension(target=tgt, iter=copy.deepcopy(lp.iter),
                                             ifs=[copy.deepcopy(c_) for c_ in conds], is_async=0)]
                    if kind == "sum":
                        comp = ast.Call(func=ast.Name(id="sum", ctx=ast.Load()),
                                        args=[ast.GeneratorExp(elt=parts[0], generators=gen)] +
                                        ([] if starts[name].value == 0 and isinstance(starts[name].value, int) else [starts[name]]),
                                        keywords=[])
                    else:
                        comp = ast.DictComp(key=parts[0], value=parts[1], generators=gen) if kind == "dict" else \
                            ast.ListComp(elt=parts[0], generators=gen)
                    new = ast.Assign(targets=[ast.Name(id=name, ctx=ast.Store())], value=comp)
                    ast.copy_location(new, lp)
                    ast.copy_location(comp, lp)
                    ast.fix_missing_locations(new)
                    news.append(new)
                out[j:j + 1] = news
                for i in sorted(inits.values(), reverse=True):
                    del out[i]
                changed = True
                break
        return out

    def _fill_of(self, b_):
        """(kind, container, parts) of one statement that adds one element to a container: `X[K] = V`, `X.append(E)`, or a
        two-armed `if` whose arms each add one element to the same container (the element is then a conditional expression)"""
        if isinstance(b_, ast.Assign) and len(b_.targets) == 1 and isinstance(b_.targets[0], ast.Subscript) \
                and isinstance(b_.targets[0].value, ast.Name):
            return "dict", b_.targets[0].value.id, [b_.targets[0].slice, b_.value]
        if isinstance(b_, ast.Expr) and isinstance(b_.value, ast.Call) and isinstance(b_.value.func, ast.Attribute) \
                and b_.value.func.attr == "append" and isinstance(b_.value.func.value, ast.Name) \
                and len(b_.value.args) == 1 and not b_.value.keywords:
            return "list", b_.value.func.value.id, [b_.value.args[0]]
        if isinstance(b_, ast.Assign) and len(b_.targets) == 1 and isinstance(b_.targets[0], ast.Name) and \
                isinstance(b_.value, ast.BinOp) and isinstance(b_.value.op, ast.Add) and isinstance(b_.value.left, ast.Name) \
                and b_.value.left.id == b_.targets[0].id:
            return "sum", b_.targets[0].id, [b_.value.right]          # X = X + E: what sum() does
        if isinstance(b_, ast.If) and len(b_.body) == 1 and len(b_.orelse) == 1:
            a, b = self._fill_of(b_.body[0]), self._fill_of(b_.orelse[0])
            if a and b and a[:2] == b[:2]:
                parts = []
                for x, y in zip(a[2], b[2]):
                    if ast.dump(x) == ast.dump(y):
                        parts.append(x)
                    else:
                        ie = ast.IfExp(test=copy.deepcopy(b_.test), body=x, orelse=y)
                        ast.copy_location(ie, b_)
                        parts.append(ie)
                return a[0], a[1], parts
        return None

    def _fills_of_two_arms(self, b_):
        """a two-armed `if` whose arms add one element each to the same containers, in the same order: one fill per container
        whose element is a conditional expression"""
        if not (isinstance(b_, ast.If) and len(b_.body) == len(b_.orelse) and len(b_.body) >= 2):
            return None
        out = []
        for x_, y_ in zip(b_.body, b_.orelse):
            one = ast.If(test=b_.test, body=[x_], orelse=[y_])
            ast.copy_location(one, b_)
            f_ = self._fill_of(one)
            if f_ is None or f_[0] == "sum":
                return None
            out.append(f_)
        names = [f_[1] for f_ in out]
        if len(set(names)) != len(names):
            return None
        # the test must not depend on the containers (it is evaluated once per round, before any of the fills)
        if any(self._mentions(b_.test, n_) for n_ in names):
            return None
        return out

    @staticmethod
    def _subst_names(expr, mapping):
        """expr with the names of `mapping` replaced by (copies of) their expressions"""
        if not mapping:
            return expr

        class _S(ast.NodeTransformer):
            def visit_Name(self, n):
                if isinstance(n.ctx, ast.Load) and n.id in mapping:
                    return copy.deepcopy(mapping[n.id])
                return n
        return _S().visit(copy.deepcopy(expr))

    @staticmethod
    def _unroll_literal_loops(stmts):
        """`for x in ("a", "b"): BODY` (a short literal tuple / list of constants, x only read, no break / continue / else)
        is BODY with x = "a" followed by BODY with x = "b"."""
        out = []
        for st in stmts:
            if isinstance(st, ast.For) and not st.orelse and isinstance(st.target, ast.Name) \
                    and isinstance(st.iter, (ast.Tuple, ast.List)) and 1 <= len(st.iter.elts) <= 4 \
                    and all(isinstance(e, ast.Constant) for e in st.iter.elts):
                name = st.target.id
                body_mod = ast.Module(body=st.body, type_ignores=[])
                bad = any(isinstance(n, (ast.Break, ast.Continue, ast.FunctionDef, ast.AsyncFunctionDef, ast.Lambda, ast.ClassDef))
                          or (isinstance(n, ast.Name) and n.id == name and not isinstance(n.ctx, ast.Load))
                          for n in ast.walk(body_mod))
                if not bad:
                    for e in st.iter.elts:
                        class _Sub(ast.NodeTransformer):
                            def visit_Name(self, n, _e=e):
                                if n.id == name:
                                    return ast.copy_location(ast.Constant(value=_e.value), n)
                                return n
                        for b in copy.deepcopy(st.body):
                            out.append(_Sub().visit(b))
                    continue
            unrolled = _CanonicalBranches._unroll_name_loop(st)
            if unrolled is None and isinstance(st, ast.For) and isinstance(st.iter, ast.Name):
                # `pairs = ((a, b), (b, c))` ... `for x, y in pairs:` - the loop runs over the literal the name was bound to,
                # when nothing in between rebinds the name or a name the literal reads
                lit = None
                between = []
                for prev in reversed(out):
                    if isinstance(prev, ast.Assign) and len(prev.targets) == 1 and isinstance(prev.targets[0], ast.Name) and \
                            prev.targets[0].id == st.iter.id and isinstance(prev.value, (ast.Tuple, ast.List)):
                        lit = prev.value
                        break
                    if not isinstance(prev, (ast.Assign, ast.AugAssign, ast.Expr)):
                        break           # only straight-line code between the binding and the loop
                    between.append(prev)
                if lit is not None:
                    read = {n.id for n in ast.walk(lit) if isinstance(n, ast.Name)} | {st.iter.id}
                    stored = {n.id for b in between for n in ast.walk(b)
                              if isinstance(n, ast.Name) and not isinstance(n.ctx, ast.Load)}
                    if not (read & stored):
                        st2 = copy.copy(st)
                        st2.iter = copy.deepcopy(lit)
                        unrolled = _CanonicalBranches._unroll_name_loop(st2)
            if unrolled is not None:
                out.extend(unrolled)
                continue
            out.append(st)
        return out

    @staticmethod
    def _unroll_name_loop(st):
        """`for a, b in ((x, y), (y, z)): BODY` - a short literal tuple / list whose elements are plain names, constants,
        attribute chains or tuples of those, none of which BODY rebinds, the loop variables only read - is BODY with
        a, b = x, y followed by BODY with a, b = y, z (the elements are evaluated without effect, so evaluating them
        one round at a time is the same); the loop variables keep their last values afterwards."""
        if not (isinstance(st, ast.For) and not st.orelse and isinstance(st.iter, (ast.Tuple, ast.List))
                and 1 <= len(st.iter.elts) <= 4):
            return None

        def simple(e):
            if isinstance(e, (ast.Constant, ast.Name)):
                return True
            if isinstance(e, ast.Attribute):
                return simple(e.value)
            return False

        def names_of(t):
            if isinstance(t, ast.Name):
                return [t.id]
            if isinstance(t, (ast.Tuple, ast.List)) and all(isinstance(x, ast.Name) for x in t.elts):
                return [x.id for x in t.elts]
            return None
        targets = names_of(st.target)
        if targets is None or len(set(targets)) != len(targets):
            return None
        rounds = []
        for e in st.iter.elts:
            if isinstance(st.target, ast.Name):
                if not simple(e):
                    return None
                rounds.append({targets[0]: e})
            else:
                if not (isinstance(e, (ast.Tuple, ast.List)) and len(e.elts) == len(targets) and all(simple(x) for x in e.elts)):
                    return None
                rounds.append(dict(zip(targets, e.elts)))
        if all(isinstance(x, ast.Constant) for r in rounds for x in r.values()) and isinstance(st.target, ast.Name):
            return None         # the constant form is handled by the caller (kept as it was)
        def decontinue(body):
            """`if c: continue` at the top level of a round is `if not c: <rest of the round>`"""
            for k, b in enumerate(body):
                if isinstance(b, ast.If) and not b.orelse and len(b.body) == 1 and isinstance(b.body[0], ast.Continue):
                    rest = decontinue(body[k + 1:])
                    if not rest:
                        return body[:k]
                    new_if = ast.copy_location(ast.If(test=_negated(b.test), body=rest, orelse=[]), b)
                    return body[:k] + [new_if]
            return body
        st_body = decontinue(list(st.body))
        if st_body and isinstance(st_body[-1], ast.Continue):
            st_body = st_body[:-1]
        body_mod = ast.Module(body=st_body, type_ignores=[])
        read_in_elems = {n.id for r in rounds for x in r.values() for n in ast.walk(x) if isinstance(n, ast.Name)}
        for n in ast.walk(body_mod):
            if isinstance(n, (ast.Break, ast.Continue, ast.FunctionDef, ast.AsyncFunctionDef, ast.Lambda, ast.ClassDef,
                              ast.Global, ast.Nonlocal)):
                return None
            if isinstance(n, ast.Name) and not isinstance(n.ctx, ast.Load) and (n.id in targets or n.id in read_in_elems):
                return None
        out = []
        for r in rounds:
            class _Sub(ast.NodeTransformer):
                def visit_Name(self, n, _r=r):
                    if isinstance(n.ctx, ast.Load) and n.id in _r:
                        return ast.copy_location(copy.deepcopy(_r[n.id]), n)
                    return n
            for b in copy.deepcopy(st_body):
                out.append(_Sub().visit(b))
        last = rounds[-1]
        for t in targets:
            asg = ast.Assign(targets=[ast.Name(id=t, ctx=ast.Store())], value=copy.deepcopy(last[t]), lineno=st.lineno,
                             col_offset=st.col_offset)
            out.append(ast.fix_missing_locations(ast.copy_location(asg, st)))
        return out

    def _flatten(self, stmts, fn_level=False):
        out = []
        i = 0
        stmts = self._unroll_literal_loops(stmts)
        stmts = self._accumulate_loops([self._loop_guard(x, stmts[k + 1:]) for k, x in enumerate(stmts)])
        while i < len(stmts):
            st = stmts[i]
            rest = stmts[i + 1:]
            if isinstance(st, ast.Try) and st.orelse and not st.finalbody and st.handlers and \
                    all(_block_terminates(h.body) for h in st.handlers):
                # every handler leaves: the else arm is simply what follows the try statement
                tail = st.orelse
                st.orelse = []
                out.append(st)
                out.extend(self._flatten(tail + rest, fn_level))
                return out
            if isinstance(st, ast.If):
                body, orelse = st.body, st.orelse
                tb = _block_terminates(body)
                if orelse:
                    te = _block_terminates(orelse)
                    if tb and te:
                        out.extend(self._two_way_leaving(st, st.test, body, orelse))
                        i += 1
                        continue
                    if tb:
                        out.extend(self._guard(st, st.test, body))
                        out.extend(self._flatten(orelse + rest, fn_level))
                        return out
                    if te:
                        pos, flipped = _to_positive(st.test)
                        out.extend(self._guard(st, pos if flipped else _negated(pos), orelse))
                        out.extend(self._flatten(body + rest, fn_level))
                        return out
                    pos, flipped = _to_positive(st.test)
                    if flipped:
                        st.test = pos
                        st.body, st.orelse = orelse, body
                    out.append(st)
                    i += 1
                    continue
                if tb and rest and _block_terminates(rest):
                    # `if c: A(leaves)` + rest(leaves) is a two-way alternative as well
                    out.extend(self._two_way_leaving(st, st.test, body, self._flatten(rest, fn_level)))
                    return out
                if tb:
                    out.extend(self._guard(st, st.test, body))
                    i += 1
                    continue
            out.append(st)
            i += 1
        return out

    def _sink_inits(self, stmts):
        """`X = []` (or {} / list() / dict()) directly followed by `if c: ... for ...: X.append(..) ...` without else, c not
        reading X: the initialisation is made in both arms (`if c: X = []; ... else: X = []`), so that the loop and its
        container stand in one block - where an accumulating loop becomes a comprehension"""
        out = list(stmts)
        i = 0
        while i < len(out) - 1:
            st, nx = out[i], out[i + 1]
            name = None
            if isinstance(st, ast.Assign) and len(st.targets) == 1 and isinstance(st.targets[0], ast.Name):
                v0 = st.value
                empty = (isinstance(v0, (ast.List, ast.Dict)) and not (getattr(v0, "elts", None) or getattr(v0, "keys", None))) or \
                    (isinstance(v0, ast.Call) and isinstance(v0.func, ast.Name) and v0.func.id in ("list", "dict")
                     and not v0.args and not v0.keywords)
                if empty:
                    name = st.targets[0].id
            if name and isinstance(nx, ast.If) and not nx.orelse and not self._mentions(nx.test, name) and \
                    any(isinstance(b, ast.For) and self._mentions(b, name) for b in nx.body) and \
                    not any(isinstance(b, (ast.FunctionDef, ast.AsyncFunctionDef, ast.ClassDef)) for b in nx.body):
                nx.body = [copy.deepcopy(st)] + list(nx.body)
                nx.orelse = [copy.deepcopy(st)]
                del out[i]
                continue
            i += 1
        return out

    def generic_visit(self, node):
        for fld in ("body", "orelse", "finalbody"):
            b = getattr(node, fld, None)
            if isinstance(b, list) and len(b) > 1 and isinstance(b[0], ast.stmt):
                setattr(node, fld, self._sink_inits(b))
        super().generic_visit(node)
        for fld in ("body", "orelse", "finalbody"):
            b = getattr(node, fld, None)
            if isinstance(b, list) and b and isinstance(b[0], ast.stmt):
                if fld == "body" and isinstance(node, (ast.For, ast.While)):
                    b = self._loop_tail_guard(b)
                setattr(node, fld, self._flatten(b, fn_level=isinstance(node, (ast.FunctionDef, ast.AsyncFunctionDef)) and fld == "body"))
        return node

    def _loop_tail_guard(self, body):
        """a loop body that ends in `if c: REST` (no else) is `if not c: continue` followed by REST"""
        last = body[-1]
        if isinstance(last, ast.If) and not last.orelse and not _block_terminates(last.body) and \
                not any(isinstance(n, (ast.FunctionDef, ast.AsyncFunctionDef, ast.ClassDef)) for n in last.body):
            pos, flipped = _to_positive(last.test)
            neg = pos if flipped else _negated(pos)
            cont = ast.Continue()
            ast.copy_location(cont, last)
            guard = ast.If(test=neg, body=[cont], orelse=[])
            ast.copy_location(guard, last)
            return body[:-1] + [guard] + self._loop_tail_guard(list(last.body))
        return body

    visit_If = generic_visit


class ModuleInfo:
    def __init__(self, name, relpath, src):
        self.name = name
        self.relpath = relpath
        self.src = src
        self.tree = _CanonicalBranches().visit(ast.parse(src, filename=relpath))
        ast.fix_missing_locations(self.tree)
        self.imports = {}     # alias -> dotted target


def _deco_names(node):
    return [ast.unparse(d) for d in node.decorator_list]


def _strip_doc(body):
    if body and isinstance(body[0], ast.Expr) and isinstance(body[0].value, ast.Constant) \
            and isinstance(body[0].value.value, str):
        return body[1:]
    return body


_REF_CACHE = None


class Repo:
    """Parsed view of the repository's package sources (tests excluded)."""

    def __init__(self, root="/repo", overrides=None, is_reference=False, use_reference=True):
        self.is_reference = is_reference
        self.substituted = {}      # qual -> note, functions analysed in their reference form (proven equivalent)
        self.restructured = {}     # qual -> why the current form could not be proven equivalent to the reference form
        self.root = root
        self.pkgdir = os.path.join(root, PKG)
        self.modules = {}
        self.classes = {}
        self.funcs = {}
        self.parse_errors = []
        overrides = overrides or {}
        h = hashlib.sha256()
        files = []
        for dp, dn, fn in os.walk(self.pkgdir):
            dn[:] = sorted(d for d in dn if d not in ("tests", "__pycache__"))
            for f in sorted(fn):
                if f.endswith(".py"):
                    files.append(os.path.join(dp, f))
        if not files:
            raise AnalysisError(f"no python sources under {self.pkgdir}")
        for path in files:
            rel = os.path.relpath(path, root)
            if rel in overrides:
                src = overrides[rel]
            else:
                with open(path, encoding="utf-8") as fh:
                    src = fh.read()
            h.update(rel.encode() + b"\0" + src.encode() + b"\0")
            modname = rel[len(PKG) + 1:-3].replace(os.sep, ".")
            if modname.endswith("__init__"):
                modname = modname[:-9] or "__init__"
            try:
                mi = ModuleInfo(modname, rel, src)
            except SyntaxError as e:
                raise AnalysisError(f"{rel}: does not parse: {e}")
            self.modules[modname] = mi
            self._index_module(mi)
        self.digest = h.hexdigest()
        self.n_files = len(files)
        kf = os.path.join(os.path.dirname(os.path.abspath(__file__)), "known_funcs.txt")
        with open(kf, encoding="utf-8") as fh:
            self.known_funcs = {l.strip() for l in fh if l.strip() and not l.startswith("#")}
        self._link_dispatch()
        if not is_reference and use_reference and not os.environ.get("VERIF_NO_REFERENCE"):
            self._use_reference_forms()

    def _use_reference_forms(self):
        """Functions whose current form differs from the reference form (the one the rules were written for) but is proven
        equivalent to it (sa/equiv.py) are analysed in the reference form."""
        refroot = os.path.join(os.path.dirname(os.path.dirname(os.path.abspath(__file__))), "reference")
        if not os.path.isdir(os.path.join(refroot, PKG)):
            return
        global _REF_CACHE
        if _REF_CACHE is None:
            _REF_CACHE = Repo(refroot, is_reference=True)
        ref = _REF_CACHE
        self.ref = ref
        differing = []
        for q, fi in self.funcs.items():
            rf = ref.funcs.get(q)
            if rf is None or fi.parent is not None:
                continue
            if ast.dump(fi.node) != ast.dump(rf.node):
                differing.append(q)
        if not differing:
            return
        from . import equiv
        for q in differing:
            try:
                ok, note = equiv.equivalent(self, ref, q)
            except Exception as e:      # noqa: BLE001 - the safety net must never break a check
                ok, note = False, f"equivalence check failed: {type(e).__name__}: {e}"
            if ok:
                self.substituted[q] = note
            else:
                self.restructured[q] = note
        for q in self.substituted:
            self.funcs[q].node = ref.funcs[q].node
            self.funcs[q].module = ref.funcs[q].module

    def is_new_function(self, qual):
        """a function the rules do not know (introduced after they were written, typically by extracting a helper)"""
        return qual in self.funcs and qual.split("#")[0] not in self.known_funcs

    # ------------------------------------------------------------------ indexing
    def _index_module(self, mi):
        for node in mi.tree.body:
            if isinstance(node, ast.Import):
                for a in node.names:
                    mi.imports[a.asname or a.name.split(".")[0]] = a.name
            elif isinstance(node, ast.ImportFrom):
                base = ("." * node.level) + (node.module or "")
                for a in node.names:
                    mi.imports[a.asname or a.name] = f"{base}.{a.name}" if base else a.name
            elif isinstance(node, ast.ClassDef):
                self._index_class(mi, node, mi.name)
            elif isinstance(node, (ast.FunctionDef, ast.AsyncFunctionDef)):
                self._index_func(mi, node, mi.name, None, None)

    def _index_class(self, mi, node, prefix):
        qual = f"{prefix}.{node.name}"
        ci = ClassInfo(qual, node, mi)
        self.classes[qual] = ci
        for st in node.body:
            if isinstance(st, (ast.FunctionDef, ast.AsyncFunctionDef)):
                self._index_func(mi, st, qual, ci, None)
            elif isinstance(st, ast.ClassDef):
                self._index_class(mi, st, qual)
            elif isinstance(st, ast.Assign) and len(st.targets) == 1 and isinstance(st.targets[0], ast.Name):
                ci.class_attrs[st.targets[0].id] = st.value
                if st.targets[0].id == "__slots__":
                    try:
                        ci.slots = list(ast.literal_eval(st.value))
                    except Exception:
                        ci.slots = None

    def _index_func(self, mi, node, prefix, ci, parent):
        decos = _deco_names(node)
        kind = "method" if ci is not None and parent is None else "function"
        name = node.name
        qual = f"{prefix}.{name}"
        regkey = None
        for d in decos:
            if d == "property":
                kind = "property"
            elif d.endswith(".setter"):
                kind = "setter"
                qual = f"{prefix}.{name}.setter"
            elif d == "classmethod":
                kind = "classmethod"
            elif d == "staticmethod":
                kind = "staticmethod"
            elif d.endswith("singledispatchmethod") or d.endswith("singledispatch"):
                kind = "dispatch-base"
            elif ".register(" in d:
                kind = "dispatch"
                target, arg = d.split(".register(", 1)
                arg = arg.rstrip(")").split(".")[-1]
                regkey = (target, (regkey[1] + "|" + arg) if regkey else arg)
        if kind == "dispatch":
            target, key = regkey
            key = "|".join(sorted(key.split("|")))
            tname = target.split(".")[-1]
            if ci is None:
                # module-level registration: Field._as_array.register(Field)
                owner = target.rsplit(".", 1)[0]
                oc = [c for c in self.classes.values() if c.name == owner]
                if oc:
                    ci = oc[0]
                    prefix = ci.qual
            qual = f"{prefix}.{tname}[{key}]"
        fi = FuncInfo(qual, node, mi, ci, kind, parent)
        if qual in self.funcs:
            # same name twice: keep both, suffix
            k = 2
            while f"{qual}#{k}" in self.funcs:
                k += 1
            qual = f"{qual}#{k}"
            fi.qual = qual
        self.funcs[qual] = fi
        if ci is not None and parent is None:
            if kind == "property":
                ci.getters[name] = fi
            elif kind == "setter":
                ci.setters[name] = fi
            elif kind == "dispatch":
                ci.dispatch[(qual.split(".")[-1].split("[")[0], qual.split("[")[1][:-1])] = fi
            else:
                ci.methods[name] = fi
        # nested defs
        for sub in ast.walk(node):
            if sub is node:
                continue
        for st in self._nested_defs(node):
            self._index_func(mi, st, fi.qual, ci, fi)
        return fi

    @staticmethod
    def _nested_defs(node):
        out = []

        def rec(stmts):
            for st in stmts:
                if isinstance(st, (ast.FunctionDef, ast.AsyncFunctionDef)):
                    out.append(st)
                    continue
                if isinstance(st, ast.ClassDef):
                    continue
                for fld in ("body", "orelse", "finalbody"):
                    rec(getattr(st, fld, []) or [])
                for h in getattr(st, "handlers", []) or []:
                    rec(h.body)
        rec(node.body)
        return out

    def _link_dispatch(self):
        self._inline_new_procedures()

    # ------------------------------------------------------------------ helpers introduced after the rules were written
    def _inline_new_procedures(self):
        """A statement `self._check(x)` / `_check(x)` that calls a function the rules do not know (see known_funcs.txt) and
        that returns nothing - typically an extracted block of guards - is replaced by the body of that function, with its
        parameters bound to the arguments and its locals renamed.  The caller is then analysed as if the block had never
        been moved out.  (Calls whose value is used are inlined at term level, see Evaluator._inline_value.)"""
        self.inlined = []
        counter = [0]
        for fi in list(self.funcs.values()):
            changed = self._inline_in_block_owner(fi, fi.node, counter)
            if changed:
                _CanonicalBranches().visit(fi.node)
                ast.fix_missing_locations(fi.node)

    def _resolve_procedure(self, fi, call):
        f = call.func
        target = recv = None
        if isinstance(f, ast.Attribute) and isinstance(f.value, ast.Name):
            cands = []
            if fi.cls is not None and f.value.id in ("self", "cls"):
                m = self.resolve_method(fi.cls.qual, f.attr)
                if m is not None:
                    cands = [m]
            if not cands:
                # any receiver name (`field._diff_lines(...)` on a local that holds another Field): a helper the rules do not
                # know, identified by a method name that exists once in the package
                cands = [ci.methods[f.attr] for ci in self.classes.values() if f.attr in ci.methods]
                if f.value.id not in ("self", "cls"):
                    cands = [c_ for c_ in cands if self.is_new_function(c_.qual)]
            if len(cands) == 1 and cands[0].kind in ("method", "classmethod"):
                target, recv = cands[0], f.value
            elif len(cands) == 1 and cands[0].kind == "staticmethod":
                target, recv = cands[0], None
        elif isinstance(f, ast.Name):
            q = f"{fi.module.name}.{f.id}"
            nested = [g for g in self.funcs.values() if g.parent is fi and g.node.name == f.id]
            if len(nested) == 1:
                # a closure defined in the caller: its free variables are the caller's own (read at the time of the call)
                target = nested[0]
            elif q in self.funcs and self.funcs[q].cls is None and self.funcs[q].parent is None:
                target = self.funcs[q]
        if target is None or not self.is_new_function(target.qual) or target is fi:
            return None, None
        return target, recv

    def _inline_in_block_owner(self, fi, node, counter):
        changed = False
        for fld in ("body", "orelse", "finalbody"):
            b = getattr(node, fld, None)
            if not (isinstance(b, list) and b and isinstance(b[0], ast.stmt)):
                continue
            out = []
            for st in b:
                if isinstance(st, (ast.FunctionDef, ast.AsyncFunctionDef, ast.ClassDef)) and st is not node:
                    out.append(st)
                    continue
                rep = None
                if isinstance(st, ast.Expr) and isinstance(st.value, ast.Call):
                    target, recv = self._resolve_procedure(fi, st.value)
                    if target is not None:
                        rep = self._procedure_body(target, st.value, recv, counter)
                elif isinstance(st, ast.Assign) and isinstance(st.value, ast.Call):
                    # `a, b = helper(x)` where the helper has statements of its own (guards, try / except): its body is
                    # spliced in with every `return E` (all in tail position) turned into `a, b = E`
                    target, recv = self._resolve_procedure(fi, st.value)
                    if target is not None and not self._single_return_value(target):
                        rep = self._procedure_body(target, st.value, recv, counter, assign_to=st.targets)
                if rep is None and isinstance(st, (ast.Assign, ast.AugAssign, ast.AnnAssign, ast.Return, ast.Expr)) and \
                        getattr(st, "value", None) is not None:
                    # a call to such a helper inside a larger expression: its value is computed into a temporary in front
                    # of the statement (the helper's body spliced in), the statement then uses the temporary
                    rep = self._hoist_helper_calls(fi, st, counter)
                    target = None
                if rep is not None:
                    if target is not None:
                        self.inlined.append((fi.qual, target.qual))
                    out.extend(rep)
                    changed = True
                else:
                    if self._inline_in_block_owner(fi, st, counter):
                        changed = True
                    out.append(st)
            setattr(node, fld, out)
        for h in getattr(node, "handlers", []) or []:
            if self._inline_in_block_owner(fi, h, counter):
                changed = True
        return changed

    def _hoist_helper_calls(self, fi, st, counter):
        found = []

        def scan(n, top):
            if isinstance(n, (ast.Lambda, ast.ListComp, ast.SetComp, ast.DictComp, ast.GeneratorExp, ast.IfExp, ast.BoolOp)):
                return          # evaluated conditionally / repeatedly: not hoisted
            if isinstance(n, ast.Call) and not top:
                target, recv = self._resolve_procedure(fi, n)
                if target is not None and not self._single_return_value(target):
                    found.append((n, target, recv))
                    return
            for ch in ast.iter_child_nodes(n):
                scan(ch, False)
        scan(st.value, True)
        if not found:
            return None
        pre = []
        for call, target, recv in found:
            counter[0] += 1
            tmp = f"_inlret{counter[0]}"
            name = ast.Name(id=tmp, ctx=ast.Store())
            body = self._procedure_body(target, call, recv, counter, assign_to=[name])
            if body is None:
                return None
            pre.extend(body)
            self.inlined.append((fi.qual, target.qual))

            class _Rep(ast.NodeTransformer):
                def visit_Call(self, n, _call=call, _tmp=tmp):
                    if n is _call:
                        return ast.copy_location(ast.Name(id=_tmp, ctx=ast.Load()), n)
                    return self.generic_visit(n)
            st.value = _Rep().visit(st.value)
        ast.fix_missing_locations(st)
        return pre + [st]

    @staticmethod
    def _single_return_value(target):
        """the helper is `<assignments>; return E` with no other exit: its value is inlined at term level instead"""
        body = _strip_doc(target.node.body)
        rets = [n for n in ast.walk(ast.Module(body=body, type_ignores=[])) if isinstance(n, ast.Return)]
        raises = [n for n in ast.walk(ast.Module(body=body, type_ignores=[])) if isinstance(n, (ast.Raise, ast.Try))]
        plain = all(isinstance(x, ast.Assign) and all(isinstance(t, (ast.Name, ast.Tuple)) for t in x.targets) for x in body[:-1])
        return len(rets) == 1 and body and body[-1] is rets[0] and not raises and plain

    def _tail_returns_to_assign(self, stmts, targets):
        """every path through stmts ends in `return E` (-> `targets = E`) or `raise`; None otherwise"""
        if not stmts:
            return None
        # guard clauses (`if c: ...; return A` followed by the rest) are the two-armed form `if c: ... else: rest`
        for i, st in enumerate(stmts[:-1]):
            if isinstance(st, ast.If) and not st.orelse and _block_terminates(st.body) and \
                    any(isinstance(n, ast.Return) for n in ast.walk(st)):
                nested = ast.If(test=st.test, body=st.body, orelse=stmts[i + 1:])
                ast.copy_location(nested, st)
                stmts = stmts[:i] + [nested]
                break
        head, last = stmts[:-1], stmts[-1]
        if any(isinstance(n, ast.Return) for x in head for n in ast.walk(x)):
            return None
        if isinstance(last, ast.Return):
            if last.value is None:
                return None
            asg = ast.Assign(targets=copy.deepcopy(targets), value=last.value)
            for t_ in asg.targets:
                for n_ in ast.walk(t_):
                    n_._caller_name = True      # names of the caller: not renamed with the helper's locals
            ast.copy_location(asg, last)
            return head + [asg]
        if isinstance(last, ast.Raise):
            return stmts
        if isinstance(last, ast.If):
            b = self._tail_returns_to_assign(last.body, targets)
            o = self._tail_returns_to_assign(last.orelse, targets) if last.orelse else None
            if b is None or o is None:
                return None
            last.body, last.orelse = b, o
            return head + [last]
        if isinstance(last, ast.Try) and not last.finalbody:
            b = self._tail_returns_to_assign(last.orelse if last.orelse else last.body, targets)
            if b is None or (last.orelse and any(isinstance(n, ast.Return) for x in last.body for n in ast.walk(x))):
                return None
            if last.orelse:
                last.orelse = b
            else:
                last.body = b
            for h in last.handlers:
                hb = self._tail_returns_to_assign(h.body, targets)
                if hb is None:
                    return None
                h.body = hb
            return head + [last]
        if isinstance(last, ast.With):
            b = self._tail_returns_to_assign(last.body, targets)
            if b is None:
                return None
            last.body = b
            return head + [last]
        return None

    def _procedure_body(self, target, call, recv, counter, assign_to=None):
        fn = target.node
        a = fn.args
        if a.vararg or a.kwarg or a.posonlyargs or any(isinstance(x, ast.Starred) for x in call.args) \
                or any(k.arg is None for k in call.keywords):
            return None
        body = copy.deepcopy(_strip_doc(fn.body))
        for n in ast.walk(ast.Module(body=body, type_ignores=[])):
            if isinstance(n, (ast.Yield, ast.YieldFrom, ast.Global, ast.Nonlocal)):
                return None
            if assign_to is None and isinstance(n, ast.Return) and n.value is not None and \
                    not (isinstance(n.value, ast.Constant) and n.value.value is None):
                return None
        if assign_to is not None:
            body = self._tail_returns_to_assign(body, assign_to)
            if body is None:
                return None
        names = [x.arg for x in a.args]
        if recv is not None:
            if not names:
                return None
            selfname, names = names[0], names[1:]
        else:
            selfname = None
        defaults = dict(zip([x.arg for x in a.args][len(a.args) - len(a.defaults):], a.defaults))
        defaults.update({x.arg: d for x, d in zip(a.kwonlyargs, a.kw_defaults) if d is not None})
        bound = {}
        if len(call.args) > len(names):
            return None
        for n_, e_ in zip(names, call.args):
            bound[n_] = e_
        allp = names + [x.arg for x in a.kwonlyargs]
        for k in call.keywords:
            if k.arg not in allp or k.arg in bound:
                return None
            bound[k.arg] = k.value
        for n_ in allp:
            if n_ not in bound:
                if n_ not in defaults:
                    return None
                bound[n_] = defaults[n_]
        if assign_to is None:
            body = self._kill_returns(body)
            if body is None:
                return None
        counter[0] += 1
        prefix = f"_inl{counter[0]}_"
        local = set(allp)
        for n in ast.walk(ast.Module(body=body, type_ignores=[])):
            if isinstance(n, ast.Name) and isinstance(n.ctx, (ast.Store, ast.Del)) and not getattr(n, "_caller_name", False):
                local.add(n.id)
        ren = {n_: prefix + n_ for n_ in local}
        # a parameter that the helper never rebinds and that is passed a plain name of the caller IS that name inside the
        # body (no copy is made by a call): element stores into it are stores into the caller's object, under its own name
        rebound = {n.id for n in ast.walk(ast.Module(body=body, type_ignores=[]))
                   if isinstance(n, ast.Name) and isinstance(n.ctx, (ast.Store, ast.Del)) and not getattr(n, "_caller_name", False)}
        direct = {n_: bound[n_].id for n_ in allp if isinstance(bound[n_], ast.Name) and n_ not in rebound
                  and bound[n_].id not in local - {n_}}
        for n in ast.walk(ast.Module(body=body, type_ignores=[])):
            if isinstance(n, ast.Name) and not getattr(n, "_caller_name", False):
                if n.id in direct:
                    n.id = direct[n.id]
                    n._caller_name = True
                elif n.id in ren:
                    n.id = ren[n.id]
                elif selfname is not None and n.id == selfname and isinstance(recv, ast.Name):
                    n.id = recv.id
        pro = []
        for n_ in allp:
            if n_ in direct:
                continue
            asg = ast.Assign(targets=[ast.Name(id=ren[n_], ctx=ast.Store())], value=copy.deepcopy(bound[n_]))
            ast.copy_location(asg, call)
            pro.append(asg)
        out = pro + body
        for st in out:
            ast.fix_missing_locations(st)
        return out

    def _kill_returns(self, stmts):
        """a block whose early exits are guards `if c: ...; return` -> the same block with the rest nested in the else arm;
        None when a return sits anywhere else (loop, with, try)"""
        out = []
        for i, st in enumerate(stmts):
            if isinstance(st, ast.Return):
                return out
            if isinstance(st, ast.If):
                has_ret = any(isinstance(n, ast.Return) for n in ast.walk(st))
                if not has_ret:
                    out.append(st)
                    continue
                if st.orelse or not isinstance(st.body[-1], ast.Return) or \
                        any(isinstance(n, ast.Return) for x in st.body[:-1] for n in ast.walk(x)):
                    return None
                rest = self._kill_returns(stmts[i + 1:])
                if rest is None:
                    return None
                head = st.body[:-1]
                if head:
                    st.body = head
                    st.orelse = rest
                    out.append(st)
                elif rest:
                    neg = ast.UnaryOp(op=ast.Not(), operand=st.test)
                    ast.copy_location(neg, st.test)
                    st.test = neg
                    st.body = rest
                    out.append(st)
                return out
            if any(isinstance(n, ast.Return) for n in ast.walk(st)):
                return None
            out.append(st)
        return out

    # ------------------------------------------------------------------ lookup
    def func(self, qual):
        f = self.funcs.get(qual)
        if f is None:
            raise AnalysisError(f"anchor vanished: function {qual} not found")
        return f

    def has_func(self, qual):
        return qual in self.funcs

    def cls(self, qual):
        c = self.classes.get(qual)
        if c is None:
            raise AnalysisError(f"anchor vanished: class {qual} not found")
        return c

    def mro(self, cqual):
        """Linearised base classes inside the repo (depth first, left to right, dedup)."""
        seen = []

        def rec(q):
            if q in seen:
                return
            seen.append(q)
            ci = self.classes.get(q)
            if not ci:
                return
            for b in ci.bases:
                bn = b.split(".")[-1]
                for cq, c in self.classes.items():
                    if c.name == bn and cq.count(".") <= 2:
                        rec(cq)
                        break
        rec(cqual)
        return seen

    def resolve_method(self, cqual, name):
        for q in self.mro(cqual):
            ci = self.classes[q]
            if name in ci.methods:
                return ci.methods[name]
        return None

    def resolve_getter(self, cqual, name):
        for q in self.mro(cqual):
            ci = self.classes[q]
            if name in ci.getters:
                return ci.getters[name]
        return None

    def resolve_setter(self, cqual, name):
        for q in self.mro(cqual):
            ci = self.classes[q]
            if name in ci.setters:
                return ci.setters[name]
        return None

    def dispatch_overloads(self, cqual, name):
        out = {}
        for q in self.mro(cqual):
            ci = self.classes[q]
            for (m, key), fi in ci.dispatch.items():
                if m == name:
                    out[key] = fi
            if name in ci.methods and ci.methods[name].kind == "dispatch-base":
                out["<base>"] = ci.methods[name]
        return out

    def all_slots(self, cqual):
        s = []
        for q in self.mro(cqual):
            ci = self.classes[q]
            if ci.slots:
                s += ci.slots
        return s

    def stats(self):
        return {"files": self.n_files, "classes": len(self.classes), "functions": len(self.funcs),
                "digest": self.digest[:16],
                "analysed_in_reference_form": dict(sorted(self.substituted.items())),
                "differs_from_reference_form": dict(sorted(self.restructured.items())),
                "helpers_inlined": sorted(set(getattr(self, "inlined", [])))}


CLASS_OF = {"Field": "field.Field", "Mesh": "mesh.Mesh", "Region": "region.Region",
            "FieldRotator": "field_rotator.FieldRotator", "Line": "line.Line",
            "MplField": "plotting.mpl_field.MplField"}


def body_nodoc(fn_node):
    return _strip_doc(fn_node.body)
