"""Per-property claim texts for MANIFEST.json (see tools/gen_manifest.py)."""

_GEN = ("Decides the structural clauses listed in DESIGN.md section 5 for this property on every site and path of the "
        "current source; it does not decide numerical behaviour. The source is first put into a canonical control-flow form "
        "(guard-clause style, positive tests, split guards, accumulate-loops as comprehensions, helpers unknown to the rules "
        "inlined; DESIGN.md 12.2); branch-selection, default and refusal conditions are decided as reach conditions on the CFG "
        "(enclosing branches and survived guards) by a finite truth table over type/None/membership tests and the order types of "
        "the counts compared (11.5, 12.3); a function that differs from its reference form is analysed in that form only when "
        "value numbering over gated alternatives proves the two equivalent (12.4). The thorough tier adds the mutant/equivalent "
        "corpora, whole-repository rewrites, a single-edit mutation analysis of the anchored functions, and measurements on the "
        "independently produced seeded regressions and benign refactorings of this property. Every check also confirms on every "
        "run the schema its rules read the code through (each getter returns exactly its slot, ndim / centre / edges are the "
        "documented expressions, _dim2index is the position in dims, array2tuple keeps coordinate order, numeric type tests in "
        "constructors and setters name the abstract numeric types so that numpy scalars handed back by readers are accepted; "
        "DESIGN.md 13.6, 13.8) and "
        "uses a class invariant in a condition only after confirming it from the source (13.3). The check of a property also "
        "evaluates the rule instances that other properties have on the helper functions its anchored functions reach (13.7). ")

CLAIMS = {
    "C08": {
        "technique": "static analysis: constructor-keyword provenance matrix over every Field construction, alias/ownership "
                     "summaries of Field._as_array and the validity setter, dtype/shape abstract domain, write-site audit of "
                     "_valid, writer/reader agreement for HDF5 and VTK validity (ast + CFG + term normal form)",
        "level": _GEN + "For C08: every operation named in the statement passes validity with the stated provenance "
                 "(pass-through, logical AND in the field branch, same index/pad/rot90 arguments as the data), no construction "
                 "can share its validity buffer with an operand's, no operator returns its operand, _valid is written only "
                 "by the setter as a Boolean array of the mesh shape, 'norm' uses ~isclose(norm,0) at default tolerance, the "
                 "setter writes nothing else, HDF5/VTK write and read validity with matching names and permutations.",
        "note": "Undecided: element-wise equality of masks, compositions beyond per-operation rules, behaviour of numpy/"
                "xarray/h5py/VTK beyond the documented view-vs-copy and default-tolerance facts listed as trusted base.",
    },
    "C03": {
        "technique": "static analysis: operator-table exhaustiveness and delegate resolution, term normal form of reflected "
                     "operators, constructor-keyword provenance, effect/alias analysis for operand purity, guard dominance "
                     "(CFG) for mesh/component rejection, label/mapping precondition over all Field constructions",
        "level": _GEN + "For C03: every arithmetic dunder maps to the documented numpy function with operands in order, results "
                 "are built on self.mesh from function(self.array, other.array), no operator/helper writes operand memory, "
                 "mesh and component compatibility tests dominate every combination of two fields' arrays (including the "
                 "numpy-ufunc entry point), unsupported types raise TypeError, metadata of the generic binary path depends on "
                 "both operands, and no construction forwards a mapping without its labels.",
        "note": "Undecided: numerical equality with numpy broadcasting for all dtypes; label recovery when stacking; "
                "validity/unit of ufunc results (not demanded by the statement). Known finding: label conflict between two "
                "vector operands with different labels (left operand wins).",
    },
    "C12": {
        "technique": "static analysis: term normal form of the rotation matrix, corner updates and component mixing against the "
                     "quarter-turn formula; functional store semantics for element assignments; in-place/copy sibling "
                     "agreement; alias analysis of the mixing operands; guard dominance and raise-after-mutation on the CFG",
        "level": _GEN + "For C12: region corners, field data, validity and vector components all use one rotation sense "
                 "[[cos,-sin],[sin,cos]](k*pi/2) on (ax1, ax2); only the two rotated coordinates/components change; units and cell "
                 "counts swap exactly for odd k; subregions rotate about the mesh's reference; labels, mapping, dtype, unit are kept; "
                 "in-place and copy forms agree; refusals precede every mutation.",
        "note": "Undecided: the point-wise identity g(R+Q(p-R)) = Q f(p) in floating point, k versus k mod 4, exactness of "
                "cos(k*pi/2). Trusted: numpy's documented np.rot90 sense and np.dot.",
    },
    "C13": {
        "technique": "static analysis: write-site audit (who may write each state slot, and that the stored term re-establishes "
                     "the slot invariant), term normal form of the affine maps, in-place/copy sibling agreement over all seven "
                     "transforming methods, guard dominance and raise-after-mutation on the CFG",
        "level": _GEN + "For C13: every store to a Region/Mesh/Field slot is in the slot's owner set and stores an ordered corner "
                 "pair / validated value; translate and scale realise x+v and R+s(x-R) on both corners and keep n; the in-place "
                 "form returns self and stores what the copy form's constructor would store, the copy form never writes self; "
                 "mesh-level steps apply the identical step to region and subregions; no raise can follow a mutation; the numeric type "
                 "tests on the arguments of the in-place region steps are as strict as the constructor's (real numbers). All three in-place Region steps refuse a result without extent on the corners they are about to store, and in-place mesh steps provoke the refusals of every subregion (dry run of the copying form) before the first in-place call.",
        "note": "Undecided: invariants after sequences beyond per-step preservation (induction is left to the reader), float "
                "equality of in-place and copy results. Shared Mesh/Region objects between fields are a documented design choice.",
    },
    "C01": {
        "technique": "static analysis: term normal form (rational polynomials over interned atoms) of the lattice getters and the "
                     "index/point maps against the formulas in the statement, symbolic substitution for the round trip, guard "
                     "dominance on the CFG for the refusals, comprehension/zip alignment of per-axis quantities",
        "level": _GEN + "For C01: cell = edges/n, centres pmin+(i+1/2)cell, point2index = clip(floor((p-pmin)/cell),0,n-1), the "
                 "composition floors index+1/2, cells/vertices are per-axis linspaces with aligned operands, iteration is "
                 "first-dimension-fastest, the coordinate field pairs component i with axis i, containment uses the stated "
                 "tolerances, and out-of-range indices/points and non-commensurate cell sizes are refused before any result.",
        "note": "Undecided: every floating-point aspect (rounding at cell faces, the 0.1% divisibility and tolerance boundaries, "
                "exact tiling). Trusted: numpy floor/clip/linspace, itertools.product ordering.",
    },
    "C02": {
        "technique": "static analysis: shape domain over _as_array returns, who-may-write audit of _array, per-overload idiom rules "
                     "(loop order, index/point pairing, sentinel and default handling) decided on term normal forms with "
                     "functional store semantics, guard dominance for rejections",
        "level": _GEN + "For C02: every specification kind yields shape (*n, nvdim); dictionary values are written in reversed listing "
                 "order into region2slices blocks keyed consistently, defaults fill exactly the sentinel cells cell by cell; "
                 "function values pair index and centre of the same cell; sampling, iteration, component access and line sampling "
                 "use the documented lookups; wrong types/component counts are refused before anything is stored. Line takes its points as one row per point (one-dimensional meshes yield plain numbers).",
        "note": "Undecided: numeric equality of stored values with the specification (dtype casting, NaN sentinel colliding with "
                "NaN data, nearest-cell ties). Trusted: xarray nearest selection, np.full broadcasting, np.argwhere.",
    },
    "C04": {
        "technique": "static analysis: literal stencil tables checked with exact rational moment conditions, interval reasoning "
                     "on run length per branch, linearity of the returned terms, term normal form of the run-splitting and the "
                     "per-line load/store in Field.diff with functional store semantics, constructor-keyword provenance",
        "level": _GEN + "For C04: interior kernel and one-sided end stencils satisfy sum c_j j^m = m! delta(m,2) up to the degrees "
                 "the statement names (4-point: 3; 3-point: exactly 2), first derivatives use np.gradient with edge_order 2 / 1 by "
                 "run length, every stencil index is covered by the length guaranteed on its branch, short runs give zeros, runs "
                 "are split at invalid cells and scattered back to valid positions, the result is linear in the values, one axis "
                 "tag is used for slicing, cell length and line enumeration, periodic directions - a direction listed in mesh.bc when "
                 "bc is not one of the two boundary-condition names, decided as a reach condition - are wrapped by one cell and "
                 "cropped, and mesh/labels/unit/validity/mapping are kept.",
        "note": "Undecided: sufficiency of one wrap cell for all validity patterns, commutation with cyclic shifts, rounding. "
                "Trusted: documented accuracy of np.gradient, alignment of np.convolve(..., 'same'), np.pad wrap.",
    },
    "C05": {
        "technique": "static analysis: decoding of the six curl terms and comparison with the exact Levi-Civita table, term normal "
                     "form of div/grad/laplace comprehensions (component and axis paired through the mapping), guard dominance "
                     "(including guards inside the label loop), inverse-mapping and relabelling terms",
        "level": _GEN + "For C05: div pairs component v with axis vdim_mapping[v]; curl equals sum eps_ijk d_j comp(k) with components "
                 "taken through _r_dim_mapping and stacked in x,y,z order; laplace sums order-2 derivatives over all dims per "
                 "component; grad stacks diff(dim) in dims order; _r_dim_mapping is the inverse mapping; relabelling carries the "
                 "mapping along; unfit fields are refused before any derivative is taken.",
        "note": "Undecided: polynomial exactness and the vector identities (numeric consequences of C04), commutation with "
                "quarter turns.",
    },
    "C06": {
        "technique": "static analysis: term normal form of the integral/mean formulas, axis-tag coherence (one _dim2index value for "
                     "reduction axis, cell length and selection), linearity and translation invariance by polynomial substitution",
        "level": _GEN + "For C06: integrate() is sum over all spatial axes times prod(cell); directional integrals are sum(axis=a)*cell[a] "
                 "on mesh.sel(direction); the cumulative form is cell[a]*(array/2 + cumsum shifted by one cell) on the same axis; "
                 "means reduce the axes of the requested directions looked up in the original mesh; all results are linear, never "
                 "reduce the component axis and are invariant under translating the mesh.",
        "note": "Undecided: Fubini equality and integral/extent == mean in floating point. Trusted: numpy reductions; mean == sum/n.",
    },
    "C07": {
        "technique": "static analysis: term normal form of the index/corner formulas (floor/ceil corners, half-cell offsets, slice "
                     "bounds), pairing rules (centre and index from one test point; data and mesh from one conversion), axis-tag "
                     "coherence in Mesh.sel/Mesh.pad/Field.pad, guard dominance for out-of-region requests",
        "level": _GEN + "For C07: plane/range selection derives coordinate and index from the same test point and slices [i0, i1+1); "
                 "Mesh.sel keeps exactly the other axes (plane) or moves only the chosen axis' faces to centre -/+ cell/2 (range) "
                 "and keeps/clips overlapping subregions on that axis; Mesh.pad moves pmin/pmax by before/after cells of the named "
                 "axis; extraction by region uses floor/ceil corners; region2slices and Field.__getitem__ slice the matching block; "
                 "resample keeps the region; requests outside the region are refused.",
        "note": "Undecided: which cell contains a coordinate that is not exactly representable, nearest-cell ties, point-wise "
                "equality of values. Validity parity is decided under C08.",
    },
    "C09": {
        "technique": "static analysis: parsing of the header f-string template into key/value lines checked against the OVF 2.0 key "
                     "list and per-axis provenance terms; writer/reader sibling agreement (permutations composed to identity, check "
                     "value and format tables compared with the specification constants, sentinel and prefix codecs); guard "
                     "dominance of the check-value refusal over the data read; contradiction rule for the extend_scalar flag",
        "level": _GEN + "For C09: the written header has every required key with values from the right attribute and axis, label and "
                 "unit counts equal valuedim, the data permutation and the reader's inverse compose to the identity, binary tables "
                 "equal the specification's, a wrong check value or byte count is refused before data are read and the array only "
                 "reaches the constructor through the size-checking reshape, chunks cover the array, unit and label codecs are "
                 "inverse, extend_scalar is always qualified by nvdim == 1, every written extension is readable and the side-car "
                 "is written/loaded under the stated conditions.",
        "note": "Undecided: bit-identity, float32 rounding, 1e-9 text precision, foreign files beyond the implemented header "
                "grammar, all truncation points. Trusted: OVF specification constants, struct codes, C-order flattening.",
    },
    "C10": {
        "technique": "static analysis: slot exhaustiveness against the saved attribute tables, HDF5 key agreement between writer "
                     "and reader per group, sentinel symmetry for optional slots, dtype adequacy of declared datasets, constructor "
                     "signature conformance of the legacy reader (keywords swallowed by **kwargs), guard rules for Region(pmin=,pmax=)",
        "level": _GEN + "For C10: every Region/Mesh/Field state slot named in the statement is written and read back under the same "
                 "key and passed to the matching constructor keyword; None-valued vdims/unit are encoded and decoded symmetrically; "
                 "the subregion table's dtype is derived from the subregion corners; array keeps its own dtype and validity is "
                 "Boolean; the legacy layout is dispatched and its construction binds nvdim. Both readers hand the dtype of the stored dataset back to the constructor (int64 / float32 values stay what was written).",
        "note": "Undecided: bit-identical values and h5py's own behaviour. Noted, not reported: Field's dtype slot is not restored "
                "(int fields come back as float64 with equal values; Field equality ignores dtype).",
    },
    "C11": {
        "technique": "static analysis: composition table of the four transforms as term normal forms (shift/transform order, axes, "
                     "s=shape), per-axis k-mesh terms with axis-tag coherence, symbolic centring/width check of each branch, "
                     "prefix/suffix codec agreement (strip lengths vs the tested literals), guard rules for shape validation",
        "level": _GEN + "For C11: forward = fftshift o fftn, inverse = ifftn o ifftshift over the spatial axes only (real variants "
                 "shift all but the last axis); k-mesh faces are min/max of the (r)fftfreq of the same axis widened by half a "
                 "spacing with len(freqs) cells, a single-cell axis is centred at zero with width 1/cell; names and units are "
                 "renamed consistently and stripped by exactly the tested prefix/suffix; explicit inverse shapes are validated, the "
                 "default real shape is even, the real-space mesh is re-centred; nvdim and unit are kept.",
        "note": "Undecided: the DFT sum itself, Parseval/round-trip accuracy, linearity in floats. Trusted: scipy.fft conventions.",
    },
    "C14": {
        "technique": "static analysis: who-may-write audit of _subregions, guard rules inside the validation loop with "
                     "raise-after-store exclusion, constructor-keyword provenance of the stored regions, sibling rules for "
                     "mesh-level transformations, selection clipping terms, is_aligned idiom, writer/reader agreement (JSON, HDF5)",
        "level": _GEN + "For C14: only the setter writes _subregions, every candidate passes the inside / whole-cells / on-lattice "
                 "tests before the single store, stored regions are fresh objects carrying the mesh's dims, units and tolerance, "
                 "transformations apply the identical step to region and subregions, selections keep and clip the overlapping "
                 "ones on the chosen axis, mesh[name] uses the subregion and the parent's cell, is_aligned compares cells then "
                 "corner remainders, and both persistence formats write and re-validate the subregions.",
        "note": "Undecided: alignment decisions at the tolerance, lattice membership of clipped subregions in floats. By design the "
                "getter hands out the internal dict, so callers can bypass the setter (documented, not reported).",
    },
    "C15": {
        "technique": "static analysis: term normal form of the norm getter/setter and orientation against the guarded-division "
                     "idiom, constructor-keyword provenance, statement-order (typestate) rule for values -> norm -> validity, slot "
                     "audit (no stored norm)",
        "level": _GEN + "For C15: the norm is the Euclidean length over the component axis on the same mesh with the same unit and "
                 "validity; the setter divides only where the norm is non-zero into a zero-initialised array and then rescales by "
                 "the requested norm; orientation divides where ~isclose(norm, 0) at default tolerance; the constructor applies "
                 "values, norm, validity in that order and nothing stores a norm for later re-application.",
        "note": "Undecided: exact lengths/directions for magnitudes 1e-6..1e150 (overflow/underflow of squares).",
    },
    "C16": {
        "technique": "static analysis: per-array permutation/reshape terms of the VTK writer, name agreement between writer and "
                     "reader, inverse permutation and mesh reconstruction terms of the reader, branch table of representations, "
                     "guard dominance for the refusals",
        "level": _GEN + "For C16: point dimensions n+1 and vertex coordinates per axis in x,y,z order; norm, components, field and "
                 "validity arrays permuted (z,y,x[,c]) and flattened x-fastest under the names the reader distinguishes; the reader "
                 "rebuilds n, corners, values and validity with the inverse order; xml/bin/txt select the documented writers; "
                 "legacy point-data files are dispatched and read in mesh order; non-3d fields and unlabelled vectors are refused.",
        "note": "Undecided: what VTK writes and a foreign reader finds; ten-digit text precision. Trusted: VTK cell numbering "
                "(x fastest), GetBounds/GetDimensions layout.",
    },
    "C17": {
        "technique": "static analysis: term normal form of the exported DataArray arguments (coordinates, dims, attrs) and of the "
                     "reconstruction formulas, attribute-name agreement between export and import, guard dominance for refusals",
        "level": _GEN + "For C17: exported coordinates are the cell centres with per-axis units, vectors carry a labelled 'vdims' "
                 "dimension, scalars are squeezed, attrs hold cell, corners, nvdim, unit and tolerance under the names the importer "
                 "reads; without attributes the mesh is rebuilt from mean spacing and half-cell margins of the same dimension; "
                 "labels and dtype reach the constructor; the listed malformed inputs are refused before construction.",
        "note": "Undecided: equality of the round-tripped field; the np.allclose spacing decision.",
    },
    "C19": {
        "technique": "static analysis: guard dominance for every refusal in tools.py, receiver analysis of all field-data reads "
                     "(normalised field only), literal tables (neighbour offsets, triangle orientation, cyclic index pairs, "
                     "symmetric tensor contraction) as term normal forms, inter-procedural axis-tag rule for the demagnetisation "
                     "tensor (coordinate permutation == cell-length permutation per call)",
        "level": _GEN + "For C19: each tool refuses unfit fields before computing; both charge-density methods read data only through "
                 "field.orientation; the continuous density, the four lattice triangles with their bounds/validity tests, the "
                 "emergent-field components and the Bloch-point integration chain have the documented form; neighbouring-cell "
                 "angles slice and shrink only the named axis and clip before arccos; every demagnetisation-tensor element offsets "
                 "each coordinate by its own axis' cell length, components are stacked xx,yy,zz,xy,xz,yz and contracted symmetrically. Newell's auxiliary functions f and g are the published formulas (compared as rational expressions over sqrt / arcsinh / arctan with zero-guards and moduli removed) and each tensor element uses the one that belongs to it.",
        "note": "Undecided: integer charges, rotational invariances, trace -1, agreement of the two tensor routes (they share _N), "
                "the -|M| sum rule numerically.",
    },
    "C18": {
        "technique": "static analysis: typestate/write-site audit of the rotator's three state slots, operand order of the "
                     "(non-commutative) rotation product, read-set rule (no read of the rotated field inside rotate), term normal "
                     "form of the forward/backward rotation pairing and of the centred bounding box, guard dominance in the constructor",
        "level": _GEN + "For C18: unfit fields are refused before the rotator keeps them; only rotate/clear_rotation write the "
                 "rotation state and clear_rotation resets both parts; new rotations are composed on the left and every rotation "
                 "starts from the original field; vectors use the rotation, positions its inverse, component reordering is undone "
                 "by argsort; the target region is centre -/+ half the rotated extents; outside values are zero; labels and mapping "
                 "are kept. (Narrow structural claim.)",
        "note": "Undecided: everything numerical - interpolation weights, which cells are 'one cell inside', resolution choice, "
                "agreement with the lattice quarter turn. Trusted: scipy Rotation composition/apply/inv, RegularGridInterpolator.",
    },
    "C20": {
        "technique": "static analysis: effect/alias analysis with inter-procedural mutation summaries (helpers that write into their "
                     "argument) for purity, term normal form of extent/labels/positions, transposition-count rule on every array "
                     "handed to matplotlib, must-pass-through (dominance) of the filter before each draw call, guard dominance",
        "level": _GEN + "For C20: no write in any plotting method or helper can reach self.field's arrays (every array that is "
                 "filtered or normalised in place is a copy); extent, axis labels and arrow/contour positions use axis 0 for x and "
                 "axis 1 for y divided by the multiplier; every 2-d array is transposed exactly once; arrow components come from "
                 "the axis mapping or the given labels; values pass the validity/user filter before every draw call and hidden "
                 "cells become NaN/transparent; unfit fields and filter/colour/lightness fields are refused.",
        "note": "Undecided: what matplotlib renders. Noted: a user-supplied lightness_field is normalised in place (not the plotted "
                "field, outside the letter of the property).",
    },
}
