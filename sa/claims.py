"""Per-property claim texts for MANIFEST.json (see tools/gen_manifest.py)."""

_GEN = ("Decides the structural clauses listed in DESIGN.md section 5 for this property on every site and path of the "
        "current source; it does not decide numerical behaviour. ")

CLAIMS = {
    "C08": {
        "technique": "static analysis: constructor-keyword provenance matrix over every Field construction, alias/ownership "
                     "summaries of Field._as_array and the validity setter, dtype/shape abstract domain, write-site audit of "
                     "_valid, writer/reader agreement for HDF5 and VTK validity (ast + CFG + term normal form)",
        "level": _GEN + "For C08: every operation named in the statement passes validity with the stated provenance "
                 "(pass-through, logical AND in the field branch, same index/pad/rot90 arguments as the data), no construction "
                 "can share its validity buffer with an operand's, no operator returns its operand, _valid is written only "
                 "by the setter as a Boolean array of the mesh shape, 'norm' uses ~isclose(norm,0) at default tolerance, the "
                 "setter writes nothing else, HDF5/VTK write and read validity with matching names and permutations.",
        "note": "Undecided: element-wise equality of masks, compositions beyond per-operation rules, behaviour of numpy/"
                "xarray/h5py/VTK beyond the documented view-vs-copy and default-tolerance facts listed as trusted base.",
    },
    "C03": {
        "technique": "static analysis: operator-table exhaustiveness and delegate resolution, term normal form of reflected "
                     "operators, constructor-keyword provenance, effect/alias analysis for operand purity, guard dominance "
                     "(CFG) for mesh/component rejection, label/mapping precondition over all Field constructions",
        "level": _GEN + "For C03: every arithmetic dunder maps to the documented numpy function with operands in order, results "
                 "are built on self.mesh from function(self.array, other.array), no operator/helper writes operand memory, "
                 "mesh and component compatibility tests dominate every combination of two fields' arrays (including the "
                 "numpy-ufunc entry point), unsupported types raise TypeError, metadata of the generic binary path depends on "
                 "both operands, and no construction forwards a mapping without its labels.",
        "note": "Undecided: numerical equality with numpy broadcasting for all dtypes; label recovery when stacking; "
                "validity/unit of ufunc results (not demanded by the statement). Known finding: label conflict between two "
                "vector operands with different labels (left operand wins).",
    },
}
