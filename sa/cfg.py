"""E2 - statement-level CFG, dominators, reaching definitions for one function.

Covers the statement kinds the repository uses.  An unknown statement kind raises
AnalysisError (fail closed)."""
import ast

from .model import AnalysisError, body_nodoc


# context managers whose __exit__ never swallows an exception (documented behaviour; trusted, DESIGN.md section 4)
NON_SUPPRESSING = {"open", "h5py.File", "warnings.catch_warnings", "np.errstate", "pathlib.Path.open"}

class Node:
    __slots__ = ("id", "kind", "ast", "stmt", "label")

    def __init__(self, id, kind, astnode=None, stmt=None, label=""):
        self.id = id
        self.kind = kind      # entry | exit | rexit | stmt | test | iter | with | handler | join
        self.ast = astnode    # expression (test/iter) or statement
        self.stmt = stmt      # owning statement
        self.label = label

    def __repr__(self):
        d = ""
        if self.ast is not None:
            try:
                d = ast.unparse(self.ast).split("\n")[0][:60]
            except Exception:
                d = "?"
        return f"<{self.id}:{self.kind} {d}>"


SIMPLE = (ast.Assign, ast.AugAssign, ast.AnnAssign, ast.Expr, ast.Pass, ast.Import, ast.ImportFrom,
          ast.Delete, ast.Global, ast.Nonlocal, ast.Assert, ast.FunctionDef, ast.AsyncFunctionDef,
          ast.ClassDef)


class CFG:
    def __init__(self, fn_node):
        self.fn = fn_node
        self.nodes = []
        self.succ = {}
        self.pred = {}
        self.edge_label = {}        # (a,b) -> 'T' | 'F' | 'exc' | ''
        self.stmt_node = {}         # id(stmt) -> Node (first node evaluating that statement)
        self.parent = {}            # id(stmt) -> (parent stmt or None, field name)
        self.entry = self._new("entry")
        self.exit = self._new("exit")       # normal return
        self.rexit = self._new("rexit")     # exceptional exit
        self._loops = []
        self.back_edges = set()     # (from id, to id) edges that close a loop
        self._handlers = []         # stack of lists of handler-entry nodes
        body = body_nodoc(fn_node)
        self._index_parents(body, None, "body")
        last = self._block(body, [self.entry])
        self._link(last, self.exit)
        self._dom = None
        self._pdom = None
        self._reach = {}
        self._rd = None

    # ------------------------------------------------------------ construction
    def _new(self, kind, astnode=None, stmt=None, label=""):
        n = Node(len(self.nodes), kind, astnode, stmt, label)
        self.nodes.append(n)
        self.succ[n.id] = []
        self.pred[n.id] = []
        return n

    def _edge(self, a, b, label=""):
        if b.id not in self.succ[a.id]:
            self.succ[a.id].append(b.id)
            self.pred[b.id].append(a.id)
        if label:
            self.edge_label[(a.id, b.id)] = label

    def _index_parents(self, stmts, parent, field):
        for st in stmts:
            self.parent[id(st)] = (parent, field)
            if isinstance(st, (ast.FunctionDef, ast.AsyncFunctionDef, ast.ClassDef)):
                continue
            for fld in ("body", "orelse", "finalbody"):
                sub = getattr(st, fld, None)
                if isinstance(sub, list) and sub and isinstance(sub[0], ast.stmt):
                    self._index_parents(sub, st, fld)
            for h in getattr(st, "handlers", []) or []:
                self.parent[id(h)] = (st, "handlers")
                self._index_parents(h.body, h, "body")

    def _exc_targets(self):
        return self._handlers[-1] if self._handlers else None

    def _block(self, stmts, preds):
        cur = list(preds)
        for st in stmts:
            cur = self._stmt(st, cur)
        return cur

    def _link(self, preds, node, label=""):
        for p in preds:
            if isinstance(p, tuple):
                self._edge(p[0], node, p[1])
            else:
                self._edge(p, node, label)

    def _stmt(self, st, preds):
        if isinstance(st, SIMPLE):
            n = self._new("stmt", st, st)
            self.stmt_node[id(st)] = n
            self._link(preds, n)
            h = self._exc_targets()
            if h:
                for hn in h:
                    self._edge(n, hn, "exc")
            return [n]
        if isinstance(st, ast.Return):
            n = self._new("stmt", st, st)
            self.stmt_node[id(st)] = n
            self._link(preds, n)
            self._edge(n, self.exit)
            h = self._exc_targets()
            if h:
                for hn in h:
                    self._edge(n, hn, "exc")
            return []
        if isinstance(st, ast.Raise):
            n = self._new("stmt", st, st)
            self.stmt_node[id(st)] = n
            self._link(preds, n)
            h = self._exc_targets()
            if h:
                for hn in h:
                    self._edge(n, hn, "exc")
            # a raise may also escape the handlers
            self._edge(n, self.rexit)
            return []
        if isinstance(st, ast.If):
            t = self._new("test", st.test, st)
            self.stmt_node[id(st)] = t
            self._link(preds, t)
            out = self._block(st.body, [(t, "T")])
            if st.orelse:
                out += self._block(st.orelse, [(t, "F")])
            else:
                out.append((t, "F"))
            return out
        if isinstance(st, (ast.For, ast.AsyncFor)):
            it = self._new("iter", st.iter, st)
            self.stmt_node[id(st)] = it
            self._link(preds, it)
            self._loops.append({"head": it, "breaks": []})
            out = self._block(st.body, [(it, "T")])
            self._link(out, it)
            for o in out:
                self.back_edges.add(((o[0] if isinstance(o, tuple) else o).id, it.id))
            lp = self._loops.pop()
            res = []
            if st.orelse:
                res += self._block(st.orelse, [(it, "F")])
            else:
                res.append((it, "F"))
            res += lp["breaks"]
            return res
        if isinstance(st, ast.While):
            t = self._new("test", st.test, st)
            self.stmt_node[id(st)] = t
            self._link(preds, t)
            self._loops.append({"head": t, "breaks": []})
            out = self._block(st.body, [(t, "T")])
            self._link(out, t)
            for o in out:
                self.back_edges.add(((o[0] if isinstance(o, tuple) else o).id, t.id))
            lp = self._loops.pop()
            res = []
            if st.orelse:
                res += self._block(st.orelse, [(t, "F")])
            else:
                res.append((t, "F"))
            res += lp["breaks"]
            return res
        if isinstance(st, ast.Break):
            n = self._new("stmt", st, st)
            self.stmt_node[id(st)] = n
            self._link(preds, n)
            self._loops[-1]["breaks"].append(n)
            return []
        if isinstance(st, ast.Continue):
            n = self._new("stmt", st, st)
            self.stmt_node[id(st)] = n
            self._link(preds, n)
            self._edge(n, self._loops[-1]["head"])
            self.back_edges.add((n.id, self._loops[-1]["head"].id))
            return []
        if isinstance(st, (ast.With, ast.AsyncWith)):
            n = self._new("with", st, st)
            self.stmt_node[id(st)] = n
            self._link(preds, n)
            out = self._block(st.body, [n])
            # a context manager may swallow an exception of its body (contextlib.suppress): the body may be left early - unless
            # every manager is one that is known to re-raise (files, warning / floating-point-error scopes)
            if not all(isinstance(it.context_expr, ast.Call) and ast.unparse(it.context_expr.func) in NON_SUPPRESSING
                       for it in st.items):
                out.append(n)
            return out
        if isinstance(st, ast.Try):
            tn = self._new("join", None, st, "try")
            self.stmt_node[id(st)] = tn
            self._link(preds, tn)
            hnodes = []
            for h in st.handlers:
                hn = self._new("handler", h, h)
                self.stmt_node[id(h)] = hn
                hnodes.append(hn)
                self._edge(tn, hn, "exc")
            self._handlers.append(hnodes)
            out = self._block(st.body, [tn])
            self._handlers.pop()
            if st.orelse:
                out = self._block(st.orelse, out)
            hout = []
            for h, hn in zip(st.handlers, hnodes):
                hout += self._block(h.body, [hn])
            res = out + hout
            if st.finalbody:
                res = self._block(st.finalbody, res)
            return res
        raise AnalysisError(f"CFG: unsupported statement kind {type(st).__name__} at line {st.lineno}")

    # ------------------------------------------------------------ graph queries
    def node(self, stmt):
        n = self.stmt_node.get(id(stmt))
        if n is None:
            raise AnalysisError(f"CFG: statement not in graph: {ast.unparse(stmt)[:60]}")
        return n

    def reach_from(self, nid):
        if nid in self._reach:
            return self._reach[nid]
        seen = set()
        st = list(self.succ[nid])
        while st:
            x = st.pop()
            if x in seen:
                continue
            seen.add(x)
            st.extend(self.succ[x])
        self._reach[nid] = seen
        return seen

    def reachable(self, a, b):
        """path of length>=1 from a to b"""
        return b.id in self.reach_from(a.id)

    def _dominators(self, entry, succ, pred):
        ids = [n.id for n in self.nodes]
        allset = set(ids)
        live = {entry}
        st = [entry]
        while st:
            x = st.pop()
            for s in succ[x]:
                if s not in live:
                    live.add(s)
                    st.append(s)
        dom = {i: (set(live) if i != entry else {entry}) for i in live}
        changed = True
        while changed:
            changed = False
            for i in live:
                if i == entry:
                    continue
                ps = [p for p in pred[i] if p in live]
                new = set(live)
                for p in ps:
                    new &= dom[p]
                new = new | {i}
                if new != dom[i]:
                    dom[i] = new
                    changed = True
        return dom

    def dominates(self, a, b):
        """every path entry->b passes a (a==b counts)."""
        if self._dom is None:
            self._dom = self._dominators(self.entry.id, self.succ, self.pred)
        if b.id not in self._dom:
            return True  # b unreachable
        return a.id in self._dom[b.id]

    def dominates_avoiding(self, a, b, avoid_label_from=None):
        return self.dominates(a, b)

    def passes_false_edge(self, test_node, b):
        """every path entry->b passes through test_node and leaves it by the F edge, i.e. b is not
        reachable when the F successors of test_node are cut."""
        if not self.dominates(test_node, b):
            return False
        fsucc = [s for s in self.succ[test_node.id] if self.edge_label.get((test_node.id, s)) == "F"]
        # cut F edges and check reachability from entry
        seen = set()
        st = [self.entry.id]
        while st:
            x = st.pop()
            if x in seen:
                continue
            seen.add(x)
            for s in self.succ[x]:
                if x == test_node.id and s in fsucc:
                    continue
                st.append(s)
        return b.id not in seen

    # ------------------------------------------------------------ syntactic helpers
    def enclosing(self, stmt):
        """list of (parent stmt, field) from innermost to outermost"""
        out = []
        cur = stmt
        while True:
            p = self.parent.get(id(cur))
            if p is None or p[0] is None:
                break
            out.append(p)
            cur = p[0]
        return out

    def path_condition(self, stmt):
        """[(test expr, polarity)] of enclosing if/elif/while, innermost last."""
        conds = []
        for par, fld in self.enclosing(stmt):
            if isinstance(par, ast.If):
                conds.append((par.test, fld == "body"))
            elif isinstance(par, ast.While) and fld == "body":
                conds.append((par.test, True))
        conds.reverse()
        return conds

    def must_literals(self, stmt):
        """[(test expr, polarity, syntactic)] for every if/while test t that every path entry -> stmt leaves by one and the
        same edge, outermost first.  `syntactic` says whether the literal is also an enclosing branch of stmt (then it is in
        path_condition); the others come from earlier guards whose other arm cannot reach stmt (it raised, returned,
        continued).  The list depends on the control-flow graph only, not on how alternatives are nested."""
        n = self.node(stmt)
        if self._dom is None:
            self._dom = self._dominators(self.entry.id, self.succ, self.pred)
        doms = self._dom.get(n.id, set())
        syn = {id(t): pol for t, pol in self.path_condition(stmt)}
        out = []
        for tid in doms:
            t = self.nodes[tid]
            if t.kind != "test" or tid == n.id:
                continue
            if not isinstance(t.stmt, (ast.If, ast.While)):
                continue
            for label, pol in (("T", True), ("F", False)):
                if self._only_by(t, label, n):
                    out.append((len(self._dom.get(tid, ())), t.ast, pol, id(t.ast) in syn and syn[id(t.ast)] == pol))
        out.sort(key=lambda r: r[0])
        return [(a, b, c) for _, a, b, c in out]

    def _only_by(self, tnode, label, target):
        """target is unreachable once the `label` edges of tnode are cut"""
        keep = [s for s in self.succ[tnode.id] if self.edge_label.get((tnode.id, s)) == label]
        if not keep:
            return False
        seen = set()
        st = [self.entry.id]
        while st:
            x = st.pop()
            if x in seen:
                continue
            seen.add(x)
            for s in self.succ[x]:
                if x == tnode.id and s in keep:
                    continue
                st.append(s)
        return target.id not in seen

    def toplevel_ancestor(self, stmt):
        cur = stmt
        while True:
            p = self.parent.get(id(cur))
            if p is None or p[0] is None:
                return cur
            cur = p[0]

    # ------------------------------------------------------------ reaching definitions
    def defs_of_node(self, n):
        """names bound at node n -> list of (name, how, payload)"""
        out = []
        a = n.ast
        if n.kind == "stmt":
            if isinstance(a, ast.Assign):
                for t in a.targets:
                    out += _target_defs(t, a.value, ())
                    out += _setitem_defs(t, a.value, ())
            elif isinstance(a, ast.AnnAssign) and a.value is not None:
                out += _target_defs(a.target, a.value, ())
            elif isinstance(a, ast.AugAssign):
                if isinstance(a.target, ast.Name):
                    out.append((a.target.id, "aug", a))
                elif isinstance(a.target, ast.Subscript) and isinstance(a.target.value, ast.Name):
                    out.append((a.target.value.id, "augitem", a))
            elif isinstance(a, ast.Expr) and isinstance(a.value, ast.Call) and isinstance(a.value.func, ast.Attribute) \
                    and isinstance(a.value.func.value, ast.Name) and a.value.func.attr in ("append", "extend", "update", "insert") \
                    and a.value.func.value.id not in ("self", "cls"):
                out.append((a.value.func.value.id, "mutcall", a.value))
            elif isinstance(a, ast.Expr) and isinstance(a.value, ast.Call):
                # `np.divide(x, y, out=buf, ...)` as a statement: buf now holds what the call returns
                for k in a.value.keywords:
                    if k.arg == "out" and isinstance(k.value, ast.Name) and k.value.id not in ("self", "cls"):
                        out.append((k.value.id, "outcall", a.value))
            elif isinstance(a, (ast.FunctionDef, ast.AsyncFunctionDef, ast.ClassDef)):
                out.append((a.name, "def", a))
            elif isinstance(a, (ast.Import, ast.ImportFrom)):
                for al in a.names:
                    out.append(((al.asname or al.name).split(".")[0], "import", a))
            # walrus inside any expression of a simple statement
            for sub in ast.walk(a) if not isinstance(a, (ast.FunctionDef, ast.AsyncFunctionDef, ast.ClassDef)) else []:
                if isinstance(sub, ast.NamedExpr):
                    out.append((sub.target.id, "walrus", sub.value))
        elif n.kind == "iter":
            out += _target_defs(n.stmt.target, n.stmt.iter, (), how="iter")
        elif n.kind == "with":
            for it in n.stmt.items:
                if it.optional_vars is not None:
                    out += _target_defs(it.optional_vars, it.context_expr, (), how="with")
        elif n.kind == "handler":
            if n.ast.name:
                out.append((n.ast.name, "except", n.ast))
        elif n.kind == "test":
            for sub in ast.walk(a):
                if isinstance(sub, ast.NamedExpr):
                    out.append((sub.target.id, "walrus", sub.value))
        return out

    def reaching(self, restrict=None, forward_only=False):
        """IN sets: node id -> {name: frozenset(def node ids)}; def id -1 = parameter/free.
        restrict: optional set of node ids the paths may use.
        forward_only: ignore loop back edges (definitions that arrive without going round a loop)."""
        key = (None if restrict is None else frozenset(restrict), forward_only)
        if self._rd is None:
            self._rd = {}
        if key in self._rd:
            return self._rd[key]
        allowed = set(n.id for n in self.nodes) if restrict is None else set(restrict)
        gen = {}
        for n in self.nodes:
            gen[n.id] = {d[0] for d in self.defs_of_node(n)}
        IN = {i: {} for i in allowed}
        OUT = {i: {} for i in allowed}
        work = [i for i in sorted(allowed)]
        inwork = set(work)
        while work:
            i = work.pop(0)
            inwork.discard(i)
            acc = {}
            plist = list(self.pred[i])
            if forward_only:
                # a definition in a loop body reaches the code AFTER the loop without "going round" in the sense that
                # matters (it is not loop-carried there): route back-edge sources to the loop's exit successors
                for h in self.pred[i]:
                    if self.edge_label.get((h, i)) == "F":
                        plist += [src for (src, dst) in self.back_edges if dst == h]
            for p in plist:
                if p not in allowed:
                    continue
                if forward_only and (p, i) in self.back_edges:
                    continue
                for k, v in OUT[p].items():
                    acc[k] = acc.get(k, frozenset()) | v
            IN[i] = acc
            out = dict(acc)
            for name in gen[i]:
                out[name] = frozenset([i])
            if out != OUT[i]:
                OUT[i] = out
                nxt = list(self.succ[i])
                if forward_only:
                    for (src, dst) in self.back_edges:
                        if src == i:
                            nxt += [x for x in self.succ[dst] if self.edge_label.get((dst, x)) == "F"]
                for s in nxt:
                    if s in allowed and s not in inwork:
                        work.append(s)
                        inwork.add(s)
        self._rd[key] = (IN, OUT)
        return IN, OUT

    def via_restriction(self, via_nodes):
        """node ids lying on some entry->...->v->... path for every v in via_nodes."""
        allowed = set(n.id for n in self.nodes)
        for v in via_nodes:
            ok = {v.id} | self.reach_from(v.id)
            for n in self.nodes:
                if v.id in self.reach_from(n.id):
                    ok.add(n.id)
            allowed &= ok
        return allowed


def _target_defs(target, value, path, how="assign"):
    out = []
    if isinstance(target, ast.Name):
        out.append((target.id, how, (value, path)))
    elif isinstance(target, (ast.Tuple, ast.List)):
        for i, el in enumerate(target.elts):
            out += _target_defs(el, value, path + (i,), how)
    elif isinstance(target, ast.Starred):
        out += _target_defs(target.value, value, path + ("*",), how)
    # Attribute / Subscript targets bind no local name
    return out


def _setitem_defs(target, value, path):
    """x[i] = v  binds a new abstract value store(x, i, v) to the local name x"""
    out = []
    if isinstance(target, ast.Subscript) and isinstance(target.value, ast.Name):
        out.append((target.value.id, "setitem", (target, value, path)))
    elif isinstance(target, (ast.Tuple, ast.List)):
        for i, el in enumerate(target.elts):
            out += _setitem_defs(el, value, path + (i,))
    return out


def terminates(stmts):
    """True if no path falls through the end of the block (raise/return/continue/break on all paths)."""
    if not stmts:
        return False
    last = stmts[-1]
    if isinstance(last, (ast.Raise, ast.Return, ast.Continue, ast.Break)):
        return True
    if isinstance(last, ast.If):
        return bool(last.orelse) and terminates(last.body) and terminates(last.orelse)
    if isinstance(last, ast.Try):
        return (terminates(last.body) or (bool(last.orelse) and terminates(last.orelse))) and \
            all(terminates(h.body) for h in last.handlers)
    return False


def always_raises(stmts):
    """True if every path through the block ends in a raise."""
    if not stmts:
        return False
    last = stmts[-1]
    if isinstance(last, ast.Raise):
        return True
    if isinstance(last, ast.If):
        return bool(last.orelse) and always_raises(last.body) and always_raises(last.orelse)
    return False


def walk_stmts(stmts, into_defs=False):
    """all statements, recursively (not into nested defs unless asked)."""
    for st in stmts:
        yield st
        if isinstance(st, (ast.FunctionDef, ast.AsyncFunctionDef, ast.ClassDef)) and not into_defs:
            continue
        for fld in ("body", "orelse", "finalbody"):
            sub = getattr(st, fld, None)
            if isinstance(sub, list) and sub and isinstance(sub[0], ast.stmt):
                yield from walk_stmts(sub, into_defs)
        for h in getattr(st, "handlers", []) or []:
            yield from walk_stmts(h.body, into_defs)


def walk_expr(node):
    """walk an expression/statement without descending into nested function/class bodies or lambdas'
    own scope (lambdas are included - they are expressions)."""
    stack = [node]
    first = True
    while stack:
        n = stack.pop()
        if not first and isinstance(n, (ast.FunctionDef, ast.AsyncFunctionDef, ast.ClassDef)):
            continue
        first = False
        yield n
        stack.extend(ast.iter_child_nodes(n))
