"""Rule sharing between properties (DESIGN.md 13.7).

A property's statement is about its anchored functions, but those functions work through helpers that another property's
rules already decide (`Field.norm` for the VTK writer, `_r_dim_mapping` for rotations and plots, `Mesh.cells` for xarray
export, `_as_array` for every result field ...).  A change in such a helper breaks every property whose code reads it, so
the check of property P also evaluates the rule instances that property Q has *on the functions P's anchored functions
reach* (name-based call / attribute closure, frozen in sa/depends.json by tools/gen_depends.py and re-confirmed at run
time: a function that P no longer reaches is skipped).  Q's instances keep their construct key; Q's known findings and
Q's own analysis errors do not carry over."""
import ast
import importlib
import json
import os

from .model import AnalysisError

HERE = os.path.dirname(os.path.abspath(__file__))
SKIP_NAMES = {"__init__", "__class__", "copy", "array", "mesh", "nvdim", "region", "n", "shape", "dtype", "index", "items",
              "values", "keys", "get", "append", "format", "join", "split", "any", "all", "sum", "min", "max", "mean",
              "reshape", "transpose", "astype", "tolist", "item", "update", "pop", "sort", "real", "imag", "T", "size",
              "ndim", "unit", "valid", "vdims", "vdim_mapping", "pmin", "pmax", "dims", "units", "cell", "edges", "center",
              "centre", "subregions", "bc", "tolerance_factor", "mpl", "k3d", "hv", "pyvista", "abs", "conjugate", "phase",
              "field", "line", "data", "name", "length", "default", "selector", "slider", "volume", "multiplier"}


def _simple(q):
    base = q.split("[")[0]
    simple = base.split(".")[-1]
    if simple in ("setter", "getter"):
        simple = base.split(".")[-2]
    return simple


def closure(repo, anchors, depth=1):
    """functions reachable from `anchors` by name (an over-approximation of the call graph that needs no type information):
    `self.x` / `cls.x` resolve inside the own class hierarchy only (an instance attribute that is no method or property is
    data); `obj.x` on any other receiver reaches every class that defines x (common data-like names excluded); a bare
    name that is not a local reaches the module-level function of that name in the same module or in util / operators."""
    by_name = {}
    by_class = {}
    for q, f in repo.funcs.items():
        if f.parent is not None:
            continue
        simple = _simple(q)
        if simple.startswith("__"):
            continue
        by_name.setdefault(simple, set()).add(q)
        if f.cls is not None:
            by_class.setdefault(f.cls.qual, {}).setdefault(simple, set()).add(q)

    def own_class(fi, name):
        out = set()
        if fi.cls is None:
            return out
        for cq in repo.mro(fi.cls.qual):
            out |= by_class.get(cq, {}).get(name, set())
        # mix-ins: methods of classes that build on this one (cls(...) in _FieldIO_HDF5 is Field)
        for cq in repo.classes:
            if fi.cls.qual in repo.mro(cq):
                for c2 in repo.mro(cq):
                    out |= by_class.get(c2, {}).get(name, set())
        return out

    chains = {
        "field.Field": [q for q in repo.funcs if q.startswith(("field.Field.__init__", "field.Field.update_field_values",
                                                                "field.Field.array.setter", "field.Field.valid.setter",
                                                                "field.Field._as_array", "field.Field.vdims.setter",
                                                                "field.Field.vdim_mapping.setter", "field.Field.unit.setter",
                                                                "field.Field.norm.setter"))],
        "mesh.Mesh": [q for q in repo.funcs if q.startswith(("mesh.Mesh.__init__", "mesh.Mesh.subregions.setter",
                                                              "mesh.Mesh.bc.setter", "region.Region.__contains__"))],
        "region.Region": [q for q in repo.funcs if q.startswith(("region.Region.__init__", "region.Region.dims.setter",
                                                                  "region.Region.units.setter",
                                                                  "region.Region.tolerance_factor.setter"))],
    }

    def constructed(fi):
        """classes whose constructor this function calls: self.__class__(...) / cls(...) of its own class, df.X(...)"""
        out = set()
        for n in ast.walk(fi.node):
            if isinstance(n, ast.Call):
                f = ast.unparse(n.func)
                if f in ("self.__class__", "cls", "type(self)") and fi.cls is not None:
                    for cq in list(repo.classes):
                        if fi.cls.qual in repo.mro(cq) and cq in chains:
                            out.add(cq)
                elif f.endswith(".__class__") and "field" in f.lower():
                    out.add("field.Field")
                elif f in ("df.Field", "Field"):
                    out.add("field.Field")
                elif f in ("df.Mesh", "Mesh"):
                    out.add("mesh.Mesh")
                elif f in ("df.Region", "Region"):
                    out.add("region.Region")
        return out

    def mentions(fi):
        out = set()
        node = fi.node
        for cq in constructed(fi):
            out |= {q for q in chains[cq] if repo.funcs[q].parent is None}
        locals_ = {n.id for n in ast.walk(node) if isinstance(n, ast.Name) and isinstance(n.ctx, ast.Store)} | \
            {a.arg for a in node.args.posonlyargs + node.args.args + node.args.kwonlyargs}
        for n in ast.walk(node):
            if isinstance(n, ast.Compare) and any(isinstance(o, (ast.In, ast.NotIn)) for o in n.ops) and \
                    any("region" in ast.unparse(c).lower() for c in n.comparators) and "region.Region.__contains__" in repo.funcs:
                out.add("region.Region.__contains__")
            if isinstance(n, ast.Attribute):
                if isinstance(n.value, ast.Name) and n.value.id in ("self", "cls"):
                    out |= own_class(fi, n.attr)
                elif n.attr not in SKIP_NAMES:
                    out |= {g for g in by_name.get(n.attr, ()) if repo.funcs[g].cls is not None or
                            (isinstance(n.value, ast.Name) and n.value.id not in locals_)}
            elif isinstance(n, ast.Name) and isinstance(n.ctx, ast.Load) and n.id not in locals_ and n.id not in SKIP_NAMES:
                out |= {g for g in by_name.get(n.id, ()) if repo.funcs[g].cls is None}
        return out
    seen = set(a for a in anchors if a in repo.funcs)
    frontier = set(seen)
    for _ in range(depth):
        nxt = set()
        for q in frontier:
            nxt |= mentions(repo.funcs[q]) - seen
        seen |= nxt
        frontier = nxt
        if not frontier:
            break
    # one more level, into private helpers only (`_subregion_filename` behind `load_subregions`): a private function has no
    # other purpose than serving its callers
    extra = set()
    for q in frontier:
        extra |= {g for g in mentions(repo.funcs[q]) if _simple(g).startswith("_") and g not in seen}
    return seen | extra


_DEPENDS = None


def depends():
    global _DEPENDS
    if _DEPENDS is None:
        p = os.path.join(HERE, "depends.json")
        _DEPENDS = json.load(open(p)) if os.path.isfile(p) else {}
    return _DEPENDS


def run_shared(pid, chk, repo, own_mod):
    """add to chk the rule instances other properties have on the helpers this property's anchored functions reach"""
    if os.environ.get("VERIF_NO_SHARED"):
        return
    dep = depends().get(pid, {})
    if not dep:
        return
    from .report import Check, load_known
    reach = closure(repo, list(getattr(own_mod, "ANCHORS", [])) + list(getattr(own_mod, "CLOSURE_ROOTS", [])))
    own_keys = {o["key"] for o in chk.obligations}
    for q_pid in sorted(dep):
        funcs = set(dep[q_pid]) & reach
        if not funcs:
            continue
        try:
            qmod = importlib.import_module(f"sa.rules.{q_pid.lower()}")
        except ModuleNotFoundError:
            continue
        sub = Check(q_pid, repo, "quick")
        try:
            qmod.run(sub)
        except AnalysisError as e:
            chk.note(f"shared rules of {q_pid} stopped early: {str(e)[:120]}")
        except Exception as e:      # noqa: BLE001 - a crash in another property's rules is that property's problem
            chk.note(f"shared rules of {q_pid} crashed: {type(e).__name__}")
        known_q = load_known(q_pid)
        n = 0
        for o in sub.obligations:
            if o["function"] in funcs and o["key"] not in own_keys and o["key"] not in known_q \
                    and not o["key"].startswith("schema::"):
                o2 = dict(o)
                o2["rule"] = f"{o['rule']} (shared: {pid} reads {o['function'].split('.', 1)[-1]})"
                chk.obligations.append(o2)
                chk.analysed_funcs.add(o["function"])
                own_keys.add(o["key"])
                n += 1
        if n:
            chk.note(f"{n} rule instances of {q_pid} on helpers this property reads: {sorted(funcs)[:8]}")
