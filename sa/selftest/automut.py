"""Systematic single-edit mutants of the functions a check consults (mutation analysis of the CHECKER).

Mutants are produced on the AST (operator / comparator / constant / keyword / call-name edits), unparsed,
byte-compiled and handed to the property's rules in memory.  Nothing is executed.  The outcome is a measured
score (how many single edits of the anchored code the check reports) and a survivor list for triage; survivors
are not failures - many single edits are behaviour-preserving (messages, dead defaults, equivalent forms)."""
import ast
import copy
import re
import os
import sys
from concurrent.futures import ProcessPoolExecutor

CMP_SWAP = {ast.Lt: ast.LtE, ast.LtE: ast.Lt, ast.Gt: ast.GtE, ast.GtE: ast.Gt, ast.Eq: ast.NotEq, ast.NotEq: ast.Eq,
            ast.In: ast.NotIn, ast.NotIn: ast.In, ast.Is: ast.IsNot, ast.IsNot: ast.Is}
BIN_SWAP = {ast.Add: ast.Sub, ast.Sub: ast.Add, ast.Mult: ast.Div, ast.Div: ast.Mult}
NAME_SWAP = {"minimum": "maximum", "maximum": "minimum", "floor": "ceil", "ceil": "floor", "logical_and": "logical_or",
             "logical_or": "logical_and", "fftshift": "ifftshift", "ifftshift": "fftshift", "fftn": "ifftn", "ifftn": "fftn",
             "fftfreq": "rfftfreq", "rfftfreq": "fftfreq", "cos": "sin", "sin": "cos", "cumsum": "sum", "min": "max", "max": "min",
             "greater": "less", "less": "greater", "add": "subtract", "subtract": "add", "zeros_like": "ones_like",
             "pmin": "pmax", "pmax": "pmin", "real": "imag", "imag": "real"}


def _inside_raise_or_warn(path):
    for n in path:
        if isinstance(n, ast.Raise):
            return True
        if isinstance(n, ast.Call) and ast.unparse(n.func).endswith(("warn", "format")):
            return True
        if isinstance(n, ast.JoinedStr):
            return True
    return False


def sites(fn_node):
    """[(kind, path-index list)] enumerates mutation sites by walking with a stable order"""
    out = []

    def walk(n, path):
        path = path + [n]
        if isinstance(n, (ast.FunctionDef, ast.AsyncFunctionDef)) and len(path) > 1:
            pass
        if not _inside_raise_or_warn(path):
            if isinstance(n, ast.Compare):
                for i, op in enumerate(n.ops):
                    if type(op) in CMP_SWAP:
                        out.append(("cmp", n, i))
            if isinstance(n, ast.BinOp) and type(n.op) in BIN_SWAP:
                out.append(("bin", n, 0))
            if isinstance(n, ast.BoolOp):
                out.append(("bool", n, 0))
            if isinstance(n, ast.UnaryOp) and isinstance(n.op, (ast.Not, ast.USub, ast.Invert)):
                out.append(("unary", n, 0))
            if isinstance(n, ast.Constant) and isinstance(n.value, (int, float)) and not isinstance(n.value, bool):
                out.append(("const", n, 0))
            if isinstance(n, ast.Constant) and isinstance(n.value, bool):
                out.append(("boolconst", n, 0))
            if isinstance(n, ast.Call):
                for i, k in enumerate(n.keywords):
                    if k.arg is not None:
                        out.append(("dropkw", n, i))
            if isinstance(n, ast.Attribute) and n.attr in NAME_SWAP:
                out.append(("attrname", n, 0))
            if isinstance(n, ast.Name) and n.id in NAME_SWAP and isinstance(n.ctx, ast.Load):
                out.append(("name", n, 0))
            if isinstance(n, ast.IfExp):
                out.append(("ifexp", n, 0))
        for ch in ast.iter_child_nodes(n):
            # skip the docstring
            walk(ch, path)
    for st in fn_node.body:
        if isinstance(st, ast.Expr) and isinstance(st.value, ast.Constant) and isinstance(st.value.value, str):
            continue
        walk(st, [])
    return out


def slice_lines(fn_node, seeds):
    """Backward slice (by local names, flow-insensitive) of the expressions named by `seeds` inside one function:
    {"kw": [...keyword names...], "attr_store": [...attribute names assigned...], "ret": bool}.  Returns the set of
    source lines that can influence a seed (its own lines, the definitions of the names it reads, transitively, and the
    branch conditions around all of those); None when the function has no seed (then every line counts)."""
    seed_exprs = []
    parents = {}
    for n in ast.walk(fn_node):
        for ch in ast.iter_child_nodes(n):
            parents[id(ch)] = n
    for n in ast.walk(fn_node):
        if isinstance(n, ast.keyword) and n.arg in seeds.get("kw", ()):
            seed_exprs.append(n.value)
        if isinstance(n, (ast.Assign, ast.AugAssign)):
            tg = n.targets if isinstance(n, ast.Assign) else [n.target]
            for t in tg:
                base = t
                while isinstance(base, ast.Subscript):
                    base = base.value
                if isinstance(base, ast.Attribute) and base.attr in seeds.get("attr_store", ()):
                    seed_exprs.append(n)
        if isinstance(n, ast.Return) and seeds.get("ret") and n.value is not None:
            seed_exprs.append(n.value)
    if not seed_exprs:
        return None
    lines = set()
    names = set()
    work = list(seed_exprs)
    seen = set()

    def add_node(x):
        for y in ast.walk(x):
            if hasattr(y, "lineno"):
                lines.add(y.lineno)
            if isinstance(y, ast.Name) and isinstance(y.ctx, ast.Load):
                names.add(y.id)
        # enclosing conditions
        cur = x
        while id(cur) in parents:
            cur = parents[id(cur)]
            if isinstance(cur, (ast.If, ast.While)):
                for y in ast.walk(cur.test):
                    if hasattr(y, "lineno"):
                        lines.add(y.lineno)
                    if isinstance(y, ast.Name):
                        names.add(y.id)
            if isinstance(cur, ast.For):
                for y in ast.walk(cur.iter):
                    if hasattr(y, "lineno"):
                        lines.add(y.lineno)
                    if isinstance(y, ast.Name):
                        names.add(y.id)
    for x in work:
        add_node(x)
    changed = True
    while changed:
        changed = False
        for n in ast.walk(fn_node):
            if id(n) in seen:
                continue
            tgt_names = set()
            if isinstance(n, ast.Assign):
                for t in n.targets:
                    for y in ast.walk(t):
                        if isinstance(y, ast.Name):
                            tgt_names.add(y.id)
            elif isinstance(n, (ast.AugAssign, ast.AnnAssign)) and isinstance(n.target, ast.Name):
                tgt_names.add(n.target.id)
            elif isinstance(n, ast.For):
                for y in ast.walk(n.target):
                    if isinstance(y, ast.Name):
                        tgt_names.add(y.id)
            if tgt_names & names:
                seen.add(id(n))
                add_node(n.value if isinstance(n, (ast.Assign, ast.AugAssign, ast.AnnAssign)) and n.value is not None else n.iter)
                if hasattr(n, "lineno"):
                    lines.add(n.lineno)
                changed = True
    # guards that end the function early (raise / return before the seed) also decide whether the seed is reached
    for n in ast.walk(fn_node):
        if isinstance(n, ast.If) and n.body and isinstance(n.body[-1], (ast.Raise, ast.Return)):
            for y in ast.walk(n.test):
                if hasattr(y, "lineno"):
                    lines.add(y.lineno)
    return lines


def apply(kind, n, i):
    """mutate node n in place; returns a description"""
    if kind == "cmp":
        old = type(n.ops[i]).__name__
        n.ops[i] = CMP_SWAP[type(n.ops[i])]()
        return f"comparator {old}->{type(n.ops[i]).__name__}"
    if kind == "bin":
        old = type(n.op).__name__
        n.op = BIN_SWAP[type(n.op)]()
        return f"operator {old}->{type(n.op).__name__}"
    if kind == "bool":
        n.op = ast.Or() if isinstance(n.op, ast.And) else ast.And()
        return "and<->or"
    if kind == "unary":
        return "drop-unary"
    if kind == "const":
        old = n.value
        n.value = old + 1 if isinstance(old, int) else (old * 2 if old != 0 else 1.0)
        return f"constant {old}->{n.value}"
    if kind == "boolconst":
        n.value = not n.value
        return f"bool constant ->{n.value}"
    if kind == "dropkw":
        k = n.keywords.pop(i)
        return f"drop keyword {k.arg}="
    if kind == "attrname":
        old = n.attr
        n.attr = NAME_SWAP[old]
        return f"attribute {old}->{n.attr}"
    if kind == "name":
        old = n.id
        n.id = NAME_SWAP[old]
        return f"name {old}->{n.id}"
    if kind == "ifexp":
        n.body, n.orelse = n.orelse, n.body
        return "swap conditional branches"
    raise ValueError(kind)


def generate(repo_root, quals, repo=None, seeds=None):
    """yield (qual, description, relpath, new source) for every single-edit mutant of the given functions"""
    from ..model import Repo
    repo = repo or Repo(repo_root)
    by_file = {}
    for q in quals:
        fi = repo.funcs.get(q)
        if fi is None or fi.parent is not None:
            continue
        by_file.setdefault(fi.module.relpath, []).append(fi)
    for rel, fis in by_file.items():
        src = repo.modules[fis[0].module.name].src
        for fi in fis:
            base_tree = ast.parse(src)
            # locate the function in the fresh tree by position
            target = None
            for n in ast.walk(base_tree):
                if isinstance(n, (ast.FunctionDef, ast.AsyncFunctionDef)) and n.lineno == fi.node.lineno and n.name == fi.node.name:
                    target = n
            if target is None:
                continue
            base_sites = sites(target)
            nsites = len(base_sites)
            keep = slice_lines(target, seeds) if seeds else None
            for k in range(nsites):
                if keep is not None and getattr(base_sites[k][1], "lineno", 0) not in keep:
                    continue
                tree = copy.deepcopy(base_tree)
                tgt = None
                for n in ast.walk(tree):
                    if isinstance(n, (ast.FunctionDef, ast.AsyncFunctionDef)) and n.lineno == fi.node.lineno and n.name == fi.node.name:
                        tgt = n
                st = sites(tgt)
                kind, node, i = st[k]
                line = getattr(node, "lineno", 0)
                if kind == "unary":
                    # replace the unary node by its operand
                    class R(ast.NodeTransformer):
                        def visit_UnaryOp(self, x):
                            self.generic_visit(x)
                            return x.operand if x is node else x
                    tree = R().visit(tree)
                    desc = "drop unary operator"
                else:
                    desc = apply(kind, node, i)
                ast.fix_missing_locations(tree)
                try:
                    new = ast.unparse(tree)
                    compile(new, rel, "exec")
                except Exception:
                    continue
                srcline = src.splitlines()[line - 1].strip()[:70] if 0 < line <= len(src.splitlines()) else ""
                yield fi.qual, f"line {line} `{srcline}`: {desc}", rel, new


def _job(args):
    pid, repo_root, qual, desc, rel, new = args
    from .corpus import verdict
    v, det = verdict(pid, repo_root, {rel: new})
    return qual, desc, v, det


def run(pid, repo_root, quals, jobs=None, limit=None, seeds=None):
    tasks = []
    for qual, desc, rel, new in generate(repo_root, quals, seeds=seeds):
        tasks.append((pid, repo_root, qual, desc, rel, new))
        if limit and len(tasks) >= limit:
            break
    jobs = jobs or min(16, os.cpu_count() or 4)
    with ProcessPoolExecutor(max_workers=jobs) as ex:
        res = list(ex.map(_job, tasks, chunksize=4))
    reported = [r for r in res if r[2] == "violation"]
    errors = [r for r in res if r[2] == "error"]
    survivors = [r for r in res if r[2] == "ok"]
    return {"auto_mutants": len(res), "auto_reported": len(reported), "auto_analysis_errors": len(errors),
            "auto_survivors": len(survivors),
            "auto_survivor_sample": [f"{q} {d}" for q, d, v, det in survivors[:40]],
            "auto_error_sample": [f"{q} {d}: {det}" for q, d, v, det in errors[:10]]}, res


def analyse(pid, repo_root, quals=None):
    """single-edit mutation analysis of one property's check -> (summary dict, rows [(qual, desc, verdict, detail, triage)])"""
    import importlib
    mod = importlib.import_module(f"sa.rules.{pid.lower()}")
    triage = getattr(mod, "AUTOMUT_TRIAGE", [])
    quals = quals or list(mod.ANCHORS)
    summary, res = run(pid, repo_root, quals, seeds=getattr(mod, "AUTOMUT_SEEDS", None))
    rows = []
    explained = 0
    for q, d, v, det in res:
        why = ""
        if v == "ok":
            for fre, dre, reason in triage:
                if re.search(fre, q) and re.search(dre, d):
                    why = reason
                    explained += 1
                    break
        rows.append((q, d, v, det, why))
    summary["auto_survivors_triaged"] = explained
    summary["auto_survivors_untriaged"] = summary["auto_survivors"] - explained
    summary["auto_untriaged_sample"] = [f"{q} {d}" for q, d, v, det, why in rows if v == "ok" and not why][:20]
    summary.pop("auto_survivor_sample", None)
    return summary, rows


def main(argv):
    """python -m sa.selftest.automut <pid> [function quals...]   (default: the functions the check consults)"""
    import json
    pid = argv[0]
    repo_root = os.environ.get("VERIF_REPO", "/repo")
    summary, rows = analyse(pid, repo_root, argv[1:] or None)
    for q, d, v, det, why in rows:
        if v != "violation":
            print(f"{v:9s} {q} {d} {det if v == 'error' else (f'[triaged: {why}]' if why else '')}"[:260])
    print(json.dumps({k: v for k, v in summary.items() if not k.endswith("sample")}))
    return 0


if __name__ == "__main__":
    sys.exit(main(sys.argv[1:]))
