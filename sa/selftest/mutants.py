"""Mutant corpus: each entry breaks one property while the variant still compiles.
F = discretisedfield/field.py etc.  `anchor` (unique text) selects the first `old` after it."""
F = "discretisedfield/field.py"
M = "discretisedfield/mesh.py"
R = "discretisedfield/region.py"
OP = "discretisedfield/operators.py"
H5 = "discretisedfield/io/hdf5.py"
OVF = "discretisedfield/io/ovf.py"
VTK = "discretisedfield/io/vtk.py"
IO = "discretisedfield/io/__init__.py"
T = "discretisedfield/tools/tools.py"
U = "discretisedfield/util/util.py"
ROT = "discretisedfield/field_rotator.py"
MPL = "discretisedfield/plotting/mpl_field.py"
PU = "discretisedfield/plotting/util.py"
LN = "discretisedfield/line.py"


def m(id, expect, file, old, new, anchor=None, count=1):
    d = {"id": id, "expect": expect, "file": file, "old": old, "new": new, "count": count}
    if anchor:
        d["anchor"] = anchor
    return d


MUTANTS = [
    # ------------------------------------------------------------------ C08
    m("c08-neg-drops-valid", ["C08"], F, "            valid=self.valid,\n", "", anchor="def __neg__(self):"),
    m("c08-diff-drops-valid", ["C08"], F, "            valid=self.valid,\n", "", anchor="def diff(self, direction, order=1, restrict2valid=True):"),
    m("c08-norm-drops-valid", ["C08"], F, "unit=self.unit, valid=self.valid\n", "unit=self.unit\n"),
    m("c08-dot-or", ["C08"], F, "valid = np.logical_and(valid, other.valid)", "valid = np.logical_or(valid, other.valid)", anchor="def dot(self, other):"),
    m("c08-cross-one-sided", ["C08"], F, "valid = np.logical_and(valid, other.valid)", "valid = np.logical_and(valid, valid)", anchor="def cross(self, other):"),
    m("c08-angle-no-and", ["C08"], F, "            valid = np.logical_and(valid, vector.valid)\n", "            pass\n"),
    m("c08-sel-valid-unsliced", ["C08"], F, "valid = self.valid[slices[:-1]]", "valid = self.valid[slices[1:]]"),
    m("c08-getitem-valid-whole", ["C08"], F, "valid=self.valid[tuple(slices)],", "valid=self.valid[tuple(slices[::-1])],"),
    m("c08-pad-valid-mode", ["C08"], F, "padded_valid = np.pad(self.valid, padding_sequence, mode=mode, **kwargs)",
      "padded_valid = np.pad(self.valid, padding_sequence, mode=\"constant\")"),
    m("c08-rot-valid-k", ["C08", "C12"], F, "valid = np.rot90(self.valid.copy(), k=k, axes=(idx1, idx2))",
      "valid = np.rot90(self.valid.copy(), k=-k, axes=(idx1, idx2))"),
    m("c08-setter-dtype", ["C08"], F, "self._valid = self._as_array(valid, self.mesh, nvdim=1, dtype=bool)[..., 0]",
      "self._valid = self._as_array(valid, self.mesh, nvdim=1, dtype=None)[..., 0]"),
    m("c08-norm-tolerance", ["C08"], F, "valid = ~np.isclose(self.norm.array, 0)", "valid = ~np.isclose(self.norm.array, 0, atol=1e-3)"),
    m("c08-norm-inverted", ["C08"], F, "valid = ~np.isclose(self.norm.array, 0)", "valid = np.isclose(self.norm.array, 0)"),
    m("c08-shortcut-view", ["C08"], F, "return np.expand_dims(np.array(val, dtype=dtype), axis=-1)", "return np.expand_dims(val, axis=-1)"),
    m("c08-shortcut-asarray", ["C08"], F, "return np.expand_dims(np.array(val, dtype=dtype), axis=-1)",
      "return np.expand_dims(np.asarray(val, dtype=dtype), axis=-1)"),
    m("c08-pos-returns-self", ["C08"], F, "        return self.__class__(\n            self.mesh,\n            nvdim=self.nvdim,\n            value=+self.array,\n            vdims=self.vdims,\n            valid=self.valid,\n            vdim_mapping=self.vdim_mapping,\n        )\n",
      "        return self\n"),
    m("c08-h5-valid-int", ["C08"], H5, 'h5_field.create_dataset("valid", data=self.valid, dtype=np.bool_)',
      'h5_field.create_dataset("valid", data=self.valid, dtype=np.int8)'),
    m("c08-h5-load-no-valid", ["C08"], H5, '            valid=h5_field["valid"],\n', ""),
    m("c08-vtk-valid-perm", ["C08"], F, "self.valid.astype(int).transpose((2, 1, 0)).reshape(-1)", "self.valid.astype(int).transpose((1, 2, 0)).reshape(-1)"),
    m("c08-vtk-read-no-valid", ["C08"], VTK, "return cls(mesh, nvdim=dim, value=value, vdims=vdims, valid=valid)",
      "return cls(mesh, nvdim=dim, value=value, vdims=vdims)"),
    m("c08-resample-valid-self", ["C08"], F, "valid=self.__class__(self.mesh, nvdim=1, value=self.valid, dtype=bool),", "valid=True,"),
    m("c08-setter-touches-array", ["C08"], F, "        else:\n            valid = True\n", "        else:\n            valid = True\n            self._array[...] = 0\n"),
    # ------------------------------------------------------------------ C03
    m("c03-sub-uses-add", ["C03"], F, "return self._apply_operator(other, np.subtract, \"-\")", "return self._apply_operator(other, np.add, \"-\")"),
    m("c03-rsub-sign", ["C03"], F, "return -self + other", "return self - other"),
    m("c03-rtruediv-order", ["C03"], F, "lambda x, y: np.divide(y, x)", "lambda x, y: np.divide(x, y)"),
    m("c03-rand-sign", ["C03"], F, "return -self.cross(other)", "return self.cross(other)"),
    m("c03-apply-swapped", ["C03"], F, "res_array = function(self.array, other)", "res_array = function(other, self.array)"),
    m("c03-apply-no-check", ["C03"], F, "            self._check_same_mesh_and_field_dim(other, ignore_scalar=True)\n", ""),
    m("c03-dot-ignore-scalar", ["C03"], F, "self._check_same_mesh_and_field_dim(other)", "self._check_same_mesh_and_field_dim(other, ignore_scalar=True)", anchor="def dot(self, other):"),
    m("c03-check-mesh-dropped", ["C03"], F, "if not self.mesh.allclose(other.mesh):", "if False:"),
    m("c03-check-bypass-widened", ["C03"], F, "if ignore_scalar and (self.nvdim == 1 or other.nvdim == 1):", "if ignore_scalar or (self.nvdim == 1 or other.nvdim == 1):"),
    m("c03-abs-no-vdims", ["C03"], F, "            value=np.abs(self.array),\n            vdims=self.vdims,\n            unit=self.unit,", "            value=np.abs(self.array),\n            unit=self.unit,"),
    m("c03-ufunc-no-mesh-check", ["C03"], F, "            if not self.mesh.allclose(m):\n                raise ValueError(\n                    \"To perform this operation all fields must have the same mesh.\"\n                )\n", "            pass\n"),
    m("c03-neg-inplace", ["C03"], F, "            value=-self.array,\n", "            value=np.negative(self.array, out=self.array),\n"),
    m("c03-lshift-order", ["C03"], F, "        array_list = [self.array[..., i] for i in range(self.nvdim)]\n        array_list += [other.array[..., i] for i in range(other.nvdim)]",
      "        array_list = [other.array[..., i] for i in range(other.nvdim)]\n        array_list += [self.array[..., i] for i in range(self.nvdim)]"),
    m("c03-meshallclose-n", ["C03"], M, ") and np.array_equal(self.n, other.n)", ")", anchor="def allclose(self, other, rtol=None, atol=None):"),
    m("c03-scalar-vector-labels", ["C03"], F, "                vdims = other.vdims\n", "                vdims = self.vdims\n"),
    m("c03-cross-nvdim", ["C03"], F, "nvdim=3,\n            value=np.cross(self.array, other),", "nvdim=3,\n            value=np.cross(other, self.array),"),
    # ------------------------------------------------------------------ C12 / C13
    m("c12-region-matrix-sign", ["C12"], R, "[np.cos(k * np.pi / 2), -np.sin(k * np.pi / 2)],\n                [np.sin(k * np.pi / 2), np.cos(k * np.pi / 2)],",
      "[np.cos(k * np.pi / 2), np.sin(k * np.pi / 2)],\n                [-np.sin(k * np.pi / 2), np.cos(k * np.pi / 2)],"),
    m("c12-field-mix-sign", ["C12"], F, "value[..., vdim1] = cos_theta * value1 - sin_theta * value2", "value[..., vdim1] = cos_theta * value1 + sin_theta * value2"),
    m("c12-field-mix-nocopy", ["C12"], F, "value1 = value[..., vdim1].copy()", "value1 = value[..., vdim1]"),
    m("c12-field-axes-swapped", ["C12"], F, "value = np.rot90(self.array.copy(), k=k, axes=(idx1, idx2))", "value = np.rot90(self.array.copy(), k=k, axes=(idx2, idx1))"),
    m("c12-region-ref-axis", ["C12"], R, "ref_2 = reference_point[idx2]", "ref_2 = reference_point[idx1]"),
    m("c12-units-always-swap", ["C12"], R, "        if k % 2 == 1:\n            units[idx1], units[idx2] = units[idx2], units[idx1]", "        if True:\n            units[idx1], units[idx2] = units[idx2], units[idx1]"),
    m("c12-region-inplace-no-units", ["C12", "C13"], R, "            self.units = units\n", ""),
    m("c12-mesh-subregion-ref-none", ["C12", "C13"], M, "        if reference_point is None:\n            reference_point = self.region.centre\n", "", anchor="def rotate90(self, ax1, ax2, k=1, reference_point=None, inplace=False):"),
    m("c12-mesh-n-even", ["C12", "C13"], M, "if k % 2 == 1:\n            idx1 = self.region._dim2index(ax1)", "if k % 2 == 0:\n            idx1 = self.region._dim2index(ax1)"),
    m("c12-field-inplace-mesh-first", ["C12", "C13"], F, "reference_point=reference_point, inplace=False\n        )", "reference_point=reference_point, inplace=inplace\n        )"),
    m("c12-field-copy-drops-unit", ["C12", "C13"], F, "                dtype=self.dtype,\n                unit=self.unit,\n                valid=valid,", "                dtype=self.dtype,\n                valid=valid,"),
    m("c12-k-float-accepted", ["C12"], R, "if not isinstance(k, int):", "if not isinstance(k, (int, float)):"),
    m("c13-scale-inplace-raw", ["C13"], R, "            self._pmin = np.minimum(pmin, pmax)\n            self._pmax = np.maximum(pmin, pmax)\n", "            self._pmin = pmin\n            self._pmax = pmax\n"),
    m("c13-scale-inplace-zero", ["C13"], R, "            if not np.all(pmax - pmin):\n", "            if False:\n",
      anchor="def scale(self, factor, reference_point=None, inplace=False):"),
    m("c04-periodic-substring-test", ["C04", "C05"], F, "periodic = (\n            self.mesh.bc not in (\"neumann\", \"dirichlet\") and direction in self.mesh.bc\n        )",
      "periodic = direction in self.mesh.bc"),   # AF26 before its repair
    m("c04-periodic-one-name-excluded", ["C04"], F, "self.mesh.bc not in (\"neumann\", \"dirichlet\") and direction in self.mesh.bc", "self.mesh.bc != \"neumann\" and direction in self.mesh.bc"),
    m("schema-array2tuple-condition-negated", ["C01", "C13"], "discretisedfield/util/util.py", "if array.size == 1 else", "if array.size != 1 else"),
    m("schema-array2tuple-two-coordinates", ["C01"], "discretisedfield/util/util.py", "if array.size == 1 else", "if array.size == 2 else"),
    m("c13-translate-complex-elements", ["C13"], R, "            if not isinstance(elem, numbers.Real):\n                raise TypeError(\n                    f\"Unsupported element {elem} of type {type(elem)} for translate.\"",
      "            if not isinstance(elem, numbers.Number):\n                raise TypeError(\n                    f\"Unsupported element {elem} of type {type(elem)} for translate.\""),   # AF25 before its repair
    m("c13-scale-complex-elements", ["C13"], R, "                if not isinstance(elem, numbers.Real):\n                    raise TypeError(\n                        f\"Unsupported element {elem} of type {type(elem)} for scale.\"",
      "                if not isinstance(elem, numbers.Complex):\n                    raise TypeError(\n                        f\"Unsupported element {elem} of type {type(elem)} for scale.\""),
    m("schema-tolerance-factor-builtin-types", ["C10", "C13", "C01"], R, "if not isinstance(tolerance_factor, numbers.Number):", "if not isinstance(tolerance_factor, (int, float)):"),
    m("schema-nvdim-builtin-int", ["C02", "C08", "C10"], F, "if not isinstance(nvdim, numbers.Integral):", "if not isinstance(nvdim, int):"),
    m("c13-translate-one-corner", ["C13"], R, "pmax = np.add(self.pmax, vector)", "pmax = np.add(self.pmax, 0)"),
    m("c13-scale-about-pmin", ["C13"], R, "pmin = reference_point - (reference_point - self.pmin) * factor", "pmin = reference_point - (reference_point - self.pmin) / factor"),
    m("c13-mesh-scale-sub-own-centre", ["C13"], M, "sr.scale(factor, inplace=True, reference_point=sr_ref)", "sr.scale(factor, inplace=True, reference_point=reference_point)"),
    m("c13-mesh-translate-skip-subregions", ["C13"], M, "                sr.translate(vector, inplace=True)\n", "                sr.translate(vector)\n"),
    m("c13-mesh-copy-mutates", ["C13"], M, "region = self.region.translate(vector)\n", "region = self.region.translate(vector, inplace=True)\n"),
    m("c13-foreign-writer", ["C13"], M, "        self.bc = bc\n\n        self.subregions = subregions\n", "        self.bc = bc\n\n        self.subregions = subregions\n        self.region._pmin = self.region._pmin * 1\n"),
    m("c13-n-not-validated", ["C13"], M, "            elif not all(i > 0 for i in n):\n                raise ValueError(\"The values of n must be positive integers.\")\n", ""),
    m("c13-region-zero-edge", ["C13"], R, "        if not np.all(self.edges):\n", "        if False:\n"),
    m("c13-inplace-returns-copy", ["C13"], R, "            self._pmin = pmin\n            self._pmax = pmax\n            return self\n",
      "            self._pmin = pmin\n            self._pmax = pmax\n            return self.__class__(p1=self.pmin, p2=self.pmax)\n",
      anchor="def translate(self, vector, inplace=False):"),
    # pre-repair forms of AF20 (a far-away translation / rotation centre absorbs the extent; the copying form refuses)
    m("c13-translate-inplace-degenerate", ["C13"], R, "            if not np.all(pmax - pmin):\n", "            if False:\n",
      anchor="def translate(self, vector, inplace=False):"),
    m("c13-translate-inplace-nominal-test", ["C13"], R, "            if not np.all(pmax - pmin):\n", "            if not np.all(self.edges):\n",
      anchor="def translate(self, vector, inplace=False):"),
    m("c13-rotate-inplace-degenerate", ["C13"], R, "            if not np.all(p2 - p1):\n", "            if False:\n"),
    m("c13-rotate-inplace-test-after-store", ["C13"], R,
      "            if not np.all(p2 - p1):\n                raise ValueError(\n                    \"At least one of the region's edge lengths would be zero after\"\n                    f\" rotating about {reference_point=}.\"\n                )\n            self._pmin = np.minimum(p1, p2)\n            self._pmax = np.maximum(p1, p2)\n            self.units = units\n",
      "            self._pmin = np.minimum(p1, p2)\n            self._pmax = np.maximum(p1, p2)\n            self.units = units\n            if not np.all(p2 - p1):\n                raise ValueError('zero edge')\n"),
]

MUTANTS += [
    # ------------------------------------------------------------------ C01
    m("c01-index2point-half", ["C01"], M, "point = self.region.pmin + np.add(index, 0.5) * self.cell", "point = self.region.pmin + np.add(index, 1) * self.cell"),
    m("c01-index2point-range", ["C01"], M, "np.logical_or(np.less(index, 0), np.greater_equal(index, self.n)).any()", "np.logical_or(np.less(index, 0), np.greater(index, self.n)).any()"),
    m("c01-point2index-ceil", ["C01"], M, "index = np.floor((point - self.region.pmin) / self.cell).astype(int)", "index = np.ceil((point - self.region.pmin) / self.cell).astype(int)"),
    m("c01-point2index-clip", ["C01"], M, "index = np.clip(index, 0, self.n - 1)", "index = np.clip(index, 0, self.n)"),
    m("c01-point2index-no-guard", ["C01"], M, "        if point not in self.region:\n", "        if False:\n"),
    m("c01-cells-offset", ["C01"], M, "np.linspace(pmin + cell / 2, pmax - cell / 2, n)", "np.linspace(pmin + cell / 2, pmax - cell, n)"),
    m("c01-cells-zip-order", ["C01"], M, "self.region.pmin, self.region.pmax, self.cell, self.n\n", "self.region.pmax, self.region.pmin, self.cell, self.n\n"),
    m("c01-vertices-count", ["C01"], M, "np.linspace(pmin, pmax, n + 1)", "np.linspace(pmin, pmax, n)"),
    m("c01-indices-order", ["C01"], M, "for index in itertools.product(*map(range, reversed(self.n))):\n            yield tuple(reversed(index))",
      "for index in itertools.product(*map(range, self.n)):\n            yield tuple(index)"),
    m("c01-coordinate-axis", ["C01"], M, "self.n[i] if i == j else 1 for j in range(self.region.ndim)", "self.n[j] if i == j else 1 for j in reversed(range(self.region.ndim))"),
    m("c01-contains-upper", ["C01"], R, "np.greater_equal(self.pmax, other)\n", "np.greater_equal(self.pmin, other)\n"),
    m("c01-contains-atol", ["C01"], R, "atol = np.min(self.edges) * self.tolerance_factor\n            rtol = self.tolerance_factor\n            return np.all(", "atol = np.max(self.edges) * self.tolerance_factor\n            rtol = self.tolerance_factor\n            return np.all("),
    m("c01-cell-divisibility", ["C01", "C13"], M, "            rem = np.remainder(self.region.edges, cell)\n            if np.logical_and(\n", "            rem = np.remainder(self.region.edges, cell)\n            if False and np.logical_and(\n"),
    m("c01-n-from-cell-floor", ["C01", "C13"], M, "self._n = np.divide(self.region.edges, cell).round().astype(int)", "self._n = np.divide(self.region.edges, cell).astype(int)"),
    m("c01-cell-def", ["C01"], M, "return np.divide(self.region.edges, self.n).astype(float)", "return np.divide(self.region.edges, self.n + 1).astype(float)"),
]

MUTANTS += [
    # ------------------------------------------------------------------ C02
    m("c02-dict-forward-order", ["C02"], F, "for subregion in reversed(mesh.subregions.keys()):", "for subregion in mesh.subregions.keys():"),
    m("c02-dict-slab-store", ["C02"], F, "array[tuple(idx)] = np.asarray(subval(mesh.index2point(idx))).reshape(nvdim)", "array[idx] = np.asarray(subval(mesh.index2point(idx))).reshape(nvdim)"),
    m("c02-dict-wrong-key", ["C02"], F, "                subval = val[subregion]\n", "                subval = val.get(subregion, val.get(\"default\"))\n"),
    m("c02-dict-no-keyerror", ["C02"], F, "            if \"default\" not in val:\n", "            if False:\n"),
    m("c02-callable-misaligned", ["C02"], F, "for index, point in zip(mesh.indices, mesh):", "for index, point in zip(mesh.indices, reversed(list(mesh))):"),
    m("c02-call-wrong-lookup", ["C02"], F, "return self.array[self.mesh.point2index(point)]", "return self.array[self.mesh.point2index(point)[::-1]]"),
    m("c02-getattr-column", ["C02"], F, "attr_array = self.array[..., self.vdims.index(attr), np.newaxis]", "attr_array = self.array[..., self.vdims.index(attr) - 1, np.newaxis]"),
    m("c02-line-endpoint", ["C02"], M, "dl = np.subtract(p2, p1) / (n - 1)", "dl = np.subtract(p2, p1) / n"),
    m("c02-line-no-guard", ["C02"], M, "if p1 not in self.region or p2 not in self.region:", "if p1 not in self.region and p2 not in self.region:"),
    m("c02-line-r-from-origin", ["C02"], LN, "np.linalg.norm(points - points[0, :], axis=1)", "np.linalg.norm(points - points[-1, :], axis=1)"),
    m("c02-component-count-unchecked", ["C02"], F, "            elif np.shape(val)[-1] != nvdim:\n", "            elif False:\n"),
    m("c02-update-bypasses-setter", ["C02"], F, "        self.array = self._as_array(value, self.mesh, self.nvdim, dtype=self.dtype)\n", "        self._array = self._as_array(value, self.mesh, self.nvdim, dtype=self.dtype)\n"),
    m("c02-field-source-no-check", ["C02"], F, "    if mesh.region not in val.mesh.region:\n", "    if False:\n"),
    m("c02-field-source-not-nearest", ["C02"], F, 'method="nearest",\n        )\n        .data', 'method="pad",\n        )\n        .data'),
    m("c02-init-valid-before-norm", ["C02"], F, "        self.norm = norm\n        self.valid = valid\n", "        self.valid = valid\n        self.norm = norm\n"),
    m("c02-shortcut-any-nvdim", ["C02"], F, "if nvdim == 1 and np.array_equal(np.shape(val), mesh.n):", "if np.array_equal(np.shape(val), mesh.n):"),
]

MUTANTS += [
    # ------------------------------------------------------------------ C04
    m("c04-stencil-4pt-coeff", ["C04"], OP, "derivative_array[0] = 2 * array[0] - 5 * array[1] + 4 * array[2] - array[3]", "derivative_array[0] = 2 * array[0] - 4 * array[1] + 3 * array[2] - array[3]"),
    m("c04-stencil-right-index", ["C04"], OP, "2 * array[-1] - 5 * array[-2] + 4 * array[-3] - array[-4]", "2 * array[-1] - 5 * array[-2] + 4 * array[-3] - array[-5]"),
    m("c04-kernel", ["C04"], OP, "np.convolve(array, [1, -2, 1], \"same\")", "np.convolve(array, [1, -2, 2], \"same\")"),
    m("c04-threshold-4", ["C04"], OP, "if len(array) >= 4:", "if len(array) >= 3:"),
    m("c04-threshold-5", ["C04"], OP, "if len(array) >= 4:", "if len(array) >= 5:"),
    m("c04-edge-order", ["C04"], OP, "derivative_array = np.gradient(array, dx, edge_order=2)", "derivative_array = np.gradient(array, dx, edge_order=1)"),
    m("c04-short-run", ["C04"], OP, "if len(array) < order + 1:", "if len(array) < order:"),
    m("c04-dx-power", ["C04"], OP, "derivative_array = derivative_array / dx**2", "derivative_array = derivative_array / dx"),
    m("c04-run-bounds", ["C04"], OP, "array[loc[i] + 1 : loc[i + 1]]", "array[loc[i] : loc[i + 1]]"),
    m("c04-scatter-invalid", ["C04"], OP, "idx = np.where(np.invert(valid))[0]", "idx = np.where(valid)[0]"),
    m("c04-nonlinear", ["C04"], OP, "derivative_array[0] = array[0] - 2 * array[1] + array[2]", "derivative_array[0] = array[0] - 2 * array[1] + array[2] + 1e-30"),
    m("c04-diff-cell-axis", ["C04"], F, "field.mesh.cell[direction_idx],\n", "field.mesh.cell[0],\n"),
    m("c04-diff-valid-ones", ["C04"], F, "np.ones_like(field.valid, dtype=bool)", "np.zeros_like(field.valid, dtype=bool)"),
    m("c04-diff-pad-width", ["C04"], F, "field = self.pad({direction: (1, 1)}, mode=\"wrap\")", "field = self.pad({direction: (1, 0)}, mode=\"wrap\")"),
    m("c04-diff-pad-mode", ["C04"], F, "field = self.pad({direction: (1, 1)}, mode=\"wrap\")", "field = self.pad({direction: (1, 1)}, mode=\"edge\")"),
    m("c04-diff-unpadded-mask", ["C04"], F, "valid = field.valid if restrict2valid else", "valid = self.valid if restrict2valid else"),
    m("c04-diff-drops-unit", ["C04"], F, "            unit=self.unit,\n            valid=self.valid,\n", "            valid=self.valid,\n", anchor="def diff(self, direction, order=1, restrict2valid=True):"),
    m("c04-diff-order3", ["C04"], F, "if order not in (1, 2):\n            raise NotImplementedError(f\"Derivative of {order=} is not implemented.\")", "if order not in (1, 2, 3):\n            raise NotImplementedError(f\"Derivative of {order=} is not implemented.\")"),
    m("c04-pad-mesh-widths", ["C04", "C07"], F, "padded_mesh = self.mesh.pad(pad_width)", "padded_mesh = self.mesh.pad({k: (w[1], w[0]) for k, w in pad_width.items()})"),
]

MUTANTS += [
    # ------------------------------------------------------------------ C05
    m("c05-curl-swap-x", ["C05"], F, "curl_x = getattr(self, self._r_dim_mapping[z]).diff(y) - getattr(\n            self, self._r_dim_mapping[y]\n        ).diff(z)",
      "curl_x = getattr(self, self._r_dim_mapping[y]).diff(z) - getattr(\n            self, self._r_dim_mapping[z]\n        ).diff(y)"),
    m("c05-curl-positional", ["C05"], F, "curl_y = getattr(self, self._r_dim_mapping[x]).diff(z)", "curl_y = getattr(self, self.vdims[0]).diff(z)"),
    m("c05-curl-order", ["C05"], F, "return curl_x << curl_y << curl_z", "return curl_x << curl_z << curl_y"),
    m("c05-div-by-position", ["C05"], F, "getattr(self, vdim).diff(self.vdim_mapping[vdim]) for vdim in self.vdims",
      "getattr(self, vdim).diff(dim) for vdim, dim in zip(self.vdims, self.mesh.region.dims)"),
    m("c05-laplace-order1", ["C05"], F, "sum(self.diff(dim, order=2) for dim in self.mesh.region.dims)", "sum(self.diff(dim, order=1) for dim in self.mesh.region.dims)"),
    m("c05-laplace-skip-dim", ["C05"], F, "                    getattr(self, vdim).diff(dim, order=2)\n                    for dim in self.mesh.region.dims\n", "                    getattr(self, vdim).diff(dim, order=2)\n                    for dim in self.mesh.region.dims[:-1]\n"),
    m("c05-grad-reversed", ["C05"], F, "derivatives = [self.diff(dim) for dim in self.mesh.region.dims]", "derivatives = [self.diff(dim) for dim in reversed(self.mesh.region.dims)]"),
    m("c05-grad-accepts-vectors", ["C05"], F, "        if self.nvdim != 1:\n            msg = f\"Cannot compute gradient", "        if self.nvdim < 1:\n            msg = f\"Cannot compute gradient"),
    m("c05-div-dimension", ["C05"], F, "if self.nvdim != self.mesh.region.ndim:", "if self.nvdim < self.mesh.region.ndim:"),
    m("c05-rmap-direction", ["C05"], F, "reversed_mapping = {val: key for key, val in self.vdim_mapping.items()}", "reversed_mapping = {key: val for key, val in self.vdim_mapping.items()}"),
    m("c05-relabel-drops-mapping", ["C05"], F, "new_vdim: self.vdim_mapping[old_vdim]\n                for new_vdim, old_vdim in zip(vdims, old_vdims)", "new_vdim: self.vdim_mapping[old_vdim]\n                for new_vdim, old_vdim in zip(vdims, reversed(old_vdims))"),
    m("c05-grad-stack-order", ["C05"], F, "        for derivative in derivatives[1:]:\n            result = result << derivative\n\n        return result\n\n    @property\n    def div(self):", "        for derivative in derivatives[1:]:\n            result = derivative << result\n\n        return result\n\n    @property\n    def div(self):"),
]

MUTANTS += [
    # ------------------------------------------------------------------ C06
    m("c06-integrate-cell-axis", ["C06"], F, "res_array = np.sum(self.array, axis=axis) * self.mesh.cell[axis]", "res_array = np.sum(self.array, axis=axis) * self.mesh.cell[0]"),
    m("c06-integrate-dv", ["C06"], F, "return sum_ * self.mesh.dV", "return sum_ * self.mesh.cell[0]"),
    m("c06-cumulative-half", ["C06"], F, "tmp_array = self.array / 2", "tmp_array = self.array / 1"),
    m("c06-cumulative-shift", ["C06"], F, "left_cells = dfu.assemble_index(slice(None), ndim, {axis: slice(None, -1)})", "left_cells = dfu.assemble_index(slice(None), ndim, {axis: slice(1, None)})"),
    m("c06-cumulative-axis", ["C06"], F, "np.cumsum(self.array, axis=axis)[left_cells]", "np.cumsum(self.array, axis=0)[left_cells]"),
    m("c06-cumulative-mesh", ["C06"], F, "mesh = self.mesh if cumulative else self.mesh.sel(direction)", "mesh = self.mesh.sel(direction) if cumulative else self.mesh"),
    m("c06-mean-reduced-mesh-axis", ["C06"], F, "axis[i] = self.mesh.region._dim2index(d)", "axis[i] = mesh.region._dim2index(d)"),
    m("c06-mean-single-axis", ["C06"], F, "value=self.array.mean(axis=axis),", "value=self.array.mean(axis=axis - 1),"),
    m("c06-mean-duplicates", ["C06"], F, "            if len(direction) != len(set(direction)):\n", "            if False:\n"),
    m("c06-integrate-abs", ["C06"], F, "sum_ = np.sum(self.array, axis=tuple(range(self.mesh.region.ndim)))", "sum_ = np.sum(np.abs(self.array), axis=tuple(range(self.mesh.region.ndim)))"),
    m("c06-integrate-component-axis", ["C06"], F, "sum_ = np.sum(self.array, axis=tuple(range(self.mesh.region.ndim)))", "sum_ = np.sum(self.array, axis=tuple(range(self.mesh.region.ndim + 1)))"),
    m("c06-integrate-position", ["C06"], F, "return sum_ * self.mesh.dV", "return sum_ * self.mesh.dV + 1e-30 * self.mesh.region.pmin[0]"),
    m("c06-module-integrate", ["C06"], OP, "return field.integrate(direction=direction, cumulative=cumulative)", "return field.integrate(direction=direction)"),
    m("c06-dv", ["C06"], M, "return np.prod(self.cell).item()", "return np.sum(self.cell).item()"),
]

MUTANTS += [
    # ------------------------------------------------------------------ C07
    m("c07-sel-index-from-other-point", ["C07"], M, "selection_index = self.point2index(test_point)[dim_index]", "selection_index = self.point2index(self.region.center)[dim_index]"),
    m("c07-sel-slice-exclusive", ["C07"], M, "selection_index = slice(selection_index[0], selection_index[1] + 1)", "selection_index = slice(selection_index[0], selection_index[1])"),
    m("c07-sel-unsorted", ["C07"], M, "for point in sorted(range_):", "for point in range_:"),
    m("c07-sel-outside-allowed", ["C07"], M, "                if (\n                    range_ < self.region.pmin[dim_index]\n                    or range_ > self.region.pmax[dim_index]\n                ):", "                if (\n                    range_ < self.region.pmin[dim_index]\n                    and range_ > self.region.pmax[dim_index]\n                ):"),
    m("c07-fieldsel-axis", ["C07"], F, "slice(None), self.mesh.region.ndim + 1, {dim_index: sel_index}", "slice(None), self.mesh.region.ndim + 1, {0: sel_index}"),
    m("c07-meshsel-plane-keeps-axis", ["C07"], M, "idxs = [i for i in range(self.region.ndim) if i != dim_index]", "idxs = [i for i in range(self.region.ndim) if i != 0]"),
    m("c07-meshsel-range-step", ["C07"], M, "min_val = selection[0] - step", "min_val = selection[0]"),
    m("c07-meshsel-subregion-clip", ["C07", "C14"], M, "sub_p_1[dim_index] = max(min_val, sub_reg_p_min)", "sub_p_1[dim_index] = min(min_val, sub_reg_p_min)"),
    m("c07-meshsel-subregion-touching", ["C07", "C14"], M, "if sub_reg_p_min >= max_val or min_val >= sub_reg_p_max:", "if sub_reg_p_min > max_val or min_val > sub_reg_p_max:"),
    m("c07-meshpad-sides", ["C07"], M, "pmin[axis] -= pad_width[direction][0] * self.cell[axis]", "pmin[axis] -= pad_width[direction][1] * self.cell[axis]"),
    m("c07-meshpad-cell-axis", ["C07"], M, "pmax[axis] += pad_width[direction][1] * self.cell[axis]", "pmax[axis] += pad_width[direction][1] * self.cell[0]"),
    m("c07-meshpad-drops-bc", ["C07"], M, "            cell=self.cell,\n            bc=self.bc,\n        )", "            cell=self.cell,\n        )"),
    m("c07-getitem-ceil", ["C07"], M, "p2_idx = (np.ceil((item.pmax - self.region.pmin) / self.cell) - 1).astype(int)", "p2_idx = (np.floor((item.pmax - self.region.pmin) / self.cell) - 1).astype(int)"),
    m("c07-getitem-lower", ["C07"], M, "p1 = np.subtract(self.index2point(self.point2index(item.pmin)), hc)", "p1 = np.subtract(self.index2point(self.point2index(item.pmin)), self.cell)"),
    m("c07-getitem-no-guard", ["C07"], M, "        if item not in self.region:\n            msg = f\"Subregion '{item}'", "        if False:\n            msg = f\"Subregion '{item}'"),
    m("c07-fieldgetitem-offset", ["C07"], F, "index_max = np.add(index_min, submesh.n)", "index_max = np.add(index_min, submesh.n - 1)"),
    m("c07-region2slices-half", ["C07"], M, "i1 = self.point2index(region.pmin + self.cell / 2)", "i1 = self.point2index(region.pmin)"),
    m("c07-region2slices-inclusive", ["C07"], M, "slice(i1[i], i2[i] + 1)", "slice(i1[i], i2[i])"),
    m("c07-resample-region", ["C07"], F, "mesh = df.Mesh(region=self.mesh.region, n=n)", "mesh = df.Mesh(p1=self.mesh.region.pmin, p2=self.mesh.region.pmax + self.mesh.cell, n=n)"),
    m("c07-fieldpad-axis", ["C07"], F, "d[self.mesh.region._dim2index(key)] = value", "d[self.mesh.region.ndim - 1 - self.mesh.region._dim2index(key)] = value"),
    m("c07-assemble-index", ["C07"], U, "    index = [value] * n\n", "    index = [value] * (n - 1)\n"),
]

MUTANTS += [
    # ------------------------------------------------------------------ C10
    m("c10-attrs-drop-units", ["C10"], H5, '_h5_attrs = ("pmin", "pmax", "dims", "ndim", "units", "tolerance_factor")', '_h5_attrs = ("pmin", "pmax", "dims", "ndim", "tolerance_factor")'),
    m("c10-mesh-drop-bc", ["C10"], H5, 'for attr in ["n", "bc"]:', 'for attr in ["n"]:'),
    m("c10-mesh-load-no-bc", ["C10"], H5, '            bc=h5_mesh.attrs["bc"],\n', ""),
    m("c10-subregion-dtype", ["C10"], H5, "dtype=np.result_type(\n                    *(p for sr in self.subregions.values() for p in (sr.pmin, sr.pmax))\n                ),", "dtype=self.region.pmin.dtype,"),
    m("c10-subregion-row-order", ["C10"], H5, "h5_mesh_subregions[i] = [*subregion.pmin, *subregion.pmax]", "h5_mesh_subregions[i] = [*subregion.pmax, *subregion.pmin]"),
    m("c10-subregion-split", ["C10"], H5, "p1=data[: region.ndim], p2=data[region.ndim :]", "p1=data[: region.ndim], p2=data[region.ndim - 1 :]"),
    m("c10-unit-not-decoded", ["C10"], H5, '        if unit == "None":\n            unit = None\n', ""),
    m("c10-vdims-sentinel-mismatch", ["C10"], H5, 'if isinstance(vdims, str) and vdims == "None":', 'if isinstance(vdims, str) and vdims == "none":'),
    m("c10-array-dtype-float", ["C10"], H5, '"array", data_shape, dtype=self.array.dtype', '"array", data_shape, dtype=float'),
    m("c10-legacy-dim-kw", ["C10"], H5, "return cls(mesh, nvdim=dim, value=array[:], dtype=array.dtype)", "return cls(mesh, dim=dim, value=array[:], dtype=array.dtype)"),
    m("c10-legacy-never", ["C10"], H5, 'if "ubermag-hdf5-file-version" not in f.attrs:', 'if "ubermag-hdf5-file-version" in f.attrs and False:'),
    m("c10-load-no-vdims", ["C10"], H5, "            vdims=vdims,\n            unit=unit,", "            unit=unit,"),
    m("c10-key-mismatch", ["C10"], H5, 'value=h5_field["array"][data_location],', 'value=h5_field["data"][data_location],'),
    m("c10-region-kw-unchecked", ["C10"], R, "if not all(np.asarray(pmin) < np.asarray(pmax)):", "if not all(np.asarray(pmin) <= np.asarray(pmax)):"),
    m("c10-names-from-values", ["C10"], H5, 'h5_mesh.create_dataset("subregion_names", data=list(self.subregions.keys()))', 'h5_mesh.create_dataset("subregion_names", data=sorted(self.subregions.keys()))'),
]

MUTANTS += [
    # ------------------------------------------------------------------ C09
    m("c09-header-ymin-axis", ["C09"], OVF, "# ymin: {self.mesh.region.pmin[1]}", "# ymin: {self.mesh.region.pmin[0]}"),
    m("c09-header-xbase", ["C09"], OVF, "# xbase: {self.mesh.region.pmin[0] + self.mesh.cell[0]/2}", "# xbase: {self.mesh.region.pmin[0]}"),
    m("c09-header-znodes", ["C09"], OVF, "# znodes: {self.mesh.n[2]}", "# znodes: {self.mesh.n[1]}"),
    m("c09-header-missing-meshtype", ["C09"], OVF, "            # meshtype: rectangular\n", ""),
    m("c09-header-valuedim", ["C09"], OVF, "# valuedim: {write_dim}", "# valuedim: {self.nvdim}"),
    m("c09-writer-perm", ["C09"], OVF, "reordered = self.array.transpose((2, 1, 0, 3))", "reordered = self.array.transpose((1, 2, 0, 3))"),
    m("c09-reader-perm", ["C09"], OVF, "t_tuple = (2, 1, 0, 3)", "t_tuple = (1, 2, 0, 3)"),
    m("c09-reader-shape", ["C09"], OVF, 'r_tuple = (*reversed(mesh.n), header["valuedim"])', 'r_tuple = (*mesh.n, header["valuedim"])'),
    m("c09-check-value-8", ["C09"], OVF, '"bin8": ("<d", 123456789012345.0)', '"bin8": ("<d", 12345678901234.0)'),
    m("c09-writer-endianness", ["C09"], OVF, '"bin4": ("<f", 1234567.0)', '"bin4": (">f", 1234567.0)'),
    m("c09-reader-endianness", ["C09"], OVF, "format = f'{\"<\" if ovf_v2 else \">\"}{\"d\" if nbytes == 8 else \"f\"}'", "format = f'{\"<\"}{\"d\" if nbytes == 8 else \"f\"}'"),
    m("c09-check-not-enforced", ["C09"], OVF, "if nbytes not in (4, 8) or test_value != check[nbytes]:", "if nbytes not in (4, 8):"),
    m("c09-check-after-read", ["C09"], OVF, "if nbytes not in (4, 8) or test_value != check[nbytes]:", "if nbytes not in (4, 8) and test_value != check[nbytes]:"),
    m("c09-chunk-floor", ["C09"], OVF, "n_chunks = math.ceil(len(reordered.flat) / chunksize)", "n_chunks = math.floor(len(reordered.flat) / chunksize)"),
    m("c09-chunk-overlap", ["C09"], OVF, "reordered.flat[i * chunksize : (i + 1) * chunksize]", "reordered.flat[i * chunksize : (i + 1) * chunksize + 1]"),
    m("c09-unit-not-decoded", ["C09"], OVF, '                if unit == "None":  # written for fields without unit\n                    unit = None\n', ""),
    m("c09-label-split", ["C09"], OVF, 'comp = comp.split("_", 1)[1] if "_" in comp else comp', 'comp = comp.split("_")[1] if "_" in comp else comp'),
    m("c09-extend-unqualified", ["C09"], OVF, "        extend_scalar = extend_scalar and self.nvdim == 1\n        write_dim = 3 if extend_scalar else self.nvdim", "        write_dim = 3 if extend_scalar and self.nvdim == 1 else self.nvdim"),
    m("c09-fromfile-suffix", ["C09"], IO, 'if filename.suffix in [".omf", ".ovf", ".ohf", ".oef"]:', 'if filename.suffix in [".omf", ".ovf", ".oef"]:'),
    m("c09-sidecar-always", ["C09"], OVF, "if save_subregions and self.mesh.subregions:", "if save_subregions or self.mesh.subregions:"),
    m("c09-sidecar-not-loaded", ["C09"], OVF, "        with contextlib.suppress(FileNotFoundError):\n            mesh.load_subregions(filename)\n", "        pass\n"),
    m("c09-ovf1-valuedim", ["C09"], OVF, 'header["valuedim"] = int(header["valuedim"]) if ovf_v2 else 3', 'header["valuedim"] = int(header["valuedim"]) if ovf_v2 else 1'),
    m("c09-count", ["C09"], OVF, 'count=int(nodes * header["valuedim"])', 'count=int(nodes)'),
    m("c09-repr-word", ["C09"], OVF, 'repr_string = "Binary 4"', 'repr_string = "Binary4"'),
    m("c09-labels-dropped", ["C09"], OVF, "            vdims=vdims,\n            unit=unit,\n        )", "            unit=unit,\n        )"),
]

MUTANTS += [
    # ------------------------------------------------------------------ C11
    m("c11-fftn-ifftshift", ["C11"], F, "        ft = spfft.fftshift(\n            spfft.fftn(self.array, axes=axes, **kwargs),\n            axes=axes,\n        )", "        ft = spfft.ifftshift(\n            spfft.fftn(self.array, axes=axes, **kwargs),\n            axes=axes,\n        )"),
    m("c11-ifftn-order", ["C11"], F, "        ft = spfft.ifftn(\n            spfft.ifftshift(self.array, axes=axes),\n            axes=axes,", "        ft = spfft.ifftn(\n            spfft.fftshift(self.array, axes=axes),\n            axes=axes,"),
    m("c11-rfftn-shift-all", ["C11"], F, "            spfft.rfftn(self.array, axes=axes, **kwargs),\n            axes=axes[:-1],", "            spfft.rfftn(self.array, axes=axes, **kwargs),\n            axes=axes,"),
    m("c11-irfftn-no-shape", ["C11"], F, "            axes=axes,\n            s=shape,\n", "            axes=axes,\n"),
    m("c11-fftn-component-axis", ["C11"], F, "        axes = range(self.mesh.region.ndim)\n        ft = spfft.fftshift(\n            spfft.fftn(", "        axes = range(self.mesh.region.ndim + 1)\n        ft = spfft.fftshift(\n            spfft.fftn("),
    m("c11-rfftn-mesh", ["C11"], F, "mesh = self.mesh.fftn(rfft=True)", "mesh = self.mesh.fftn()"),
    m("c11-single-cell-offcentre", ["C11"], M, "                p1.append(-0.5 / self.cell[i])\n                p2.append(0.5 / self.cell[i])\n                n.append(1)\n            else:\n                if rfft", "                p1.append(0)\n                p2.append(1 / self.cell[i])\n                n.append(1)\n            else:\n                if rfft"),
    m("c11-freq-cell-axis", ["C11"], M, "freqs = spfft.fftfreq(self.n[i], self.cell[i])", "freqs = spfft.fftfreq(self.n[i], self.cell[0])"),
    m("c11-rfft-first-axis", ["C11"], M, "if rfft and i == self.region.ndim - 1:", "if rfft and i == 0:"),
    m("c11-dfreq", ["C11"], M, "dfreq = abs(freqs[1] - freqs[0]) / 2\n                p1.append(min(freqs) - dfreq)\n                p2.append(max(freqs) + dfreq)\n                n.append(len(freqs))\n\n        kdims = [f\"k_{d}\"", "dfreq = abs(freqs[1] - freqs[0])\n                p1.append(min(freqs) - dfreq)\n                p2.append(max(freqs) + dfreq)\n                n.append(len(freqs))\n\n        kdims = [f\"k_{d}\""),
    m("c11-kdims-prefix", ["C11"], M, 'kdims = [f"k_{d}" for d in self.region.dims]', 'kdims = [f"k{d}" for d in self.region.dims]'),
    m("c11-kunits-strip", ["C11"], M, 'u[1:-8] if u.startswith("(") and u.endswith(")$^{-1}$") else u', 'u[1:-7] if u.startswith("(") and u.endswith(")$^{-1}$") else u'),
    m("c11-ft-strip", ["C11"], F, 'vdim[3:] if vdim.startswith("ft_") else vdim for vdim in self.vdims', 'vdim[2:] if vdim.startswith("ft_") else vdim for vdim in self.vdims'),
    m("c11-ifftn-default-shape", ["C11"], M, "shape[-1] = (self.n[-1] - 1) * 2", "shape[-1] = self.n[-1] * 2 - 1"),
    m("c11-ifftn-not-centred", ["C11"], M, "        mesh.translate(-mesh.region.center, inplace=True)\n", "        mesh.translate(-mesh.region.center)\n"),
    m("c11-shape-last-unchecked", ["C11"], M, "if shape[-1] // 2 + 1 != self.n[-1]:", "if shape[-1] // 2 + 1 > self.n[-1]:"),
    m("c11-fftn-drops-unit", ["C11"], F, "            vdims=new_vdims,\n            unit=self.unit,\n", "            vdims=new_vdims,\n"),
    m("c11-mapping-old-key", ["C11"], F, "new_vdim_mapping[new_vdim] = f\"k_{self.vdim_mapping[vdim]}\"", "new_vdim_mapping[vdim] = f\"k_{self.vdim_mapping[vdim]}\""),
]

MUTANTS += [
    # ------------------------------------------------------------------ C14
    m("c14-setter-no-inside-test", ["C14"], M, "            if value not in self.region:\n                raise ValueError(f\"Subregion {key} is not in the mesh region.\")\n", ""),
    m("c14-setter-no-alignment-test", ["C14"], M, "if not self.is_aligned(self.__class__(region=value, cell=self.cell)):", "if False:"),
    m("c14-setter-store-first", ["C14"], M, "        # Check if subregions are aligned with the mesh\n        for key, value in subregions.items():", "        self._subregions = dict(subregions)\n        # Check if subregions are aligned with the mesh\n        for key, value in subregions.items():"),
    m("c14-setter-keeps-caller-objects", ["C14"], M, "        self._subregions = {\n            name: df.Region(\n                p1=sr.pmin,\n                p2=sr.pmax,\n                dims=self.region.dims,\n                units=self.region.units,\n                tolerance_factor=self.region.tolerance_factor,\n            )\n            for name, sr in subregions.items()\n        }", "        self._subregions = dict(subregions)"),
    m("c14-setter-own-units", ["C14"], M, "                dims=self.region.dims,\n                units=self.region.units,\n                tolerance_factor=self.region.tolerance_factor,\n            )\n            for name, sr in subregions.items()", "                dims=self.region.dims,\n                units=sr.units,\n                tolerance_factor=self.region.tolerance_factor,\n            )\n            for name, sr in subregions.items()"),
    m("c14-aligned-only-pmin", ["C14"], M, 'for i in ["pmin", "pmax"]:', 'for i in ["pmin"]:'),
    m("c14-aligned-cells-unchecked", ["C14"], M, "        if not np.allclose(self.cell, other.cell, atol=tolerance):\n            return False\n", ""),
    m("c14-aligned-remainder", ["C14"], M, "            rem = np.remainder(abs(diff), self.cell)\n", "            rem = np.remainder(abs(diff), 2 * self.cell)\n"),
    m("c14-todict-misses-units", ["C14"], R, '            "units": self.units,\n', ""),
    m("c14-load-bypasses-setter", ["C14"], IO, "self.subregions = {key: df.Region(**val) for key, val in subregions.items()}", "self._subregions = {key: df.Region(**val) for key, val in subregions.items()}"),
    m("c14-getitem-name-cell", ["C14", "C07"], M, "return self.__class__(region=self.subregions[item], cell=self.cell)", "return self.__class__(region=self.subregions[item], n=self.n)"),
    m("c14-init-bypasses-setter", ["C14", "C13"], M, "        self.subregions = subregions\n", "        self._subregions = subregions or {}\n"),
]

MUTANTS += [
    # ------------------------------------------------------------------ C15
    m("c15-norm-axis", ["C15"], F, "res = np.linalg.norm(self.array, axis=-1, keepdims=True)", "res = np.linalg.norm(self.array, axis=0, keepdims=True)"),
    m("c15-norm-l1", ["C15"], F, "res = np.linalg.norm(self.array, axis=-1, keepdims=True)", "res = np.linalg.norm(self.array, ord=1, axis=-1, keepdims=True)"),
    m("c15-norm-drops-unit", ["C15"], F, "self.mesh, nvdim=1, value=res, unit=self.unit, valid=self.valid", "self.mesh, nvdim=1, value=res, valid=self.valid"),
    m("c15-setter-unguarded", ["C15"], F, "                out=np.zeros_like(self.array),\n                where=self.norm.array != 0.0,\n", "", anchor="def norm(self, val):"),
    m("c15-setter-no-rescale", ["C15"], F, "            self.array *= self._as_array(val, self.mesh, nvdim=1, dtype=None)\n", "            pass\n"),
    m("c15-setter-rescale-first", ["C15"], F, "            self.array *= self._as_array(val, self.mesh, nvdim=1, dtype=None)\n", "            self.array += self._as_array(val, self.mesh, nvdim=1, dtype=None)\n"),
    m("c15-orientation-threshold", ["C15"], F, "where=np.invert(np.isclose(self.norm.array, 0)),", "where=np.invert(np.isclose(self.norm.array, 0, atol=1e-3)),"),
    m("c15-orientation-out", ["C15"], F, "            out=np.zeros_like(self.array),\n        )\n        return self.__class__(\n            self.mesh,\n            nvdim=self.nvdim,\n            value=orientation_array,", "            out=np.ones_like(self.array),\n        )\n        return self.__class__(\n            self.mesh,\n            nvdim=self.nvdim,\n            value=orientation_array,"),
    m("c15-orientation-drops-valid", ["C15", "C08"], F, "            value=orientation_array,\n            vdims=self.vdims,\n            valid=self.valid,", "            value=orientation_array,\n            vdims=self.vdims,"),
    m("c15-update-reapplies-norm", ["C15", "C02"], F, "        self.array = self._as_array(value, self.mesh, self.nvdim, dtype=self.dtype)\n\n    @property\n    def vdims", "        self.array = self._as_array(value, self.mesh, self.nvdim, dtype=self.dtype)\n        self.norm = getattr(self, \"_last_norm\", None)\n\n    @property\n    def vdims"),
]

MUTANTS += [
    # ------------------------------------------------------------------ C16
    m("c16-dimensions", ["C16"], F, "rgrid.SetDimensions(*(n + 1 for n in self.mesh.n))", "rgrid.SetDimensions(*(n for n in self.mesh.n))"),
    m("c16-coordinates-order", ["C16"], F, "[rgrid.SetXCoordinates, rgrid.SetYCoordinates, rgrid.SetZCoordinates],", "[rgrid.SetYCoordinates, rgrid.SetXCoordinates, rgrid.SetZCoordinates],"),
    m("c16-coordinates-cells", ["C16"], F, "np.fromiter(getattr(self.mesh.vertices, dim), float)", "np.fromiter(getattr(self.mesh.cells, dim), float)"),
    m("c16-field-perm", ["C16"], F, "self.array.transpose((2, 1, 0, 3)).reshape((-1, self.nvdim))", "self.array.transpose((0, 1, 2, 3)).reshape((-1, self.nvdim))"),
    m("c16-norm-perm", ["C16"], F, "self.norm.array.transpose((2, 1, 0, 3)).reshape(-1)", "self.norm.array.transpose((1, 2, 0, 3)).reshape(-1)"),
    m("c16-component-perm", ["C16"], F, "getattr(self, comp).array.transpose((2, 1, 0, 3)).reshape(-1)", "getattr(self, comp).array.reshape(-1)"),
    m("c16-field-name", ["C16", "C08"], F, 'field_array.SetName("field")', 'field_array.SetName("Field")'),
    m("c16-valid-not-added", ["C16"], F, "        cell_data.AddArray(valid_array)\n", ""),
    m("c16-reader-bounds", ["C16"], VTK, "p2 = output.GetBounds()[1::2]", "p2 = output.GetBounds()[3:]"),
    m("c16-reader-n", ["C16"], VTK, "n = [i - 1 for i in output.GetDimensions()]", "n = [i for i in output.GetDimensions()]"),
    m("c16-reader-order", ["C16"], VTK, "value = vns.vtk_to_numpy(array).reshape(*reversed(n), dim)", "value = vns.vtk_to_numpy(array).reshape(*n, dim)"),
    m("c16-reader-perm", ["C16"], VTK, "value = value.transpose((2, 1, 0, 3))", "value = value.transpose((1, 2, 0, 3))"),
    m("c16-reader-norm-as-label", ["C16"], VTK, 'elif name not in ["norm"]:', "else:"),
    m("c16-txt-binary", ["C16"], VTK, 'if representation == "txt":\n            writer.SetFileTypeToASCII()', 'if representation == "bin8":\n            writer.SetFileTypeToASCII()'),
    m("c16-unknown-repr", ["C16"], VTK, '            writer = vtkRectilinearGridWriter()\n        else:\n            raise ValueError(f"Unknown {representation=}.")', '            writer = vtkRectilinearGridWriter()\n        else:\n            writer = vtkRectilinearGridWriter()'),
    m("c16-refuse-2d", ["C16"], F, "        if self.mesh.region.ndim != 3:\n            raise RuntimeError(\n                \"Conversion to VTK", "        if self.mesh.region.ndim > 3:\n            raise RuntimeError(\n                \"Conversion to VTK"),
    m("c16-legacy-never", ["C16"], VTK, "if cell_data.GetNumberOfArrays() == 0:", "if cell_data.GetNumberOfArrays() < 0:"),
    m("c16-sidecar", ["C16"], VTK, "        with contextlib.suppress(FileNotFoundError):\n            mesh.load_subregions(filename)\n\n        return cls(mesh, nvdim=dim, value=value, vdims=vdims, valid=valid)", "        return cls(mesh, nvdim=dim, value=value, vdims=vdims, valid=valid)"),
]

MUTANTS += [
    # ------------------------------------------------------------------ C17
    m("c17-coords-vertices", ["C17"], F, "data_array_coords = {axis: getattr(self.mesh.cells, axis) for axis in axes}", "data_array_coords = {axis: getattr(self.mesh.vertices, axis)[:-1] for axis in axes}"),
    m("c17-attrs-pmax", ["C17"], F, "                pmax=self.mesh.region.pmax,\n                nvdim=self.nvdim,", "                pmax=self.mesh.region.pmin,\n                nvdim=self.nvdim,"),
    m("c17-attrs-no-tolerance", ["C17"], F, "                nvdim=self.nvdim,\n                tolerance_factor=self.mesh.region.tolerance_factor,\n", "                nvdim=self.nvdim,\n"),
    m("c17-coordinate-units-first", ["C17"], F, 'data_array[dim].attrs["units"] = geo_units_dict[dim]', 'data_array[dim].attrs["units"] = self.mesh.region.units[0]'),
    m("c17-corner-half-cell", ["C17"], F, "else [xa[i].values[0] - c / 2 for i, c in zip(dims_list, cell)]", "else [xa[i].values[0] for i, c in zip(dims_list, cell)]"),
    m("c17-upper-corner-first", ["C17"], F, "else [xa[i].values[-1] + c / 2 for i, c in zip(dims_list, cell)]", "else [xa[i].values[0] + c / 2 for i, c in zip(dims_list, cell)]"),
    m("c17-cell-median", ["C17"], F, "cell = [np.diff(xa[i].values).mean() for i in dims_list]", "cell = [np.diff(xa[i].values).max() for i in dims_list]"),
    m("c17-uneven-accepted", ["C17"], F, "            if xa[i].values.size > 1 and not np.allclose(\n", "            if xa[i].values.size > 2 and not np.allclose(\n"),
    m("c17-nvdim-missing", ["C17"], F, '        if "nvdim" not in xa.attrs:\n            raise KeyError(', '        if False:\n            raise KeyError('),
    m("c17-vdims-dim-missing", ["C17"], F, 'if xa.attrs["nvdim"] > 1 and "vdims" not in xa.dims:', 'if xa.attrs["nvdim"] > 3 and "vdims" not in xa.dims:'),
    m("c17-dtype-dropped", ["C17"], F, "mesh=mesh, nvdim=nvdim, value=val, vdims=vdims, dtype=xa.values.dtype\n", "mesh=mesh, nvdim=nvdim, value=val, vdims=vdims\n"),
    m("c17-labels-dropped", ["C17"], F, 'vdims = xa.vdims.values if "vdims" in xa.coords else None', "vdims = None"),
    m("c17-scalar-not-squeezed", ["C17"], F, "field_array = np.squeeze(self.array, axis=-1)", "field_array = np.squeeze(self.array)"),
]

MUTANTS += [
    # ------------------------------------------------------------------ C19
    m("c19-demag-unpermuted-cell", ["C19"], T, "_N_element(y, z, x, (dy, dz, dx), _f),  # Nyy", "_N_element(y, z, x, (dx, dy, dz), _f),  # Nyy"),
    m("c19-demag-xz-perm", ["C19"], T, "_N_element(x, z, y, (dx, dz, dy), _g),  # Nxz", "_N_element(x, z, y, (dx, dy, dz), _g),  # Nxz"),
    m("c19-demag-zz-function", ["C19"], T, "_N_element(z, x, y, (dz, dx, dy), _f),  # Nzz", "_N_element(z, x, y, (dz, dx, dy), _g),  # Nzz"),
    m("c19-demag-offset-axis", ["C19"], T, "y + (i[1] - i[4]) * dy", "y + (i[1] - i[4]) * dx"),
    m("c19-demag-norm", ["C19"], T, "return -value / (4 * np.pi * np.prod(cell))", "return -value / (4 * np.pi * np.sum(cell))"),
    m("c19-demag-hy", ["C19"], T, "        + tensor.ft_yy * m_fft.ft_y\n        + tensor.ft_yz * m_fft.ft_z\n", "        + tensor.ft_yy * m_fft.ft_y\n        + tensor.ft_xz * m_fft.ft_z\n"),
    m("c19-demag-vdims-order", ["C19"], T, 'vdims=["xx", "yy", "zz", "xy", "xz", "yz"],\n    ).fftn()\n\n\ndef demag_tensor', 'vdims=["xx", "yy", "zz", "xy", "yz", "xz"],\n    ).fftn()\n\n\ndef demag_tensor'),
    m("c19-tcd-unnormalised", ["C19"], T, "v0 = of.array[i, j]", "v0 = field.array[i, j]"),
    m("c19-tcd-bounds", ["C19"], T, "if i + 1 < of.mesh.n[0] and of.valid[i + 1, j]", "if i + 1 <= of.mesh.n[0] and of.valid[i + 1, j]"),
    m("c19-tcd-triangle-orientation", ["C19"], T, "charge += dfu.bergluescher_angle(v0, v2, v3)", "charge += dfu.bergluescher_angle(v0, v3, v2)"),
    m("c19-tcd-continuous-axes", ["C19"], T, "return 1 / (4 * np.pi) * of.dot(of.diff(axis1).cross(of.diff(axis2)))", "return 1 / (4 * np.pi) * of.dot(of.diff(axis2).cross(of.diff(axis1)))"),
    m("c19-tcd-accepts-3d", ["C19"], T, "    if field.mesh.region.ndim != 2:\n        raise ValueError(\n            \"The topological charge density", "    if field.mesh.region.ndim < 2:\n        raise ValueError(\n            \"The topological charge density"),
    m("c19-emergent-cyclic", ["C19"], T, "F2 = field.dot(field.diff(geo_dims[2]).cross(field.diff(geo_dims[0])))", "F2 = field.dot(field.diff(geo_dims[0]).cross(field.diff(geo_dims[2])))"),
    m("c19-angle-no-clip", ["C19"], T, "angles = np.arccos(np.clip(dot_product, -1.0, 1.0))", "angles = np.arccos(dot_product)"),
    m("c19-angle-unnormalised", ["C19"], T, "    fo = field.orientation\n", "    fo = field\n"),
    m("c19-angle-mesh-shrink", ["C19"], T, "    p2 = np.subtract(field.mesh.region.pmax, delta_p)", "    p2 = np.subtract(field.mesh.region.pmax, 0)"),
    m("c19-angle-slices", ["C19"], T, "            sclices_two.append(slice(1, None))\n            delta_p", "            sclices_two.append(slice(2, None))\n            delta_p"),
    m("c19-bps-not-cumulative", ["C19"], T, "F_int = F_red.integrate(direction=direction, cumulative=True)", "F_int = F_red.integrate(direction=direction)"),
    m("c19-bps-raw-field", ["C19"], T, "F_div = emergent_magnetic_field(field.orientation).div", "F_div = emergent_magnetic_field(field).div"),
    m("c19-bps-hh-sign", ["C19"], T, 'results["bp_number_hh"] = abs(bp_count[bp_count < 0].sum()).item()', 'results["bp_number_hh"] = abs(bp_count[bp_count > 0].sum()).item()'),
    m("c19-bps-nvdim", ["C19"], T, "    elif field.nvdim != 3:\n        raise ValueError(f\"The field must be 3D vector", "    elif field.nvdim < 3:\n        raise ValueError(f\"The field must be 3D vector"),
    m("c19-bl-formula", ["C19"], U, "2 * cmath.log(exp_omega).imag / (4 * np.pi)", "cmath.log(exp_omega).imag / (4 * np.pi)"),
]

MUTANTS += [
    # ------------------------------------------------------------------ C18
    m("c18-compose-right", ["C18"], ROT, "self._rotation = rotation * self._rotation", "self._rotation = self._rotation * rotation"),
    m("c18-compose-replace", ["C18"], ROT, "self._rotation = rotation * self._rotation", "self._rotation = rotation"),
    m("c18-clear-keeps-field", ["C18"], ROT, "        self._rotated_field = self._orig_field\n", "        pass\n"),
    m("c18-rotate-from-rotated", ["C18"], ROT, "        if self._orig_field.nvdim == 1:\n            rot_field = self._orig_field.array", "        if self._orig_field.nvdim == 1:\n            rot_field = self._rotated_field.array"),
    m("c18-positions-forward", ["C18"], ROT, "new_pos_old_mesh = self._rotation.inv().apply(new_mesh_pos)", "new_pos_old_mesh = self._rotation.apply(new_mesh_pos)"),
    m("c18-vectors-inverse", ["C18"], ROT, "self._rotation.apply(array)", "self._rotation.inv().apply(array)"),
    m("c18-no-argsort", ["C18"], ROT, "[..., ordered_idx.argsort()]", "[..., ordered_idx]"),
    m("c18-region-off-centre", ["C18"], ROT, "p1=(self._orig_field.mesh.region.center - edge_centre_length),", "p1=(self._orig_field.mesh.region.pmin - edge_centre_length),"),
    m("c18-fill-nan", ["C18"], ROT, "fill_value=0, bounds_error=False", "fill_value=None, bounds_error=False"),
    m("c18-accept-2d", ["C18"], ROT, "if field.mesh.region.ndim != 3:", "if field.mesh.region.ndim > 3:"),
    m("c18-accept-nvdim2", ["C18"], ROT, "if field.nvdim not in [1, 3]:", "if field.nvdim not in [1, 2, 3]:"),
    m("c18-grid-axis", ["C18"], ROT, "- self._orig_field.mesh.region.center[i]", "- self._orig_field.mesh.region.center[0]"),
    m("c18-drops-mapping", ["C18"], ROT, "            vdim_mapping=self._orig_field.vdim_mapping,\n", ""),
    m("c18-component-mix", ["C18"], ROT, "result[..., i] = self._create_interpolation_funcs(rot_field[..., i])(", "result[..., i] = self._create_interpolation_funcs(rot_field[..., 0])("),
]

MUTANTS += [
    # ------------------------------------------------------------------ C20
    m("c20-scalar-no-copy", ["C20"], MPL, "values = self.field.array.copy().reshape(self.field.mesh.n)", "values = self.field.array.reshape(self.field.mesh.n)", anchor="def scalar("),
    m("c20-vector-no-copy", ["C20"], MPL, "        values = self.field.array.copy()\n", "        values = self.field.array\n"),
    m("c20-contour-no-copy", ["C20"], MPL, "values = self.field.array.copy().reshape(self.field.mesh.n)", "values = self.field.array.reshape(self.field.mesh.n)", anchor="def contour("),
    m("c20-lightness-hue-no-copy", ["C20"], MPL, "values = self.field.array.copy().reshape(self.field.mesh.n)", "values = self.field.array.reshape(self.field.mesh.n)", anchor="lightness_field = self.field.norm\n        elif lightness_field.nvdim != 1:"),
    m("c20-scalar-not-transposed", ["C20"], MPL, 'cp = ax.imshow(np.transpose(values), origin="lower", extent=extent, **kwargs)', 'cp = ax.imshow(values, origin="lower", extent=extent, **kwargs)'),
    m("c20-scalar-origin", ["C20"], MPL, 'cp = ax.imshow(np.transpose(values), origin="lower", extent=extent, **kwargs)', 'cp = ax.imshow(np.transpose(values), extent=extent, **kwargs)'),
    m("c20-extent-order", ["C20"], MPL, "return [pmin[0], pmax[0], pmin[1], pmax[1]]", "return [pmin[0], pmin[1], pmax[0], pmax[1]]"),
    m("c20-extent-reference", ["C20"], MPL, "reference_point = (0, 0)  # 2d point", "reference_point = None  # 2d point"),
    m("c20-ylabel-dim", ["C20"], MPL, 'rf"{self.field.mesh.region.dims[1]}"', 'rf"{self.field.mesh.region.dims[0]}"'),
    m("c20-contour-positions", ["C20"], MPL, "points2 = self.field.mesh.cells[1] / multiplier", "points2 = self.field.mesh.cells[1]", anchor="def contour("),
    m("c20-vector-no-filter", ["C20"], MPL, "        self._filter_values(self.field._valid_as_field, values)\n", ""),
    m("c20-scalar-filter-after-draw", ["C20"], MPL, "        self._filter_values(filter_field, values)\n\n        if symmetric_clim", "        if symmetric_clim"),
    m("c20-filter-inverted", ["C20"], MPL, "values[filter_field.array.reshape(self.field.mesh.n) == 0] = np.nan", "values[filter_field.array.reshape(self.field.mesh.n) != 0] = np.nan"),
    m("c20-vector-components-positional", ["C20"], MPL, "arrow_x = self.field.vdims.index(vdims[0]) if vdims[0] else None", "arrow_x = 0 if vdims[0] else None"),
    m("c20-vector-default-components", ["C20"], MPL, "                self.field._r_dim_mapping[self.field.mesh.region.dims[0]],\n                self.field._r_dim_mapping[self.field.mesh.region.dims[1]],\n            ]\n        elif len(vdims) != 2:", "                self.field.vdims[0],\n                self.field.vdims[1],\n            ]\n        elif len(vdims) != 2:"),
    m("c20-accept-3d", ["C20"], MPL, "        if field.mesh.region.ndim != 2:\n", "        if field.mesh.region.ndim < 2:\n"),
    m("c20-scalar-accept-vector", ["C20"], MPL, "        if self.field.nvdim > 1:\n            raise RuntimeError(f\"Cannot plot {self.field.nvdim=} field.\")\n", ""),
    m("c20-angle-swapped", ["C20"], PU, "getattr(field, y).array if x is not None else 0,\n        getattr(field, x).array if y is not None else 0,", "getattr(field, x).array if x is not None else 0,\n        getattr(field, y).array if y is not None else 0,"),
    m("c20-lightness-transparent", ["C20"], MPL, "        rgba[np.isnan(rgb[..., 0])] = 0\n", ""),
]

MUTANTS += [
    # the verified schema (getters, derived getters, the two helpers every axis / point computation goes through)
    m("schema-region-pmin", ["C01", "C07", "C12", "C13", "C14"], R, "        return self._pmin\n", "        return self._pmax\n"),
    m("schema-mesh-n-reversed", ["C01", "C04", "C06", "C13"], M, "        return self._n\n", "        return self._n[::-1]\n"),
    m("schema-field-valid-negated", ["C08", "C03", "C16"], F, "        return self._valid\n", "        return ~self._valid\n"),
    m("schema-field-array-copy", ["C02", "C03", "C06"], F, "        return self._array\n", "        return self._array * 1\n"),
    m("schema-dim2index-from-end", ["C04", "C06", "C12"], R, "            return self.dims.index(dim)\n", "            return len(self.dims) - 1 - self.dims.index(dim)\n"),
    m("schema-array2tuple-reversed", ["C01", "C02"], U, "return array.item() if array.size == 1 else tuple(array.tolist())", "return tuple(array.tolist())[::-1]"),
    m("schema-centre-is-pmin", ["C12", "C13"], R, "        return self.center\n", "        return self.pmin\n"),
    # maximum neighbouring-cell angle
    m("c19-max-angle-same-channel", ["C19"], T, "        max_angles[(*slices_two, (2 * i) + 1)] = neighbouring_cell_angle(", "        max_angles[(*slices_two, (2 * i))] = neighbouring_cell_angle("),
    m("c19-max-angle-shift", ["C19"], T, "            slice(1, None) if i == j else slice(None)\n            for j in range(field.mesh.region.ndim)", "            slice(2, None) if i == j else slice(None)\n            for j in range(field.mesh.region.ndim)"),
    m("c19-max-angle-min", ["C19"], T, "max_angles = max_angles.max(axis=-1, keepdims=True)", "max_angles = max_angles.min(axis=-1, keepdims=True)"),
    # Newell's auxiliary functions
    m("c19-newell-f-sign", ["C19"], T, "        + 1 / 6 * (2 * x2 - y2 - z2) * np.sqrt(x2 + y2 + z2)\n", "        + 1 / 6 * (2 * x2 - y2 + z2) * np.sqrt(x2 + y2 + z2)\n"),
    m("c19-newell-g-third", ["C19"], T, "        - x * y * np.sqrt(x2 + y2 + z2) / 3\n", "        - x * y * np.sqrt(x2 + y2 + z2) / 2\n"),
    m("c19-newell-g-arcsinh-arg", ["C19"], T, "np.divide(x, np.sqrt(y2 + z2), out=np.zeros_like(x), where=(y2 + z2) != 0)", "np.divide(x, np.sqrt(y2 + x2), out=np.zeros_like(x), where=(y2 + z2) != 0)"),
    m("c19-N-off-diagonal-uses-f", ["C19"], T, "_N_element(x, z, y, (dx, dz, dy), _g),  # Nxz", "_N_element(x, z, y, (dx, dz, dy), _f),  # Nxz"),
    # pre-repair forms of AF21 / AF22
    m("c17-nvdim-python-int-only", ["C17"], F, 'elif not isinstance(xa.attrs["nvdim"], numbers.Integral):', 'elif not isinstance(xa.attrs["nvdim"], int):'),
    m("c02-line-points-rank1", ["C02"], LN, "points = np.array(points).reshape((len(points), -1))", "points = np.array(points)"),
    m("c02-line-points-one-row", ["C02"], LN, "points = np.array(points).reshape((len(points), -1))", "points = np.array(points).reshape((1, -1))"),
    m("c10-h5-reader-no-dtype", ["C10"], H5, '            dtype=h5_field["array"].dtype,\n', ""),
    m("c10-h5-reader-other-dtype", ["C10"], H5, 'dtype=h5_field["array"].dtype,', 'dtype=h5_field["valid"].dtype,'),
    m("c10-h5-legacy-no-dtype", ["C10"], H5, "value=array[:], dtype=array.dtype)", "value=array[:])"),
    m("c13-mesh-scale-no-dry-run", ["C13"], M, "            for sr in self.subregions.values():\n                sr.scale(factor, reference_point=sr_ref)\n", ""),
    m("c13-mesh-scale-dry-run-late", ["C13"], M,
      "            for sr in self.subregions.values():\n                sr.scale(factor, reference_point=sr_ref)\n            self.region.scale(factor, inplace=True, reference_point=reference_point)\n",
      "            self.region.scale(factor, inplace=True, reference_point=reference_point)\n            for sr in self.subregions.values():\n                sr.scale(factor, reference_point=sr_ref)\n"),
    m("c13-mesh-translate-no-dry-run", ["C13"], M, "            for sr in self.subregions.values():\n                sr.translate(vector)\n", ""),
    m("c13-mesh-rotate-no-dry-run", ["C13", "C12"], M,
      "            for subregion in self.subregions.values():\n                subregion.rotate90(ax1=ax1, ax2=ax2, k=k, reference_point=reference_point)\n",
      "            pass\n"),
    m("c13-mesh-rotate-dry-run-other-step", ["C13", "C12"], M,
      "                subregion.rotate90(ax1=ax1, ax2=ax2, k=k, reference_point=reference_point)\n",
      "                subregion.rotate90(ax1=ax1, ax2=ax2, k=1, reference_point=reference_point)\n"),
    # ------------------------------------------------------------------ API-wide purity (C13)
    m("c13-rotate-copy-mutates-corner", ["C13"], R, 'p1 = self.pmin.copy().astype("float")', "p1 = self.pmin"),
    m("c13-integrate-scales-in-place", ["C13"], F, "tmp_array = self.array / 2", "tmp_array = self.array\n            tmp_array /= 2"),
    m("c13-meshpad-moves-region", ["C13"], M, "pmin = self.region.pmin.copy().astype(float)", "pmin = self.region.pmin"),
    m("c13-orientation-in-place", ["C13"], F, "            out=np.zeros_like(self.array),\n        )\n        return self.__class__(\n            self.mesh,\n            nvdim=self.nvdim,\n            value=orientation_array,", "            out=self.array,\n        )\n        return self.__class__(\n            self.mesh,\n            nvdim=self.nvdim,\n            value=orientation_array,"),
]

MUTANTS += [
    m("c12-inexact-coefficients", ["C12"], F, "            cos_theta = round(np.cos(theta))\n            sin_theta = round(np.sin(theta))\n", "            cos_theta = np.cos(theta)\n            sin_theta = np.sin(theta)\n"),
]

MUTANTS += [
    # ------------------------------------------------------------------ result dtype must not be inherited
    m("c06-integrate-inherits-dtype", ["C06"], F, "        return self.__class__(\n            mesh,\n            nvdim=self.nvdim,\n            value=res_array,\n", "        return self.__class__(\n            mesh,\n            nvdim=self.nvdim,\n            dtype=self.dtype,\n            value=res_array,\n"),
    m("c04-diff-inherits-dtype", ["C04"], F, "            value=out,\n            vdims=self.vdims,\n", "            value=out,\n            dtype=self.dtype,\n            vdims=self.vdims,\n"),
    m("c15-norm-inherits-dtype", ["C15"], F, "self.mesh, nvdim=1, value=res, unit=self.unit, valid=self.valid", "self.mesh, nvdim=1, value=res, dtype=self.dtype, unit=self.unit, valid=self.valid"),
    m("c11-fft-inherits-dtype", ["C11"], F, "            value=array,\n            vdims=new_vdims,", "            value=array,\n            dtype=self.dtype,\n            vdims=new_vdims,"),
    m("c03-operator-inherits-dtype", ["C03"], F, "            nvdim=res_array.shape[-1],\n            value=res_array,\n", "            nvdim=res_array.shape[-1],\n            value=res_array,\n            dtype=self.dtype,\n"),
]

MUTANTS += [
    # ------------------------------------------------------------------ corner copies / C05 exactness
    m("c07-testpoint-int-truncation", ["C07"], M, "                test_point = self.region.pmin.copy().astype(\n                    max(self.region.pmin.dtype, type(range_))\n                )", "                test_point = self.region.pmin.copy()"),
    m("c07-sel-range-int-truncation", ["C07"], M, "p_1 = self.region.pmin.copy().astype(", "p_1 = self.region.pmin.copy() if True else self.region.pmin.astype("),
    m("c12-region-rotate-int-corners", ["C12"], R, 'p2 = self.pmax.copy().astype("float")', "p2 = self.pmax.copy()"),
    m("c05-first-derivative-threshold", ["C05", "C04"], OP, "        if len(array) < 3:\n", "        if len(array) <= 3:\n"),
]

MUTANTS += [
    m("c03-mesh-eq-ignores-n", ["C03"], M, "return self.region == other.region and all(self.n == other.n)", "return self.region == other.region and any(self.n == other.n)"),
    m("c03-region-eq-ignores-pmax", ["C03"], R, "                np.array_equal(self.pmin, other.pmin)\n                and np.array_equal(self.pmax, other.pmax)", "                np.array_equal(self.pmin, other.pmin)\n                and np.array_equal(self.pmin, other.pmin)"),
]

MUTANTS += [
    # ------------------------------------------------------------------ C02 dtype / Line details, C01 dispatch
    m("c02-full-drops-dtype", ["C02"], F, "return np.full((*mesh.n, nvdim), val, dtype=dtype)", "return np.full((*mesh.n, nvdim), val)"),
    m("c02-default-dtype-min", ["C02"], F, "dtype = dtype or max(np.asarray(val).dtype, np.float64)", "dtype = dtype or min(np.asarray(val).dtype, np.float64)"),
    m("c02-setter-drops-dtype", ["C02"], F, "self._array = self._as_array(val, self.mesh, self.nvdim, dtype=self.dtype)", "self._array = self._as_array(val, self.mesh, self.nvdim, dtype=None)"),
    m("c02-sentinel-component", ["C02"], F, "for idx in np.argwhere(np.isnan(array[..., 0])):", "for idx in np.argwhere(np.isnan(array[..., -1:])):"),
    m("c02-line-rows", ["C02"], LN, "values = np.array(values).reshape((points.shape[0], -1))", "values = np.array(values).reshape((-1, points.shape[0])).T"),
    m("c02-line-point-column", ["C02"], LN, "            self.data[column] = points[..., i]\n", "            self.data[column] = points[..., -i - 1]\n"),
    m("c02-getattr-unit", ["C02"], F, "                nvdim=1,\n                value=attr_array,\n                unit=self.unit,", "                nvdim=1,\n                value=attr_array,"),
    m("c01-init-dispatch", ["C01"], M, "if region is not None and p1 is None and p2 is None:", "if region is not None and p1 is None or p2 is None:"),
    m("c01-index-type", ["C01"], M, "if any(not isinstance(i, numbers.Integral) for i in index):", "if all(not isinstance(i, numbers.Integral) for i in index):"),
    m("c01-contains-other", ["C01"], R, "            return other.pmin in self and other.pmax in self\n\n        return False", "            return other.pmin in self and other.pmax in self\n\n        return True"),
]

MUTANTS += [
    # ------------------------------------------------------------------ C07 wiring / dispatch
    m("c07-sel-subregion-both-pmax", ["C07", "C14"], M, "                        sub_p_1 = subreg.pmin.copy().astype(", "                        sub_p_1 = subreg.pmax.copy().astype("),
    m("c07-sel-plane-subregion-corner", ["C07", "C14"], M, "                            sub_p_1.append(subreg.pmin[j])\n", "                            sub_p_1.append(subreg.pmax[j])\n"),
    m("c07-pad-data-mode", ["C07", "C04"], F, "padded_array = np.pad(self.array, padding_sequence, mode=mode, **kwargs)", "padded_array = np.pad(self.array, padding_sequence, **kwargs)"),
    m("c07-sel-two-dims", ["C07"], M, "if len(args) > 1 or len(kwargs) > 1:", "if len(args) > 1 and len(kwargs) > 1:"),
    m("c07-sel-range-length", ["C07"], M, "                if len(range_) != 2:\n", "                if len(range_) < 2:\n"),
    m("c07-getitem-valid-dropped", ["C07", "C08"], F, "            valid=self.valid[tuple(slices)],\n", ""),
]
