"""Mutant corpus: each entry breaks one property while the variant still compiles.
F = discretisedfield/field.py etc.  `anchor` (unique text) selects the first `old` after it."""
F = "discretisedfield/field.py"
M = "discretisedfield/mesh.py"
R = "discretisedfield/region.py"
OP = "discretisedfield/operators.py"
H5 = "discretisedfield/io/hdf5.py"
OVF = "discretisedfield/io/ovf.py"
VTK = "discretisedfield/io/vtk.py"
IO = "discretisedfield/io/__init__.py"
T = "discretisedfield/tools/tools.py"
U = "discretisedfield/util/util.py"
ROT = "discretisedfield/field_rotator.py"
MPL = "discretisedfield/plotting/mpl_field.py"
PU = "discretisedfield/plotting/util.py"
LN = "discretisedfield/line.py"


def m(id, expect, file, old, new, anchor=None, count=1):
    d = {"id": id, "expect": expect, "file": file, "old": old, "new": new, "count": count}
    if anchor:
        d["anchor"] = anchor
    return d


MUTANTS = [
    # ------------------------------------------------------------------ C08
    m("c08-neg-drops-valid", ["C08"], F, "            valid=self.valid,\n", "", anchor="def __neg__(self):"),
    m("c08-diff-drops-valid", ["C08"], F, "            valid=self.valid,\n", "", anchor="def diff(self, direction, order=1, restrict2valid=True):"),
    m("c08-norm-drops-valid", ["C08"], F, "unit=self.unit, valid=self.valid\n", "unit=self.unit\n"),
    m("c08-dot-or", ["C08"], F, "valid = np.logical_and(valid, other.valid)", "valid = np.logical_or(valid, other.valid)", anchor="def dot(self, other):"),
    m("c08-cross-one-sided", ["C08"], F, "valid = np.logical_and(valid, other.valid)", "valid = np.logical_and(valid, valid)", anchor="def cross(self, other):"),
    m("c08-angle-no-and", ["C08"], F, "            valid = np.logical_and(valid, vector.valid)\n", "            pass\n"),
    m("c08-sel-valid-unsliced", ["C08"], F, "valid = self.valid[slices[:-1]]", "valid = self.valid[slices[1:]]"),
    m("c08-getitem-valid-whole", ["C08"], F, "valid=self.valid[tuple(slices)],", "valid=self.valid[tuple(slices[::-1])],"),
    m("c08-pad-valid-mode", ["C08"], F, "padded_valid = np.pad(self.valid, padding_sequence, mode=mode, **kwargs)",
      "padded_valid = np.pad(self.valid, padding_sequence, mode=\"constant\")"),
    m("c08-rot-valid-k", ["C08", "C12"], F, "valid = np.rot90(self.valid.copy(), k=k, axes=(idx1, idx2))",
      "valid = np.rot90(self.valid.copy(), k=-k, axes=(idx1, idx2))"),
    m("c08-setter-dtype", ["C08"], F, "self._valid = self._as_array(valid, self.mesh, nvdim=1, dtype=bool)[..., 0]",
      "self._valid = self._as_array(valid, self.mesh, nvdim=1, dtype=None)[..., 0]"),
    m("c08-norm-tolerance", ["C08"], F, "valid = ~np.isclose(self.norm.array, 0)", "valid = ~np.isclose(self.norm.array, 0, atol=1e-3)"),
    m("c08-norm-inverted", ["C08"], F, "valid = ~np.isclose(self.norm.array, 0)", "valid = np.isclose(self.norm.array, 0)"),
    m("c08-shortcut-view", ["C08"], F, "return np.expand_dims(np.array(val, dtype=dtype), axis=-1)", "return np.expand_dims(val, axis=-1)"),
    m("c08-shortcut-asarray", ["C08"], F, "return np.expand_dims(np.array(val, dtype=dtype), axis=-1)",
      "return np.expand_dims(np.asarray(val, dtype=dtype), axis=-1)"),
    m("c08-pos-returns-self", ["C08"], F, "        return self.__class__(\n            self.mesh,\n            nvdim=self.nvdim,\n            value=+self.array,\n            vdims=self.vdims,\n            valid=self.valid,\n            vdim_mapping=self.vdim_mapping,\n        )\n",
      "        return self\n"),
    m("c08-h5-valid-int", ["C08"], H5, 'h5_field.create_dataset("valid", data=self.valid, dtype=np.bool_)',
      'h5_field.create_dataset("valid", data=self.valid, dtype=np.int8)'),
    m("c08-h5-load-no-valid", ["C08"], H5, '            valid=h5_field["valid"],\n', ""),
    m("c08-vtk-valid-perm", ["C08"], F, "self.valid.astype(int).transpose((2, 1, 0)).reshape(-1)", "self.valid.astype(int).transpose((1, 2, 0)).reshape(-1)"),
    m("c08-vtk-read-no-valid", ["C08"], VTK, "return cls(mesh, nvdim=dim, value=value, vdims=vdims, valid=valid)",
      "return cls(mesh, nvdim=dim, value=value, vdims=vdims)"),
    m("c08-resample-valid-self", ["C08"], F, "valid=self.__class__(self.mesh, nvdim=1, value=self.valid, dtype=bool),", "valid=True,"),
    m("c08-setter-touches-array", ["C08"], F, "        else:\n            valid = True\n", "        else:\n            valid = True\n            self._array[...] = 0\n"),
    # ------------------------------------------------------------------ C03
    m("c03-sub-uses-add", ["C03"], F, "return self._apply_operator(other, np.subtract, \"-\")", "return self._apply_operator(other, np.add, \"-\")"),
    m("c03-rsub-sign", ["C03"], F, "return -self + other", "return self - other"),
    m("c03-rtruediv-order", ["C03"], F, "lambda x, y: np.divide(y, x)", "lambda x, y: np.divide(x, y)"),
    m("c03-rand-sign", ["C03"], F, "return -self.cross(other)", "return self.cross(other)"),
    m("c03-apply-swapped", ["C03"], F, "res_array = function(self.array, other)", "res_array = function(other, self.array)"),
    m("c03-apply-no-check", ["C03"], F, "            self._check_same_mesh_and_field_dim(other, ignore_scalar=True)\n", ""),
    m("c03-dot-ignore-scalar", ["C03"], F, "self._check_same_mesh_and_field_dim(other)", "self._check_same_mesh_and_field_dim(other, ignore_scalar=True)", anchor="def dot(self, other):"),
    m("c03-check-mesh-dropped", ["C03"], F, "if not self.mesh.allclose(other.mesh):", "if False:"),
    m("c03-check-bypass-widened", ["C03"], F, "if ignore_scalar and (self.nvdim == 1 or other.nvdim == 1):", "if ignore_scalar or (self.nvdim == 1 or other.nvdim == 1):"),
    m("c03-abs-no-vdims", ["C03"], F, "            value=np.abs(self.array),\n            vdims=self.vdims,\n            unit=self.unit,", "            value=np.abs(self.array),\n            unit=self.unit,"),
    m("c03-ufunc-no-mesh-check", ["C03"], F, "            if not self.mesh.allclose(m):\n                raise ValueError(\n                    \"To perform this operation all fields must have the same mesh.\"\n                )\n", "            pass\n"),
    m("c03-neg-inplace", ["C03"], F, "            value=-self.array,\n", "            value=np.negative(self.array, out=self.array),\n"),
    m("c03-lshift-order", ["C03"], F, "        array_list = [self.array[..., i] for i in range(self.nvdim)]\n        array_list += [other.array[..., i] for i in range(other.nvdim)]",
      "        array_list = [other.array[..., i] for i in range(other.nvdim)]\n        array_list += [self.array[..., i] for i in range(self.nvdim)]"),
    m("c03-meshallclose-n", ["C03"], M, ") and np.array_equal(self.n, other.n)", ")", anchor="def allclose(self, other, rtol=None, atol=None):"),
    m("c03-scalar-vector-labels", ["C03"], F, "                vdims = other.vdims\n", "                vdims = self.vdims\n"),
    m("c03-cross-nvdim", ["C03"], F, "nvdim=3,\n            value=np.cross(self.array, other),", "nvdim=3,\n            value=np.cross(other, self.array),"),
    # ------------------------------------------------------------------ C12 / C13
    m("c12-region-matrix-sign", ["C12"], R, "[np.cos(k * np.pi / 2), -np.sin(k * np.pi / 2)],\n                [np.sin(k * np.pi / 2), np.cos(k * np.pi / 2)],",
      "[np.cos(k * np.pi / 2), np.sin(k * np.pi / 2)],\n                [-np.sin(k * np.pi / 2), np.cos(k * np.pi / 2)],"),
    m("c12-field-mix-sign", ["C12"], F, "value[..., vdim1] = np.cos(theta) * value1 - np.sin(theta) * value2", "value[..., vdim1] = np.cos(theta) * value1 + np.sin(theta) * value2"),
    m("c12-field-mix-nocopy", ["C12"], F, "value1 = value[..., vdim1].copy()", "value1 = value[..., vdim1]"),
    m("c12-field-axes-swapped", ["C12"], F, "value = np.rot90(self.array.copy(), k=k, axes=(idx1, idx2))", "value = np.rot90(self.array.copy(), k=k, axes=(idx2, idx1))"),
    m("c12-region-ref-axis", ["C12"], R, "ref_2 = reference_point[idx2]", "ref_2 = reference_point[idx1]"),
    m("c12-units-always-swap", ["C12"], R, "        if k % 2 == 1:\n            units[idx1], units[idx2] = units[idx2], units[idx1]", "        if True:\n            units[idx1], units[idx2] = units[idx2], units[idx1]"),
    m("c12-region-inplace-no-units", ["C12", "C13"], R, "            self.units = units\n", ""),
    m("c12-mesh-subregion-ref-none", ["C12", "C13"], M, "        if reference_point is None:\n            reference_point = self.region.centre\n", "", anchor="def rotate90(self, ax1, ax2, k=1, reference_point=None, inplace=False):"),
    m("c12-mesh-n-even", ["C12", "C13"], M, "if k % 2 == 1:\n            idx1 = self.region._dim2index(ax1)", "if k % 2 == 0:\n            idx1 = self.region._dim2index(ax1)"),
    m("c12-field-inplace-mesh-first", ["C12", "C13"], F, "reference_point=reference_point, inplace=False\n        )", "reference_point=reference_point, inplace=inplace\n        )"),
    m("c12-field-copy-drops-unit", ["C12", "C13"], F, "                dtype=self.dtype,\n                unit=self.unit,\n                valid=valid,", "                dtype=self.dtype,\n                valid=valid,"),
    m("c12-k-float-accepted", ["C12"], R, "if not isinstance(k, int):", "if not isinstance(k, (int, float)):"),
    m("c13-scale-inplace-raw", ["C13"], R, "            self._pmin = np.minimum(pmin, pmax)\n            self._pmax = np.maximum(pmin, pmax)\n", "            self._pmin = pmin\n            self._pmax = pmax\n"),
    m("c13-scale-inplace-zero", ["C13"], R, "            if not np.all(pmax - pmin):\n", "            if False:\n"),
    m("c13-translate-one-corner", ["C13"], R, "self._pmax = np.add(self.pmax, vector)", "self._pmax = np.add(self.pmax, 0)"),
    m("c13-scale-about-pmin", ["C13"], R, "pmin = reference_point - (reference_point - self.pmin) * factor", "pmin = reference_point - (reference_point - self.pmin) / factor"),
    m("c13-mesh-scale-sub-own-centre", ["C13"], M, "sr.scale(factor, inplace=True, reference_point=sr_ref)", "sr.scale(factor, inplace=True, reference_point=reference_point)"),
    m("c13-mesh-translate-skip-subregions", ["C13"], M, "                sr.translate(vector, inplace=True)\n", "                sr.translate(vector)\n"),
    m("c13-mesh-copy-mutates", ["C13"], M, "region = self.region.translate(vector)\n", "region = self.region.translate(vector, inplace=True)\n"),
    m("c13-foreign-writer", ["C13"], M, "        self.bc = bc\n\n        self.subregions = subregions\n", "        self.bc = bc\n\n        self.subregions = subregions\n        self.region._pmin = self.region._pmin * 1\n"),
    m("c13-n-not-validated", ["C13"], M, "            elif not all(i > 0 for i in n):\n                raise ValueError(\"The values of n must be positive integers.\")\n", ""),
    m("c13-region-zero-edge", ["C13"], R, "        if not np.all(self.edges):\n", "        if False:\n"),
    m("c13-inplace-returns-copy", ["C13"], R, "            self._pmin = np.add(self.pmin, vector)\n            self._pmax = np.add(self.pmax, vector)\n            return self\n",
      "            self._pmin = np.add(self.pmin, vector)\n            self._pmax = np.add(self.pmax, vector)\n            return self.__class__(p1=self.pmin, p2=self.pmax)\n"),
]

MUTANTS += [
    # ------------------------------------------------------------------ C01
    m("c01-index2point-half", ["C01"], M, "point = self.region.pmin + np.add(index, 0.5) * self.cell", "point = self.region.pmin + np.add(index, 1) * self.cell"),
    m("c01-index2point-range", ["C01"], M, "np.logical_or(np.less(index, 0), np.greater_equal(index, self.n)).any()", "np.logical_or(np.less(index, 0), np.greater(index, self.n)).any()"),
    m("c01-point2index-ceil", ["C01"], M, "index = np.floor((point - self.region.pmin) / self.cell).astype(int)", "index = np.ceil((point - self.region.pmin) / self.cell).astype(int)"),
    m("c01-point2index-clip", ["C01"], M, "index = np.clip(index, 0, self.n - 1)", "index = np.clip(index, 0, self.n)"),
    m("c01-point2index-no-guard", ["C01"], M, "        if point not in self.region:\n", "        if False:\n"),
    m("c01-cells-offset", ["C01"], M, "np.linspace(pmin + cell / 2, pmax - cell / 2, n)", "np.linspace(pmin + cell / 2, pmax - cell, n)"),
    m("c01-cells-zip-order", ["C01"], M, "self.region.pmin, self.region.pmax, self.cell, self.n\n", "self.region.pmax, self.region.pmin, self.cell, self.n\n"),
    m("c01-vertices-count", ["C01"], M, "np.linspace(pmin, pmax, n + 1)", "np.linspace(pmin, pmax, n)"),
    m("c01-indices-order", ["C01"], M, "for index in itertools.product(*map(range, reversed(self.n))):\n            yield tuple(reversed(index))",
      "for index in itertools.product(*map(range, self.n)):\n            yield tuple(index)"),
    m("c01-coordinate-axis", ["C01"], M, "self.n[i] if i == j else 1 for j in range(self.region.ndim)", "self.n[j] if i == j else 1 for j in reversed(range(self.region.ndim))"),
    m("c01-contains-upper", ["C01"], R, "np.greater_equal(self.pmax, other)\n", "np.greater_equal(self.pmin, other)\n"),
    m("c01-contains-atol", ["C01"], R, "atol = np.min(self.edges) * self.tolerance_factor\n            rtol = self.tolerance_factor\n            return np.all(", "atol = np.max(self.edges) * self.tolerance_factor\n            rtol = self.tolerance_factor\n            return np.all("),
    m("c01-cell-divisibility", ["C01", "C13"], M, "            rem = np.remainder(self.region.edges, cell)\n            if np.logical_and(\n", "            rem = np.remainder(self.region.edges, cell)\n            if False and np.logical_and(\n"),
    m("c01-n-from-cell-floor", ["C01", "C13"], M, "self._n = np.divide(self.region.edges, cell).round().astype(int)", "self._n = np.divide(self.region.edges, cell).astype(int)"),
    m("c01-cell-def", ["C01"], M, "return np.divide(self.region.edges, self.n).astype(float)", "return np.divide(self.region.edges, self.n + 1).astype(float)"),
]

MUTANTS += [
    # ------------------------------------------------------------------ C02
    m("c02-dict-forward-order", ["C02"], F, "for subregion in reversed(mesh.subregions.keys()):", "for subregion in mesh.subregions.keys():"),
    m("c02-dict-slab-store", ["C02"], F, "array[tuple(idx)] = np.asarray(subval(mesh.index2point(idx))).reshape(nvdim)", "array[idx] = np.asarray(subval(mesh.index2point(idx))).reshape(nvdim)"),
    m("c02-dict-wrong-key", ["C02"], F, "                subval = val[subregion]\n", "                subval = val.get(subregion, val.get(\"default\"))\n"),
    m("c02-dict-no-keyerror", ["C02"], F, "            if \"default\" not in val:\n", "            if False:\n"),
    m("c02-callable-misaligned", ["C02"], F, "for index, point in zip(mesh.indices, mesh):", "for index, point in zip(mesh.indices, reversed(list(mesh))):"),
    m("c02-call-wrong-lookup", ["C02"], F, "return self.array[self.mesh.point2index(point)]", "return self.array[self.mesh.point2index(point)[::-1]]"),
    m("c02-getattr-column", ["C02"], F, "attr_array = self.array[..., self.vdims.index(attr), np.newaxis]", "attr_array = self.array[..., self.vdims.index(attr) - 1, np.newaxis]"),
    m("c02-line-endpoint", ["C02"], M, "dl = np.subtract(p2, p1) / (n - 1)", "dl = np.subtract(p2, p1) / n"),
    m("c02-line-no-guard", ["C02"], M, "if p1 not in self.region or p2 not in self.region:", "if p1 not in self.region and p2 not in self.region:"),
    m("c02-line-r-from-origin", ["C02"], LN, "np.linalg.norm(points - points[0, :], axis=1)", "np.linalg.norm(points - points[-1, :], axis=1)"),
    m("c02-component-count-unchecked", ["C02"], F, "            elif np.shape(val)[-1] != nvdim:\n", "            elif False:\n"),
    m("c02-update-bypasses-setter", ["C02"], F, "        self.array = self._as_array(value, self.mesh, self.nvdim, dtype=self.dtype)\n", "        self._array = self._as_array(value, self.mesh, self.nvdim, dtype=self.dtype)\n"),
    m("c02-field-source-no-check", ["C02"], F, "    if mesh.region not in val.mesh.region:\n", "    if False:\n"),
    m("c02-field-source-not-nearest", ["C02"], F, 'method="nearest",\n        )\n        .data', 'method="pad",\n        )\n        .data'),
    m("c02-init-valid-before-norm", ["C02"], F, "        self.norm = norm\n        self.valid = valid\n", "        self.valid = valid\n        self.norm = norm\n"),
    m("c02-shortcut-any-nvdim", ["C02"], F, "if nvdim == 1 and np.array_equal(np.shape(val), mesh.n):", "if np.array_equal(np.shape(val), mesh.n):"),
]
