"""Soundness test of the reference-form substitution (sa/equiv.py): no single-edit mutant of any function of the package
may be proven "equivalent" to the reference form of that function.  python -m sa.selftest.equiv_sound [function quals...]

Every mutant is produced on the AST (comparator / operator / constant / keyword / call-name edits, see automut.py),
byte-compiled and loaded in memory; nothing is executed.  A mutant that IS judged equivalent is printed: it is either a
truly behaviour-preserving edit (to be listed in EQUIVALENT_EDITS with its reason) or an unsoundness of the equivalence."""
import os
import re
import sys
from concurrent.futures import ProcessPoolExecutor

# (function regex, description regex, why the edit does not change behaviour)
EQUIVALENT_EDITS = [
    (r"MplField\.lightness$", r"`elif self\.field\.nvdim > 3:`: comparator Gt->GtE",
     "reached only after `nvdim == 2` and `nvdim == 3` returned; nvdim is an integer >= 1 (Field.__init__ refuses anything "
     "else, confirmed from source by equiv.confirmed_invariants), so `>= 3` and `> 3` select the same fields there"),
]


def _job(args):
    repo_root, qual, desc, rel, new = args
    from ..model import Repo
    try:
        r = Repo(repo_root, overrides={rel: new})
    except Exception as e:      # noqa: BLE001
        return qual, desc, "error", str(e)[:100]
    if qual in r.substituted:
        return qual, desc, "equivalent", r.substituted[qual]
    return qual, desc, "different", r.restructured.get(qual, "")


def _job_benign(args):
    repo_root, ov, victims, qual, desc = args
    from ..model import Repo
    try:
        r = Repo(repo_root, overrides=ov)
    except Exception as e:      # noqa: BLE001
        return qual, desc, "error", str(e)[:100]
    hit = [q for q in victims if q in r.substituted]
    if hit:
        return qual, desc, "equivalent", f"{hit[0]}: {r.substituted[hit[0]]}"
    return qual, desc, "different", ""


def benign(ids):
    """The same test on the refactored forms of the benign corpus: every function that is proven equivalent in a refactored
    tree is mutated there (and so is every new helper that was inlined into it); no mutant may still be proven equivalent.
    This exercises the normal forms that only refactored code reaches."""
    from ..model import Repo
    from . import automut
    from .patchapply import apply_patch
    repo_root = os.environ.get("VERIF_REPO", "/repo")
    root = os.path.dirname(os.path.dirname(os.path.dirname(os.path.abspath(__file__))))
    bdir = os.path.join(root, "benign")
    ids = ids or sorted(os.listdir(bdir))
    tasks = []
    for i in ids:
        pf = os.path.join(bdir, i, "patch.diff")
        if not os.path.isfile(pf):
            continue
        ov = apply_patch(repo_root, open(pf).read())
        base = Repo(repo_root, overrides=ov)
        if not base.substituted:
            continue
        helpers = {h for c_, h in base.inlined if c_ in base.substituted}
        for q, d, rel, new in automut.generate(repo_root, sorted(base.substituted), repo=base):
            tasks.append((repo_root, dict(ov, **{rel: new}), [q], f"{i}:{q}", d))
        for q, d, rel, new in automut.generate(repo_root, sorted(helpers), repo=base):
            victims = [c_ for c_, h in base.inlined if h == q and c_ in base.substituted]
            tasks.append((repo_root, dict(ov, **{rel: new}), victims, f"{i}:{q}", d))
    with ProcessPoolExecutor(max_workers=min(16, os.cpu_count() or 4)) as ex:
        res = list(ex.map(_job_benign, tasks, chunksize=4))
    bad = 0
    for q, d, v, det in res:
        if v == "equivalent":
            why = next((w for fre, dre, w in EQUIVALENT_EDITS if re.search(fre, q) and re.search(dre, d)), None)
            print(f"{'listed   ' if why else 'UNSOUND? '} {q} {d} -> {det[:120]}" + (f" [{why}]" if why else ""))
            bad += 0 if why else 1
    n_err = sum(1 for r in res if r[2] == "error")
    print(f"{len(res)} single-edit mutants of refactored functions ({len(ids)} refactorings): "
          f"{sum(1 for r in res if r[2] == 'equivalent')} judged equivalent ({bad} not listed as behaviour-preserving), "
          f"{n_err} could not be loaded")
    return 1 if bad else 0


def main(argv):
    if argv and argv[0] == "--benign":
        return benign(argv[1:])
    from ..model import Repo
    from . import automut
    repo_root = os.environ.get("VERIF_REPO", "/repo")
    repo = Repo(repo_root)
    quals = argv or sorted(q for q, f in repo.funcs.items() if f.parent is None)
    tasks = [(repo_root, q, d, rel, new) for q, d, rel, new in automut.generate(repo_root, quals, repo=repo)]
    with ProcessPoolExecutor(max_workers=min(16, os.cpu_count() or 4)) as ex:
        res = list(ex.map(_job, tasks, chunksize=8))
    bad = 0
    for q, d, v, det in res:
        if v == "equivalent":
            why = next((w for fre, dre, w in EQUIVALENT_EDITS if re.search(fre, q) and re.search(dre, d)), None)
            print(f"{'listed   ' if why else 'UNSOUND? '} {q} {d} -> {det[:80]}" + (f" [{why}]" if why else ""))
            bad += 0 if why else 1
    n_err = sum(1 for r in res if r[2] == "error")
    print(f"{len(res)} single-edit mutants of {len(quals)} functions: {sum(1 for r in res if r[2] == 'equivalent')} judged equivalent "
          f"({bad} not listed as behaviour-preserving), {n_err} could not be loaded")
    return 1 if bad else 0


if __name__ == "__main__":
    sys.exit(main(sys.argv[1:]))
